#!/usr/bin/env python3
"""Regenerates /verif/MANIFEST.json from tools/manifest_src.json (one entry per claimed property)
and properties.jsonl (every property not claimed is listed under not_applicable with its reason)."""
import json
from pathlib import Path

V = Path(__file__).resolve().parent.parent
src = json.loads((V / 'tools' / 'manifest_src.json').read_text())
props = [json.loads(l)['id'] for l in (V / 'properties.jsonl').read_text().splitlines() if l.strip()]
claimed = src['claimed']
drivers = ' '.join(sorted({'drv_' + p.lower() for p in claimed if claimed[p].get('driver', True)})
                   + sorted('XsVerif.Props.' + p for p in claimed))
man = {
    'version': 1,
    'setup_cmd': f'cd /verif/lean && lake build XsVerif {drivers}',
    'hooks': {
        'guard': 'XMLSCHEMA_VERIF',
        'enable': 'no source hooks: checks observe /repo through its public API, sys.addaudithook, '
                  'settrace and monkey-patching from the harness process',
        'baseline_off_cmd': 'cd /repo && /venv/bin/python -m pytest -ra -q -p no:cacheprovider --timeout=900 '
                            '--continue-on-collection-errors',
        'source_commits': [],
        'add_only': True,
    },
    'engines': [{
        'name': 'lean-proof+correspondence', 'path': 'check', 'serves_properties': sorted(claimed),
        'kind_free_text': 'Lean 4 theorems over hand-written executable models (lean/XsVerif), tied to /repo on '
                          'every run by a differential correspondence check driven by harness/props/*.py through '
                          'native Lean drivers; translator-generated tables under lean/XsVerif/Generated',
    }],
    'checks': [],
    'not_applicable': [],
    'notes': src.get('notes', ''),
}
for p in props:
    if p in claimed:
        c = claimed[p]
        man['checks'].append({
            'property_id': p,
            'quick_cmd': f'./check {p} --tier quick',
            'thorough_cmd': f'./check {p} --tier thorough',
            'evidence_file': f'evidence/{p}.json',
            'replay_cmd_template': f'./check {p} --replay {{path}}',
            'engine': 'lean-proof+correspondence',
            'level_claimed': {'category': 'proof', 'text': c['text'], 'design_ref': c.get('design_ref', f'DESIGN.md §3 {p}')},
            'level_note': c['note'],
            'technique': c.get('technique', 'Lean 4 proof over a hand-written model + differential correspondence check'),
        })
    else:
        man['not_applicable'].append({'property_id': p, 'reason': src.get('unclaimed', {}).get(
            p, 'not claimed yet: the Lean model and correspondence harness for this property are not built')})
(V / 'MANIFEST.json').write_text(json.dumps(man, indent=1, ensure_ascii=False) + '\n')
print('claimed:', sorted(claimed), 'unclaimed:', len(man['not_applicable']))
