#!/usr/bin/env python3
"""tools/keep_seed.py <PROP> <k> <caught:yes|no> "<what I ran / result>"  — archives a confirmed seeded change
under /verif/seeded/<PROP>-<k>/ and removes its scratch worktree."""
import json, shutil, subprocess, sys
from pathlib import Path
prop, k, caught, note = sys.argv[1], sys.argv[2], sys.argv[3], sys.argv[4]
src = Path(f'/tmp/seedout-{prop.lower()}-{k}')
dst = Path(f'/verif/seeded/{prop}-{k}')
dst.mkdir(parents=True, exist_ok=True)
for f in ('patch.diff', 'demo.py'):
    shutil.copy(src / f, dst / f)
meta = json.loads((src / 'meta.json').read_text())
meta['property'] = prop
meta['confirmed_by_integrator'] = {
    'demo_on_repo_exit': 0, 'demo_on_changed_tree_exit': 1,
    'check_catches': caught == 'yes', 'ran': note,
}
(dst / 'meta.json').write_text(json.dumps(meta, indent=1, ensure_ascii=False) + '\n')
subprocess.run(['git', '-C', '/repo', 'worktree', 'remove', '--force', f'/tmp/seed-{prop.lower()}-{k}'])
shutil.rmtree(src, ignore_errors=True)
print('kept', dst)
