import json,sys
props={json.loads(l)['id']:json.loads(l) for l in open('/verif/properties.jsonl')}
def prompt(pid, k):
    p=props[pid]
    wt=f'/tmp/seed-{pid.lower()}-{k}'
    return f"""You are testing how robust a Python library's guarantees are. The library is sissaschool/xmlschema (pure-Python XML Schema 1.0/1.1 processor). You have your own scratch git worktree of it at {wt} (already created, at the current HEAD; work ONLY inside it and under /tmp/seedout-{pid.lower()}-{k}/ ; never touch /repo or any other directory). Python with all dependencies is /venv/bin/python; to make it import your worktree run it with PYTHONPATH={wt} (check with `PYTHONPATH={wt} /venv/bin/python -c "import xmlschema; print(xmlschema.__file__)"`). The existing test suite is run with: cd {wt} && PYTHONPATH={wt} /venv/bin/python -m pytest -q -p no:cacheprovider --timeout=900 -x -q   (about 1 minute; on the unchanged tree everything passes except 2 known failures in tests/test_locations.py: test_is_unc_path_function and test_normalize_url_slashes — ignore those two).

The library is supposed to satisfy this semantic property:

### {p['title']}
{p['statement']}
(Scope: {p['quantifier']['text']})

Your job: make ONE realistic change to the library's source (the kind of subtle bug a maintainer could plausibly introduce in a refactoring or an "optimisation": a changed comparison, a dropped or reordered branch, a wrong variable, a cache that is not invalidated, an off-by-one, a condition applied to the wrong operand...) that BREAKS this property while the library still imports and the existing test suite still passes exactly as before (same 2 known failures, nothing else). The change must need something specific to manifest — an unusual input, a particular combination of features, a multi-step sequence of operations, a specific interleaving, or two cooperating sites that each look fine alone — not something ordinary use would expose at once; and it must be a genuine violation of the property as stated above (not merely a behaviour change, and not a crash of something unrelated).

Deliverables, all under /tmp/seedout-{pid.lower()}-{k}/ :
1. patch.diff — `git -C {wt} diff` of your change (source files under xmlschema/ only; do not edit tests).
2. demo.py — a small self-contained program that uses only the public behaviour of the library, exits 0 and prints OK when the property holds for its input, and exits 1 printing what went wrong when it is violated. It must exit 1 with your change applied and exit 0 on the unchanged library (verify both: with PYTHONPATH={wt} after your change, and with PYTHONPATH=/repo which is the unchanged library).
3. meta.json — {{"property": "{pid}", "summary": one sentence describing the change, "needs": what specific input/sequence/condition is required for the violation to manifest, "files": [...], "test_suite": "the exact command you ran and its summary line with the change applied", "demo_unchanged": "exit code and output on /repo", "demo_changed": "exit code and output on the worktree"}}.

Rules: keep the change small (a few lines). Run the FULL test suite with your change before you finish and make sure it passes as described; if a test fails, choose a different change. Do not look for or read anything under /verif (it is unrelated to your task). Leave the worktree with your change applied when you finish. In your final message, summarise the change, why it violates the property, what it needs to manifest, and the results of the test suite and of the demo on both trees."""
if __name__=='__main__':
    print(prompt(sys.argv[1], sys.argv[2]))
