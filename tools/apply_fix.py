#!/usr/bin/env python3
"""tools/apply_fix.py <patch file under notes/fixes> "<commit message starting with fix:>" <finding id> [<finding id> ...]

Applies one proposed repair to /repo as its own unguarded `fix:` commit:
  git apply -> unedited test suite (must show exactly the 2 baseline failures) -> git commit ->
  the listed findings are flipped to status `fixed` (with the commit) in known_findings.json.
On any failure the working tree of /repo is restored and nothing is recorded.
"""
import json
import re
import subprocess
import sys
from pathlib import Path

V = Path('/verif')
patch, msg, ids = sys.argv[1], sys.argv[2], sys.argv[3:]
assert msg.startswith('fix:'), 'commit message must start with fix:'


def sh(cmd, **kw):
    return subprocess.run(cmd, shell=True, text=True, capture_output=True, **kw)


def restore():
    sh('git -C /repo checkout -- . && git -C /repo clean -fdq xmlschema')


assert sh('git -C /repo status --porcelain').stdout.strip() == '', '/repo is not clean'
r = sh(f'git -C /repo apply {V / "notes/fixes" / patch}')
if r.returncode != 0:
    # patches written against an older HEAD: retry with 3-way / fuzz
    r = sh(f'git -C /repo apply --3way {V / "notes/fixes" / patch}')
    if r.returncode != 0:
        r = sh(f'cd /repo && patch -p1 --no-backup-if-mismatch < {V / "notes/fixes" / patch}')
        if r.returncode != 0:
            print('APPLY FAILED', r.stdout[-500:], r.stderr[-500:])
            restore()
            sys.exit(1)
t = sh('cd /repo && /venv/bin/python -m pytest -q -p no:cacheprovider --timeout=900 2>&1 | tail -5')
summary = t.stdout.strip().splitlines()[-1] if t.stdout.strip() else ''
m = re.search(r'(\d+) failed, (\d+) passed', summary)
failed = sh("cd /repo && /venv/bin/python -m pytest -q -p no:cacheprovider --timeout=900 tests/test_locations.py 2>&1 | grep FAILED").stdout
ok = bool(m) and m.group(1) == '2' and int(m.group(2)) >= 1528 and 'test_is_unc_path_function' in failed \
    and 'test_normalize_url_slashes' in failed
print('suite:', summary)
if not ok:
    print('SUITE DIFFERS FROM BASELINE -> not committed')
    restore()
    sys.exit(1)
sh('git -C /repo add -A xmlschema')
c = sh(['git', '-C', '/repo', 'commit', '-q', '-m', msg], shell=False) if False else subprocess.run(
    ['git', '-C', '/repo', 'commit', '-q', '-m', msg], text=True, capture_output=True)
if c.returncode != 0:
    print('COMMIT FAILED', c.stdout, c.stderr)
    restore()
    sys.exit(1)
h = sh('git -C /repo log --format=%h -1').stdout.strip()
kf = json.loads((V / 'known_findings.json').read_text())
for e in kf['findings']:
    if e['id'] in ids:
        e['status'] = 'fixed'
        e['commit'] = h
        e['line'] = f"fixed: property={e['property']} {h} {e['what'][:200]}"
(V / 'known_findings.json').write_text(json.dumps(kf, indent=1, ensure_ascii=False))
print('committed', h, msg[:80], '->', ids)
