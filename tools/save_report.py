#!/usr/bin/env python3
"""tools/save_report.py <agentId> <name>: extracts the final message of a finished sub-agent into notes/reports/<name>.md"""
import json, sys
base = '/tmp/claude-0/-verif/19c8dea7-032c-4137-8883-fe9d487e72fe/tasks/'
aid, name = sys.argv[1], sys.argv[2]
last = None
for line in open(base + aid + '.output'):
    try:
        r = json.loads(line)
    except Exception:
        continue
    m = r.get('message') or {}
    if m.get('role') == 'assistant':
        c = m.get('content')
        t = ''.join(x.get('text', '') for x in c if x.get('type') == 'text') if isinstance(c, list) else str(c)
        if t.strip():
            last = t
open(f'/verif/notes/reports/{name}.md', 'w').write(last or '')
print(name, len(last or ''))
