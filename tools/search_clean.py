#!/usr/bin/env python3
"""tools/search_clean.py <PROP>: run the property's widened search() on the CLEAN tree; it must not report an
unmatched failing input (search() is normally only reached after a broken obligation/correspondence)."""
import importlib, sys, os
sys.path.insert(0, '/verif')
from harness import core
prop = sys.argv[1]
mod = importlib.import_module(f'harness.props.{prop.lower()}')
if not hasattr(mod, 'search'):
    print(prop, 'no search()'); sys.exit(0)
ctx = core.Ctx(prop, 'quick', int(os.environ.get('VERIF_SEED', '0')))
try:
    ctx.known = core.load_known(prop)
except Exception:
    pass
mod.search(ctx)
print(prop, 'search on clean tree: failures=%d mismatches=%d cases=%d' % (len(ctx.failures), len(getattr(ctx, 'mismatches', []) or []), ctx.evaluations))
for f in ctx.failures[:3]:
    print('  ', str(f)[:400])
