#!/usr/bin/env python3
"""tools/merge_findings.py <PROP> [...]: merge notes/findings/<PROP>.json (written by the property's agent) into
known_findings.json.  A status `fixed` already recorded in known_findings.json (with its commit) is kept; a status
`fixed` in the notes file needs a commit (fixed_by/commit) to be taken over.  Also mirrors fixed statuses back."""
import json, sys
from pathlib import Path
V = Path('/verif')
kf = json.loads((V / 'known_findings.json').read_text())
for prop in sys.argv[1:]:
    p = V / 'notes/findings' / f'{prop}.json'
    nf = json.loads(p.read_text())
    L = nf if isinstance(nf, list) else nf['findings']
    have = {e['id']: e for e in kf['findings']}
    for e in L:
        e2 = dict(e)
        if isinstance(e2.get('match'), dict):
            e2['match'] = e2['match'].get('rule') or json.dumps(e2['match'])
        commit = e2.get('commit') or e2.get('fixed_by')
        e2['commit'] = commit
        if e2.get('status') == 'fixed' and not commit:
            print('WARNING', e2['id'], 'fixed in notes without commit')
        if e2['id'] in have:
            old = have[e2['id']]
            if old.get('status') == 'fixed':
                e2['status'] = 'fixed'
                e2['commit'] = old.get('commit') or commit
            old.update({k: v for k, v in e2.items() if k in ('what', 'call_site', 'witness', 'match', 'status', 'commit', 'fix')})
            e2 = old
        else:
            e2.setdefault('property', prop)
            kf['findings'].append(e2)
        e2['line'] = (f"fixed: property={prop} {e2.get('commit')} {e2['what'][:200]}" if e2['status'] == 'fixed'
                      else f"KNOWN-FINDING: property={prop} {e2['id']} {e2['what'][:200]}")
        if e2['status'] == 'fixed' and e.get('status') != 'fixed':
            e['status'] = 'fixed'; e['commit'] = e2['commit']; e['fixed_by'] = e2['commit']
    p.write_text(json.dumps(nf, indent=1, ensure_ascii=False))
    print(prop, [(e['id'], e['status'], e.get('commit')) for e in kf['findings'] if e['property'] == prop])
(V / 'known_findings.json').write_text(json.dumps(kf, indent=1, ensure_ascii=False))
