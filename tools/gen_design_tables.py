#!/usr/bin/env python3
"""Regenerates the machine-written parts of DESIGN.md (between the AUTOGEN markers) from
tools/manifest_src.json, known_findings.json, evidence/*.json and seeded/*/meta.json."""
import json
import re
from pathlib import Path

V = Path(__file__).resolve().parent.parent
src = json.loads((V / 'tools/manifest_src.json').read_text())
props = {json.loads(l)['id']: json.loads(l) for l in (V / 'properties.jsonl').read_text().splitlines() if l.strip()}
kf = json.loads((V / 'known_findings.json').read_text())['findings']


def cell(s: str) -> str:
    return str(s).replace('|', '\\|').replace('\n', ' ')


def as_built() -> str:
    out = []
    for pid in sorted(props):
        p = props[pid]
        out.append(f'### {pid} — {p["title"]}\n')
        c = src['claimed'].get(pid)
        if not c:
            out.append('*Not claimed yet* — ' + src.get('unclaimed', {}).get(pid, 'model and harness not built.') + '\n')
            continue
        ev = V / 'evidence' / f'{pid}.json'
        out.append(f'*What is proved and tied.* {c["text"]}\n')
        out.append(f'*Trusted / assumed / not covered.* {c["note"]}\n')
        out.append(f'*Technique.* {c.get("technique", "")}\n')
        if ev.exists():
            e = json.loads(ev.read_text())
            cov = e['coverage']
            out.append(f'*Last committed evidence ({e["tier"]}, seed {e["seed"]}).* {cov.get("discharged")}/{cov.get("obligations")} '
                       f'proof obligations discharged; {cov.get("evaluations")} cases ({cov.get("distinct_nontrivial")} distinct '
                       f'non-trivial); {cov.get("traces_validated_against_impl")} model-vs-implementation comparisons; '
                       f'{e["wall_s"]} s.\n')
        files = sorted({str(x.relative_to(V)) for x in (V / 'lean/XsVerif').rglob(f'*{pid}*.lean')})
        out.append('*Files.* ' + ', '.join(f'`{f}`' for f in files) + f', `harness/props/{pid.lower()}.py`\n')
        fs = [f for f in kf if f['property'] == pid]
        if fs:
            out.append('*Findings.* ' + '; '.join(f'{f["id"]} ({f["status"]})' for f in fs) + ' — see §4.\n')
        seeds = sorted((V / 'seeded').glob(f'{pid}-*/meta.json'))
        if seeds:
            out.append('*Seeded changes.* ' + ', '.join(s.parent.name for s in seeds) + ' — see §7.\n')
    return '\n'.join(out)


def findings() -> str:
    out = ['| id | property | status | call site | what fails |', '|---|---|---|---|---|']
    for f in sorted(kf, key=lambda f: (f['property'], f['id'])):
        st = f['status'] + (' ' + f.get('commit', '') if f['status'] == 'fixed' else '')
        out.append(f'| {f["id"]} | {f["property"]} | {st} | {cell(f.get("call_site", ""))[:120]} | {cell(f["what"])[:400]} |')
    return '\n'.join(out)


def seeds() -> str:
    out = ['| seed | property | change | needs to manifest | caught by the check |', '|---|---|---|---|---|']
    for m in sorted((V / 'seeded').glob('*/meta.json')):
        d = json.loads(m.read_text())
        c = d.get('confirmed_by_integrator', {})
        out.append(f'| {m.parent.name} | {d.get("property")} | {cell(d.get("summary", ""))[:300]} | '
                   f'{cell(d.get("needs", ""))[:300]} | {"yes" if c.get("check_catches") else "NO"} — {cell(c.get("ran", ""))[:400]} |')
    return '\n'.join(out)


text = (V / 'DESIGN.md').read_text()
for name, gen in (('AS_BUILT', as_built), ('FINDINGS', findings), ('SEEDS', seeds)):
    pat = re.compile(rf'(<!-- AUTOGEN:{name} -->).*?(<!-- /AUTOGEN:{name} -->)', re.S)
    if not pat.search(text):
        print('marker missing:', name)
        continue
    text = pat.sub(lambda m: m.group(1) + '\n' + gen() + '\n' + m.group(2), text)
(V / 'DESIGN.md').write_text(text)
print('DESIGN.md tables regenerated')
