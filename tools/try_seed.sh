#!/bin/sh
# tools/try_seed.sh <prop lowercase> <k>: demo on both trees and the property's quick check on the seeded worktree
p=$1; k=$2; P=$(echo $p | tr a-z A-Z)
PYTHONPATH=/repo /venv/bin/python /tmp/seedout-$p-$k/demo.py >/dev/null 2>&1; echo "demo on repo: $?"
PYTHONPATH=/tmp/seed-$p-$k /venv/bin/python /tmp/seedout-$p-$k/demo.py >/dev/null 2>&1; echo "demo on wt: $?"
git -C /tmp/seed-$p-$k diff --stat | tail -1
cd /verif && XMLSCHEMA_REPO=/tmp/seed-$p-$k ./check $P --tier quick 2>&1 | grep -v "^KNOWN" | tail -2
ls -t /verif/replays/$P-* 2>/dev/null | head -1 | xargs -r python3 -c "
import json,sys
o=json.load(open(sys.argv[1])); print('REPLAY:', o.get('kind'), '|', o.get('what'), '|', json.dumps(o.get('input'))[:400], '|', json.dumps(o.get('detail'))[:300], o.get('broken'))"
