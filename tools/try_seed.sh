#!/bin/sh
# tools/try_seed.sh <prop lowercase> <k>: re-create the seeded worktree at the CURRENT /repo HEAD + patch.diff, run the demo on
# both trees and the property's quick check on the seeded worktree
p=$1; k=$2; P=$(echo $p | tr a-z A-Z)
wt=/tmp/seed-$p-$k; out=/tmp/seedout-$p-$k
if [ -f $out/patch.diff ]; then
  git -C /repo worktree remove --force $wt 2>/dev/null; git -C /repo worktree prune
  git -C /repo worktree add -q --detach $wt HEAD
  git -C $wt apply $out/patch.diff || git -C $wt apply --3way $out/patch.diff || echo "PATCH DOES NOT APPLY AT HEAD"
fi
PYTHONPATH=/repo /venv/bin/python $out/demo.py >/dev/null 2>&1; echo "demo on repo: $?"
PYTHONPATH=$wt /venv/bin/python $out/demo.py >/dev/null 2>&1; echo "demo on wt: $?"
git -C $wt diff --stat | tail -1
before=$(ls -t /verif/replays/$P-* 2>/dev/null | head -1)
cd /verif && XMLSCHEMA_REPO=$wt ./check $P --tier quick > /tmp/try-$p-$k.out 2>&1; echo "check exit: $?"
grep -v "^KNOWN" /tmp/try-$p-$k.out | tail -3 | cut -c1-400
after=$(ls -t /verif/replays/$P-* 2>/dev/null | head -1)
if [ "$after" != "$before" ] && [ -n "$after" ]; then python3 -c "
import json,sys
o=json.load(open(sys.argv[1])); print('REPLAY:', o.get('kind'), '|', o.get('what'), '|', json.dumps(o.get('input'))[:400], '|', json.dumps(o.get('detail'))[:300], o.get('broken'))" $after; else echo "NO NEW REPLAY"; fi
git -C /verif checkout -q evidence/$P.json 2>/dev/null   # only this property: fresh evidence of other checks stays
