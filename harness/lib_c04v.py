"""
Schema family V of the C04 check: VALUE CONSTRAINTS WITH A DOCUMENT-LEVEL EFFECT.

The families T and N of lib_c04gen declare default / fixed values only for types whose decoding
can neither fail nor touch document-level state (xs:language default, xs:string fixed), so a
descent that treats the value constraint of an OMITTED attribute differently for validation and
for decoding gives the same verdict on every document of those families.  Family V adds that
dimension: attributes and simple contents that the instance omits, constrained by `default` or
`fixed`, of the types whose post-decoding step has an effect outside the value itself

    xs:IDREF / xs:IDREFS   registered in context.id_map, checked by _validate_references
    xs:ID (XSD 1.1 only)   duplicate detection
    xs:QName               the prefix must be bound in the INSTANCE document

on the root element, on children, on nested children, on a type selected by xsi:type, in a
simple-content extension, x explicit / omitted x use_defaults on / off.

Also: introspection of the built schema + the parsed document into the request of the Lean model
Model/AttrDefaults.lean (driver op `attrs`) and the mapping of real validation errors to the
model's event alphabet.

Everything is derived from the `random.Random` instance passed in.
"""
from __future__ import annotations

import re
from typing import Any, Optional

from harness.lib_c04gen import Node, T, serialize, TNS, XSI

XSD_V = '''<xs:schema xmlns:xs="http://www.w3.org/2001/XMLSchema" targetNamespace="urn:t" xmlns:t="urn:t"
    elementFormDefault="qualified">
 <xs:complexType name="defT">
   <xs:attribute name="id" type="xs:ID" use="required"/>
   <xs:attribute name="note" type="xs:string" default="n/a"/>
 </xs:complexType>
 <xs:complexType name="r1T">
   <xs:attribute name="id" type="xs:ID"/>
   <xs:attribute name="ref" type="xs:IDREF" default="a1"/>
 </xs:complexType>
 <xs:complexType name="r1x"><xs:complexContent><xs:extension base="t:r1T">
   <xs:attribute name="also" type="xs:IDREF" default="a2"/>
 </xs:extension></xs:complexContent></xs:complexType>
 <xs:group name="items"><xs:choice>
   <xs:element name="def" type="t:defT"/>
   <xs:element name="r1" type="t:r1T"/>
   <xs:element name="r2"><xs:complexType>
     <xs:attribute name="refs" type="xs:IDREFS" default="a4 a5"/>
     <xs:attribute name="w" type="xs:string" fixed="W"/>
   </xs:complexType></xs:element>
   <xs:element name="r3"><xs:complexType>
     <xs:attribute name="ref" type="xs:IDREF" fixed="a3"/>
   </xs:complexType></xs:element>
   <xs:element name="r4"><xs:complexType>
     <xs:attribute name="ref" type="xs:IDREF" fixed="f1"/>
     <xs:attribute name="refs" type="xs:IDREFS" fixed="f2 f3"/>
   </xs:complexType></xs:element>
   <xs:element name="rq"><xs:complexType>
     <xs:attribute name="q" type="xs:QName" default="t:nm"/>
   </xs:complexType></xs:element>
   <xs:element name="rr"><xs:complexType>
     <xs:attribute name="ref" type="xs:IDREF" use="required"/>
     <xs:attribute name="more" type="xs:IDREFS"/>
   </xs:complexType></xs:element>
   <xs:element name="er" type="xs:IDREF" default="a6"/>
   <xs:element name="ef" type="xs:IDREF" fixed="a7"/>
   <xs:element name="eq" type="xs:QName" default="t:nm"/>
   <xs:element name="sc" default="a8"><xs:complexType><xs:simpleContent><xs:extension base="xs:IDREF">
     <xs:attribute name="ref" type="xs:IDREF" default="a9"/>
   </xs:extension></xs:simpleContent></xs:complexType></xs:element>
   <xs:element name="grp"><xs:complexType>
     <xs:group ref="t:items" minOccurs="0" maxOccurs="unbounded"/>
     <xs:attribute name="owner" type="xs:IDREF" default="g1"/>
   </xs:complexType></xs:element>
   %(V11)s
 </xs:choice></xs:group>
 <xs:element name="reg"><xs:complexType>
   <xs:group ref="t:items" minOccurs="0" maxOccurs="unbounded"/>
   <xs:attribute name="main" type="xs:IDREF"/>
 </xs:complexType></xs:element>
 <xs:element name="regd"><xs:complexType>
   <xs:group ref="t:items" minOccurs="0" maxOccurs="unbounded"/>
   <xs:attribute name="main" type="xs:IDREF" default="a0"/>
 </xs:complexType></xs:element>
</xs:schema>'''

# XSD 1.0 forbids a value constraint on xs:ID (attributes.py:198-209); XSD 1.1 allows it
V11_ONLY = '''<xs:element name="di"><xs:complexType>
     <xs:attribute name="id" type="xs:ID" default="d1"/>
   </xs:complexType></xs:element>'''


def xsd_text(v11: bool) -> str:
    return XSD_V % {'V11': V11_ONLY if v11 else ''}


# carrier element -> [(attribute or None for the text, kind, 'default'|'fixed', constrained value)]
CONSTRAINTS = {
    'r1': [('ref', 'idref', 'default', 'a1')],
    'r1+type': [('ref', 'idref', 'default', 'a1'), ('also', 'idref', 'default', 'a2')],
    'r2': [('refs', 'idrefs', 'default', 'a4 a5'), ('w', 'plain', 'fixed', 'W')],
    'r3': [('ref', 'idref', 'fixed', 'a3')],
    'r4': [('ref', 'idref', 'fixed', 'f1'), ('refs', 'idrefs', 'fixed', 'f2 f3')],
    'rq': [('q', 'qname', 'default', 't:nm')],
    'er': [(None, 'idref', 'default', 'a6')],
    'ef': [(None, 'idref', 'fixed', 'a7')],
    'eq': [(None, 'qname', 'default', 't:nm')],
    'sc': [(None, 'idref', 'default', 'a8'), ('ref', 'idref', 'default', 'a9')],
    'grp': [('owner', 'idref', 'default', 'g1')],
    'di': [('id', 'id', 'default', 'd1')],
    'regd': [('main', 'idref', 'default', 'a0')],
}
FREE_IDS = ['b1', 'b2', 'b3', 'k9', 'x-1', 'n_2']


class Plan:
    """Bookkeeping while a valid document is generated."""

    def __init__(self, rng, v11: bool):
        self.rng = rng
        self.v11 = v11
        self.needed: list[str] = []       # IDs that some reference (explicit or by constraint) needs
        self.defined: list[str] = []      # IDs defined so far
        self.needs_t = False              # a QName constraint is in effect: the prefix t must be bound
        self.prefix_dependent = False
        self.omitted: list[str] = []      # histogram keys
        self.explicit: list[str] = []

    def need(self, value: str) -> None:
        for tok in value.split():
            if tok not in self.needed:
                self.needed.append(tok)

    def fresh_id(self) -> Optional[str]:
        cands = [i for i in FREE_IDS if i not in self.defined]
        if not cands:
            return None
        i = self.rng.choice(cands)
        self.defined.append(i)
        return i

    def some_ref(self) -> str:
        pool = self.defined + self.needed + ['a1', 'a3', 'f1', 'b1']
        v = self.rng.choice(pool)
        self.need(v)
        return v


def _constrained(plan: Plan, node: Node, carrier: str, p_omit: float, where: str) -> None:
    """Decide for every constrained attribute / text of `node` whether the instance writes it."""
    rng = plan.rng
    for attr, kind, how, value in CONSTRAINTS[carrier]:
        tag = '%s:%s:%s@%s' % ('attr' if attr else 'text', kind, how, where + ('+xsi:type' if carrier == 'r1+type' else ''))
        if rng.random() < p_omit:
            plan.omitted.append(tag)
            if kind in ('idref', 'idrefs'):
                plan.need(value)
            elif kind == 'qname':
                plan.needs_t = True
                plan.prefix_dependent = True
            elif kind == 'id':
                # a defaulted xs:ID defines the ID (at most once per valid document)
                if value in plan.defined:
                    new = plan.fresh_id()
                    if new is None:
                        continue
                    node.attrs[('', attr)] = new
                    plan.explicit.append(tag)
                    plan.omitted.pop()
                else:
                    plan.defined.append(value)
            continue
        plan.explicit.append(tag)
        if how == 'fixed':
            written = value
            if kind in ('idref', 'idrefs'):
                plan.need(value)
        elif kind == 'idref':
            written = plan.some_ref()
        elif kind == 'idrefs':
            written = ' '.join(plan.some_ref() for _ in range(rng.randint(1, 3)))
        elif kind == 'qname':
            written = rng.choice(['p:other', 'local'])
            plan.prefix_dependent = True
        elif kind == 'id':
            written = plan.fresh_id()
            if written is None:
                continue
        else:
            written = value
        if attr is None:
            node.text = written
        else:
            node.attrs[('', attr)] = written


def _item(plan: Plan, depth: int, p_omit: float) -> Node:
    rng = plan.rng
    kinds = ['r1', 'r1', 'r2', 'r3', 'r4', 'r4', 'rq', 'rq', 'rr', 'er', 'ef', 'ef', 'eq', 'sc', 'r1+type', 'def']
    if depth < 2:
        kinds += ['grp', 'grp', 'grp']
    if plan.v11:
        kinds += ['di', 'di']
    kind = rng.choice(kinds)
    if kind == 'def':
        i = plan.fresh_id()
        if i is None:
            kind = 'r1'
        else:
            n = T('def', attrs={'id': i})
            if rng.random() < 0.3:
                n.attrs[('', 'note')] = rng.choice(['x', 'n/a', 'some note'])
            return n
    if kind == 'rr':
        n = T('rr', attrs={'ref': plan.some_ref()})
        if rng.random() < 0.4:
            n.attrs[('', 'more')] = ' '.join(plan.some_ref() for _ in range(rng.randint(1, 3)))
        return n
    name = 'r1' if kind == 'r1+type' else kind
    n = T(name)
    if kind == 'r1+type':
        n.attrs[(XSI, 'type')] = 'p:r1x'
        plan.prefix_dependent = True
    if name == 'r1' and rng.random() < 0.3:
        i = plan.fresh_id()
        if i is not None:
            n.attrs[('', 'id')] = i
    _constrained(plan, n, kind, p_omit, 'child' if depth == 0 else 'nested')
    if kind == 'grp':
        for _ in range(rng.choice([1, 1, 2, 3])):
            n.children.append(_item(plan, depth + 1, p_omit))
    return n


def gen_valid_V(rng, v11: bool) -> tuple[Node, dict]:
    plan = Plan(rng, v11)
    p_omit = rng.choice([0.3, 0.6, 0.6, 0.9])
    rootname = rng.choice(['reg', 'reg', 'regd'])
    root = T(rootname)
    if rootname == 'regd':
        _constrained(plan, root, 'regd', p_omit, 'root')
    elif rng.random() < 0.3:
        root.attrs[('', 'main')] = plan.some_ref()
    for _ in range(rng.choice([1, 1, 2, 3, 4, 6])):
        root.children.append(_item(plan, 0, p_omit))
    # define what is referenced: the document is valid
    for i in plan.needed:
        if i not in plan.defined:
            plan.defined.append(i)
            hosts = [root] + [n for n in root.iter() if n.name == 'grp']
            host = rng.choice(hosts)
            host.children.insert(rng.randint(0, len(host.children)), T('def', attrs={'id': i}))
    info = {'prefix_dependent': plan.prefix_dependent, 'needs_t': plan.needs_t, 'bind_t': TNS if plan.needs_t else None,
            'omitted': plan.omitted, 'explicit': plan.explicit, 'v11': v11}
    if not plan.needs_t and rng.random() < 0.15:
        info['bind_t'] = rng.choice([TNS, 'urn:other'])
    elif plan.needs_t and rng.random() < 0.1:
        info['bind_t'] = 'urn:other'            # still bound: no error (the value resolves to another namespace)
    return root, info


# ------------------------------------------------------------------------------------------------
# fault classes of family V

def _omitted_constraint_targets(root: Node) -> dict[str, list[str]]:
    """IDs that are referenced through a value constraint of an omitted attribute / empty text, by 'fixed'/'default'."""
    out: dict[str, list[str]] = {'fixed': [], 'default': []}
    for n in root.iter():
        carrier = n.name
        if carrier == 'r1' and (XSI, 'type') in n.attrs:
            carrier = 'r1+type'
        for attr, kind, how, value in CONSTRAINTS.get(carrier, []):
            if kind not in ('idref', 'idrefs'):
                continue
            if (attr is None and not n.text) or (attr is not None and ('', attr) not in n.attrs):
                out[how].extend(value.split())
    return out


def vf_constraint_dangling(rng, root, info):
    by_how = {h: sorted(set(v)) for h, v in _omitted_constraint_targets(root).items() if v}
    if not by_how:
        return None
    how = rng.choice(sorted(by_how))
    t = rng.choice(by_how[how])
    removed = 0
    for n in list(root.iter()):
        for c in list(n.children):
            if c.name == 'def' and c.attrs.get(('', 'id')) == t:
                n.children.remove(c)
                removed += 1
    if not removed:
        return None
    return 'ID value constraint of an omitted IDREF dangling (%s %s)' % (how, t)


def vf_explicit_dangling(rng, root, info):
    cands = [(n, k) for n in root.iter() for k in n.attrs if k in (('', 'ref'), ('', 'main'), ('', 'owner'), ('', 'also'))]
    if not cands:
        return None
    n, k = rng.choice(cands)
    n.attrs[k] = 'nowhere'
    return 'ID explicit IDREF dangling'


def vf_unbound_prefix(rng, root, info):
    if not info.get('needs_t'):
        return None
    info['bind_t'] = None
    return 'QN prefix of a defaulted QName unbound in the instance'


def vf_dup_id(rng, root, info):
    defs = [n for n in root.iter() if n.name == 'def' and ('', 'id') in n.attrs]
    if not defs:
        return None
    src = rng.choice(defs)
    root.children.insert(rng.randint(0, len(root.children)), T('def', attrs={'id': src.attrs[('', 'id')]}))
    return 'ID duplicate ID'


def vf_dup_default_id(rng, root, info):
    if not info['v11']:
        return None
    # two omitted defaulted IDs, or the default value also written explicitly
    if rng.random() < 0.5:
        root.children.append(T('di'))
        root.children.append(T('di'))
    else:
        root.children.append(T('di'))
        root.children.insert(0, T('def', attrs={'id': 'd1'}))
    return 'ID defaulted xs:ID duplicated'


def vf_wrong_fixed(rng, root, info):
    cands = [n for n in root.iter() if n.name in ('r3', 'r4', 'ef', 'r2')]
    if not cands:
        return None
    n = rng.choice(cands)
    if n.name in ('r3', 'r4'):
        n.attrs[('', 'ref')] = 'zz'
    elif n.name == 'ef':
        n.text = 'zz'
    else:
        n.attrs[('', 'w')] = 'V'
    return 'C03 value differs from the fixed value (%s)' % n.name


def vf_missing_required(rng, root, info):
    cands = [n for n in root.iter() if n.name in ('rr', 'def')]
    if not cands:
        return None
    n = rng.choice(cands)
    n.attrs.pop(('', 'ref') if n.name == 'rr' else ('', 'id'), None)
    return 'C03 missing required attribute on ' + n.name


def vf_unknown_attr(rng, root, info):
    n = rng.choice(list(root.iter()))
    n.attrs[('', 'zz')] = '1'
    return 'C03 unknown attribute on ' + n.name


V_FAULTS = [vf_constraint_dangling, vf_constraint_dangling, vf_constraint_dangling, vf_explicit_dangling,
            vf_unbound_prefix, vf_unbound_prefix, vf_dup_id, vf_dup_default_id, vf_wrong_fixed, vf_missing_required,
            vf_unknown_attr]
V_FAULT_NAMES = sorted({f.__name__[3:] for f in V_FAULTS})


def serialize_V(root: Node, bind_t: Optional[str]) -> str:
    xml = serialize(root, 'prefix')
    if bind_t:
        # all namespace declarations stay on the root element
        xml = xml.replace(' xmlns:p="%s"' % TNS, ' xmlns:p="%s" xmlns:t="%s"' % (TNS, bind_t), 1)
    return xml


def gen_case_V(rng, v11: bool, nfaults: Optional[int] = None, only=None) -> dict:
    root, info = gen_valid_V(rng, v11)
    if nfaults is None:
        nfaults = rng.choice([0, 0, 0, 0, 0, 1, 1, 2, 3])
    isolating = None
    if only is None and rng.random() < 0.4:
        # the faults that isolate the dimension: an otherwise valid document in which the target of ONE value
        # constraint of an omitted attribute / text is not defined, the prefix of a defaulted QName is unbound, or
        # a defaulted xs:ID is defined twice
        isolating = [vf_constraint_dangling] * 3 + [vf_unbound_prefix] * 2 + ([vf_dup_default_id] if v11 else [])
        rng.shuffle(isolating)
    faults = []
    if only is not None:
        d = only(rng, root, info)
        if d:
            faults.append(d)
    elif isolating is not None:
        for f in isolating:
            d = f(rng, root, info)
            if d:
                faults.append(d)
                break
    else:
        tries = 0
        while len(faults) < nfaults and tries < 10:
            tries += 1
            d = rng.choice(V_FAULTS)(rng, root, info)
            if d:
                faults.append(d)
    return {'family': 'V', 'style': 'prefix', 'v': '1.1' if v11 else '1.0', 'xml': serialize_V(root, info['bind_t']),
            'faults': faults, 'prefix_dependent': bool(info['prefix_dependent']),
            'omitted': info['omitted'], 'explicit': info['explicit']}


# ------------------------------------------------------------------------------------------------
# introspection: built schema + parsed document -> request of the Lean model

XSD_NS = 'http://www.w3.org/2001/XMLSchema'
NCNAME = r'[A-Za-z_][\w.\-]*'
QNAME_RE = re.compile(r'^%s(:%s)?$' % (NCNAME, NCNAME))


class Unsupported(Exception):
    pass


def kind_of(t: Any) -> str:
    """Post-decoding behaviour of a simple type (simple_types.py:696, 742-783, 990-996)."""
    from xmlschema.validators import XsdAtomicBuiltin, XsdList, XsdUnion, XsdAtomicRestriction, XsdSimpleType
    post = {'{%s}ID' % XSD_NS: 'id', '{%s}IDREF' % XSD_NS: 'idref', '{%s}QName' % XSD_NS: 'qname',
            '{%s}NOTATION' % XSD_NS: 'notation'}
    if isinstance(t, XsdAtomicBuiltin):
        k = post.get(t.name, 'plain')
        if k == 'notation':
            raise Unsupported('xs:NOTATION')
        return k
    if isinstance(t, XsdList):
        ik = kind_of(t.item_type)
        if ik == 'plain':
            return 'plain'
        if ik == 'idref' and isinstance(t.item_type, XsdAtomicBuiltin):
            return 'idrefs'
        raise Unsupported('list of ' + ik)
    if isinstance(t, XsdUnion):
        if all(kind_of(m) == 'plain' for m in t.member_types):
            return 'plain'
        raise Unsupported('union with a post-decoded member')
    if isinstance(t, XsdAtomicRestriction):
        # XsdAtomicRestriction.raw_decode delegates to the base type (simple_types.py:1466-1477)
        base = t.base_type
        if not isinstance(base, XsdSimpleType):
            base = getattr(base, 'content', None)
            if not isinstance(base, XsdSimpleType):
                raise Unsupported('restriction of a complex type without simple content')
        return kind_of(base)
    if type(t).__name__ == 'XsdSimpleType' and t.name in ('{%s}anySimpleType' % XSD_NS, '{%s}anyAtomicType' % XSD_NS):
        return 'plain'
    raise Unsupported('%s %s' % (type(t).__name__, getattr(t, 'name', None)))


def is_stringish(t: Any) -> bool:
    try:
        return t.primitive_type.name in ('{%s}string' % XSD_NS, '{%s}anyURI' % XSD_NS) or \
            t.root_type.name == '{%s}string' % XSD_NS
    except Exception:
        return False


def normalised(s: str) -> bool:
    return s == ' '.join(s.split())


def decl_json(name: str, a: Any) -> dict:
    kind = kind_of(a.type)
    if kind == 'qname' and a.fixed is not None:
        raise Unsupported('fixed QName attribute')        # the fixed comparison decodes with the context
    if kind == 'plain' and a.fixed is not None and not is_stringish(a.type):
        raise Unsupported('fixed value of a non-string type')
    for v in (a.fixed, a.default):
        if v is not None and not normalised(v):
            raise Unsupported('value constraint is not whitespace-normalised')
    return {'name': name, 'use': a.use, 'fixed': a.fixed, 'dflt': a.default, 'kind': kind}


def group_json(group: Any) -> list[dict]:
    out = []
    for k, a in group._attribute_group.items():
        if k is None:
            raise Unsupported('attribute wildcard')
        out.append(decl_json(k, a))
    return out


def check_value(kind: str, value: str) -> None:
    if not normalised(value):
        raise Unsupported('value is not whitespace-normalised')
    if kind == 'qname' and not QNAME_RE.match(value):
        raise Unsupported('lexically invalid QName')


def model_request(schema: Any, xml: str, use_defaults: bool) -> dict:
    """Serialise WHAT WAS BUILT (attribute groups of the schema as built, the document as parsed) for op `attrs`."""
    import lxml.etree as LE
    from xmlschema.validators import XsdSimpleType
    root = LE.fromstring(xml.encode('utf-8'))
    rootmap = dict(root.nsmap)
    decl = schema.maps.elements.get(root.tag)
    if decl is None:
        raise Unsupported('root element not declared')
    xsi = []
    for name, a in schema.maps.attributes.items():
        if name.startswith('{%s}' % XSI):
            xsi.append(decl_json(name, a))
    doc: list[dict] = []

    def walk(elem: Any, decl: Any) -> None:
        if not isinstance(elem.tag, str):
            raise Unsupported('comment / PI')
        if dict(elem.nsmap) != rootmap:
            raise Unsupported('namespace declaration below the root')
        xsd_type = decl.type
        tname = elem.get('{%s}type' % XSI)
        if tname is not None:
            pfx, _, local = tname.rpartition(':')
            ns = rootmap.get(pfx or None)
            xsd_type = schema.maps.types.get('{%s}%s' % (ns, local) if ns else local)
            if xsd_type is None or not xsd_type.is_derived(decl.type):
                raise Unsupported('xsi:type not usable')
        if elem.get('{%s}nil' % XSI) is not None:
            raise Unsupported('xsi:nil')
        group = decl.get_attributes(xsd_type)
        decls = group_json(group)
        kinds = {d['name']: d['kind'] for d in decls + xsi}
        attrs = []
        for k, v in elem.attrib.items():
            check_value(kinds.get(k, 'plain'), v)
            attrs.append([k, v])
        text = None
        simple = xsd_type if isinstance(xsd_type, XsdSimpleType) else \
            (xsd_type.content if xsd_type.has_simple_content() else None)
        if simple is not None:
            kind = kind_of(simple)
            if kind == 'id':
                raise Unsupported('ID-typed simple content')
            if kind == 'qname' and decl.fixed is not None:
                raise Unsupported('fixed QName content')
            if kind == 'plain' and decl.fixed is not None and not is_stringish(simple):
                raise Unsupported('fixed content of a non-string type')
            t = elem.text or ''
            check_value(kind if t else 'plain', t)
            if len(elem):
                raise Unsupported('children in simple content')
            text = {'fixed': decl.fixed, 'dflt': decl.default, 'kind': kind, 'text': t}
        elif xsd_type.is_complex() and (decl.fixed is not None or decl.default is not None):
            raise Unsupported('value constraint on mixed content')
        doc.append({'decls': decls, 'attrs': attrs, 'text': text})
        if simple is None:
            content = xsd_type.content
            children = {e.name: e for e in content.iter_elements()} if hasattr(content, 'iter_elements') else {}
            for child in elem:
                cd = children.get(child.tag)
                if cd is None or not hasattr(cd, 'type'):
                    raise Unsupported('child element not declared in the content model')
                walk(child, cd)

    walk(root, decl)
    return {'op': 'attrs', 'v11': schema.XSD_VERSION == '1.1', 'ud': bool(use_defaults),
            'ns': sorted(k for k in rootmap if k), 'xsi': xsi, 'doc': doc}


EVENT_RES = [
    ('missing', re.compile(r"missing required attribute '([^']*)'")),
    ('notAllowed', re.compile(r"'([^']*)' attribute not allowed for element")),
    ('notXsi', re.compile(r"'([^']*)' is not an attribute of the XSI namespace")),
    ('prohibited', re.compile(r"use of attribute '([^']*)' is prohibited")),
    ('fixed', re.compile(r"attribute '([^']*)' has a fixed value")),
    ('unmapped', re.compile(r"unmapped prefix '([^']*)' in a QName")),
    ('dupId', re.compile(r"duplicated xs:ID value '([^']*)'")),
    ('dangling', re.compile(r"IDREF '([^']*)' not found in XML document")),
]


def event_of(reason: Optional[str]) -> Optional[list]:
    """A real validation error in the alphabet of the model (None: another error class)."""
    if not reason:
        return None
    for tag, rx in EVENT_RES:
        m = rx.search(reason)
        if m:
            return [tag, m.group(1)]
    if 'must have the fixed value' in reason:
        return ['fixed', '']
    if 'no more than one attribute of type ID' in reason:
        return ['multiId', '']
    return None
