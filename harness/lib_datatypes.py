"""
Shared helpers for the datatype checks (C02): introspection of built simple types into the JSON
form read by the Lean driver `drv_c02`, canonical form of decoded Python values, the tracing of
`pattern` evaluations (patterns have no Lean semantics: the model consumes the implementation's
own verdicts as an oracle), and an independent Python reading of XSD Part 2 used to evaluate the
property on the real code.
"""
from __future__ import annotations

import re
from decimal import Decimal
from fractions import Fraction
from typing import Any, Optional

XSD = '{http://www.w3.org/2001/XMLSchema}'

# characters Python treats as white space (`\s`, str.strip(), str.split()) that XSD does not
PY_ONLY_WS = ''.join(map(chr, [0x0b, 0x0c, 0x1c, 0x1d, 0x1e, 0x1f, 0x85, 0xa0, 0x1680, *range(0x2000, 0x200b),
                               0x2028, 0x2029, 0x202f, 0x205f, 0x3000]))
XML_WS = ' \t\n\r'


def has_py_ws(text: str) -> bool:
    return any(c in PY_ONLY_WS for c in text)


class Unsupported(Exception):
    pass


# ------------------------------------------------------------------------------------------------
# values
# ------------------------------------------------------------------------------------------------

def aval_json(v: Any, lit: Optional[str] = None) -> Any:
    from elementpath.datatypes import AbstractDateTime, Duration, HexBinary, Base64Binary
    if isinstance(v, bool):
        return {'b': v}
    if isinstance(v, int):
        return {'i': str(v)}
    if isinstance(v, Decimal):
        sign, digits, exp = v.as_tuple()
        if not isinstance(exp, int) or exp > 0:
            raise Unsupported('decimal %r' % v)
        return {'d': [bool(sign), str(int(''.join(map(str, digits)) or '0')), -exp]}
    if isinstance(v, float):
        return {'f': lit if lit is not None else repr(v)}
    if isinstance(v, str):
        return {'s': v}
    if isinstance(v, AbstractDateTime):
        dt = v._dt
        tz = None
        if dt.tzinfo is not None:
            off = dt.tzinfo.utcoffset(None)
            tz = off.days * 1440 + off.seconds // 60
        return {'dt': [v.name if v.name != 'dateTimeStamp' else 'dateTime', str(v._year), dt.month, dt.day,
                       dt.hour, dt.minute, dt.second, dt.microsecond, tz]}
    if isinstance(v, Duration):
        return {'dur': [str(v.months), str(int(v.seconds * 1000000))]}
    if isinstance(v, HexBinary):
        return {'x': v.value.decode()}
    if isinstance(v, Base64Binary):
        return {'y': v.value.decode()}
    raise Unsupported('value %r' % (v,))


def val_json(v: Any, lit: Optional[str] = None) -> Any:
    if v is None:
        return None
    if isinstance(v, list):
        return {'l': [None if x is None else aval_json(x) for x in v]}
    return aval_json(v, lit)


# ------------------------------------------------------------------------------------------------
# pattern oracle
# ------------------------------------------------------------------------------------------------

class Oracle:
    """ids for pattern groups and a trace of the implementation's own pattern verdicts"""

    def __init__(self) -> None:
        self.ids: dict[int, int] = {}
        self.keep: list[Any] = []
        self.trace: list[list] = []
        self.installed = False

    def pid(self, patterns: Any) -> int:
        k = id(patterns)
        if k not in self.ids:
            self.ids[k] = len(self.ids) + 1      # 0 is reserved for float()
            self.keep.append(patterns)
        return self.ids[k]

    def install(self) -> None:
        if self.installed:
            return
        from xmlschema.validators.facets import XsdPatternFacets
        from xmlschema.validators.exceptions import XMLSchemaValidationError
        orig = XsdPatternFacets.__call__
        oracle = self

        def traced(self_, value):       # noqa
            try:
                orig(self_, value)
            except XMLSchemaValidationError:
                if isinstance(value, str):
                    oracle.trace.append([oracle.pid(self_), value, False])
                raise
            else:
                if isinstance(value, str):
                    oracle.trace.append([oracle.pid(self_), value, True])
        XsdPatternFacets.__call__ = traced
        self._orig = orig
        self.installed = True

    def uninstall(self) -> None:
        if self.installed:
            from xmlschema.validators.facets import XsdPatternFacets
            XsdPatternFacets.__call__ = self._orig
            self.installed = False

    def wrap_float(self, xsd_type: Any) -> None:
        """record float() acceptance of the float/double built-ins (value space not modelled)"""
        if getattr(xsd_type.to_python, '_c02_wrapped', False):
            return
        inner = xsd_type.to_python
        oracle = self

        def to_python(value):
            try:
                r = inner(value)
            except (ValueError, TypeError):
                if isinstance(value, str):
                    oracle.trace.append([0, value, False])
                raise
            if isinstance(value, str):
                oracle.trace.append([0, value, True])
            return r
        to_python._c02_wrapped = True
        to_python._c02_inner = inner
        xsd_type.to_python = to_python

    def take(self) -> list:
        t, self.trace = self.trace, []
        # de-duplicate, keep first verdict
        seen = set()
        out = []
        for e in t:
            k = (e[0], e[1])
            if k not in seen:
                seen.add(k)
                out.append(e)
        return out


# ------------------------------------------------------------------------------------------------
# introspection of built types
# ------------------------------------------------------------------------------------------------

FN_NAMES = {'byte_validator', 'short_validator', 'int_validator', 'long_validator',
            'unsigned_byte_validator', 'unsigned_short_validator', 'unsigned_int_validator',
            'unsigned_long_validator', 'negative_int_validator', 'positive_int_validator',
            'non_positive_int_validator', 'non_negative_int_validator', 'decimal_validator',
            'hex_binary_validator', 'base64_binary_validator', 'error_type_validator'}


def prim_of(xsd_type: Any) -> tuple[str, bool]:
    """which converter a built-in uses (identity of `to_python`)"""
    from xmlschema.validators import helpers
    from elementpath import datatypes
    f = getattr(xsd_type.to_python, '_c02_inner', xsd_type.to_python)
    if f is getattr(helpers, 'integer_to_python', None) or f is int:
        return 'integer', True
    if f is getattr(helpers, 'decimal_to_python', None) or f is datatypes.DecimalProxy:
        return 'decimal', True
    if f is getattr(helpers, 'boolean_to_python', None):
        return 'boolean', True
    if f is str:
        if xsd_type.name in (XSD + 'QName', XSD + 'NOTATION'):
            raise Unsupported('QName/NOTATION (namespace context)')
        return 'string', True
    if f is float:
        return 'float', True
    if f is datatypes.HexBinary:
        return 'hexBinary', True
    if f is datatypes.Base64Binary:
        return 'base64Binary', True
    if f is type(None):
        return 'error', True
    owner = getattr(f, '__self__', None)
    if owner is not None and getattr(f, '__name__', '') == 'fromstring':
        name = owner.name
        v11 = getattr(owner, '_xsd_version', '1.1') != '1.0'
        if name in ('duration', 'dayTimeDuration', 'yearMonthDuration'):
            return name, v11
        if name == 'dateTimeStamp':
            name = 'dateTime'
        if name in ('dateTime', 'date', 'time', 'gYear', 'gYearMonth', 'gMonth', 'gMonthDay', 'gDay'):
            return 'dt:' + name, v11
    raise Unsupported('converter %r' % (f,))


def facet_json(f: Any) -> dict:
    from xmlschema.validators import facets as F
    if isinstance(f, (F.XsdLengthFacet, F.XsdMinLengthFacet, F.XsdMaxLengthFacet)):
        if getattr(f.validate, '__func__', None) is F.XsdFacet.skip_validation:
            return {'f': 'skip'}
        return {'f': {F.XsdLengthFacet: 'length', F.XsdMinLengthFacet: 'minLength',
                      F.XsdMaxLengthFacet: 'maxLength'}[type(f)], 'n': f.value}
    for cls, name in ((F.XsdMinInclusiveFacet, 'minInclusive'), (F.XsdMinExclusiveFacet, 'minExclusive'),
                      (F.XsdMaxInclusiveFacet, 'maxInclusive'), (F.XsdMaxExclusiveFacet, 'maxExclusive')):
        if type(f) is cls:
            if f.value is None or isinstance(f.value, float):
                raise Unsupported('bound %r' % (f.value,))
            return {'f': name, 'v': aval_json(f.value)}
    if isinstance(f, F.XsdTotalDigitsFacet):
        return {'f': 'totalDigits', 'n': f.value}
    if isinstance(f, F.XsdFractionDigitsFacet):
        return {'f': 'fractionDigits', 'n': f.value}
    if isinstance(f, F.XsdExplicitTimezoneFacet):
        return {'f': 'explicitTimezone', 'r': f.value}
    if isinstance(f, F.XsdEnumerationFacets):
        vs = []
        for v in f.enumeration:
            if isinstance(v, float) or (isinstance(v, list) and any(isinstance(x, float) for x in v)):
                raise Unsupported('float enumeration')
            vs.append(val_json(v))
        return {'f': 'enumeration', 'vs': vs}
    raise Unsupported('facet %r' % (f,))


def type_json(t: Any, oracle: Oracle, depth: int = 0) -> dict:
    from xmlschema.validators import simple_types as S
    from xmlschema.validators.facets import XsdFacet
    if depth > 12:
        raise Unsupported('depth')
    if isinstance(t, S.XsdAtomicBuiltin):
        prim, v11 = prim_of(t)
        if prim == 'float':
            oracle.wrap_float(t)
        out: dict = {'k': 'b', 'prim': prim, 'v11': v11, 'ws': t.white_space or 'preserve',
                     'pat': oracle.pid(t.patterns) if t.patterns is not None else None,
                     'fn': None, 'facets': []}
        vs = list(t.validators)
        if len(vs) == 1 and not isinstance(vs[0], XsdFacet):
            name = getattr(vs[0], '__name__', '?')
            if name == 'qname_validator' or name not in FN_NAMES:
                raise Unsupported('validator function %s' % name)
            out['fn'] = name
        else:
            out['facets'] = [facet_json(f) for f in vs]
        return out
    if isinstance(t, S.XsdAtomicRestriction):
        if not isinstance(t.base_type, S.XsdSimpleType):
            raise Unsupported('complex base')
        if t.name in (XSD + 'anyAtomicType',):
            raise Unsupported('anyAtomicType')
        if t.patterns is not None and isinstance(t.primitive_type, S.XsdUnion):
            raise Unsupported('pattern on a union')
        return {'k': 'r', 'base': type_json(t.base_type, oracle, depth + 1),
                'ws': t.white_space or 'preserve',
                'pat': oracle.pid(t.patterns) if t.patterns is not None else None,
                'facets': [facet_json(f) for f in t.validators]}
    if isinstance(t, S.XsdList):
        if t.validators:
            raise Unsupported('list validators')
        return {'k': 'l', 'item': type_json(t.item_type, oracle, depth + 1)}
    if isinstance(t, S.XsdUnion):
        if t.validators or t.patterns is not None:
            raise Unsupported('union facets')
        return {'k': 'u', 'members': [type_json(m, oracle, depth + 1) for m in t.member_types]}
    raise Unsupported('type %r' % (t,))


# ------------------------------------------------------------------------------------------------
# Independent reading of XSD Part 2 (lexical spaces and values of the built-in types)
# ------------------------------------------------------------------------------------------------

def xsd_collapse(s: str) -> str:
    s = re.sub('[\t\n\r]', ' ', s)
    return re.sub(' +', ' ', s).strip(' ')


def xsd_replace(s: str) -> str:
    return re.sub('[\t\n\r]', ' ', s)


def xsd_normalize(ws: str, s: str) -> str:
    return {'preserve': lambda x: x, 'replace': xsd_replace, 'collapse': xsd_collapse}[ws](s)


_TZ = r'(Z|[+-](?:(?:0[0-9]|1[0-3]):[0-5][0-9]|14:00))?'
_YEAR = r'(-?(?:[1-9][0-9]{3,}|0[0-9]{3}))'
_RX = {
    'integer': re.compile(r'[+-]?[0-9]+\Z'),
    'decimal': re.compile(r'[+-]?(?:[0-9]+(?:\.[0-9]*)?|\.[0-9]+)\Z'),
    'float10': re.compile(r'(?:[+-]?(?:[0-9]+(?:\.[0-9]*)?|\.[0-9]+)(?:[Ee][+-]?[0-9]+)?|-?INF|NaN)\Z'),
    'float11': re.compile(r'(?:[+-]?(?:[0-9]+(?:\.[0-9]*)?|\.[0-9]+)(?:[Ee][+-]?[0-9]+)?|[+-]?INF|NaN)\Z'),
    'hexBinary': re.compile(r'(?:[0-9a-fA-F]{2})*\Z'),
    'dateTime': re.compile(_YEAR + r'-([0-9]{2})-([0-9]{2})T([0-9]{2}):([0-9]{2}):([0-9]{2})(\.[0-9]+)?' + _TZ + r'\Z'),
    'date': re.compile(_YEAR + r'-([0-9]{2})-([0-9]{2})' + _TZ + r'\Z'),
    'gYearMonth': re.compile(_YEAR + r'-([0-9]{2})' + _TZ + r'\Z'),
    'gYear': re.compile(_YEAR + _TZ + r'\Z'),
    'time': re.compile(r'([0-9]{2}):([0-9]{2}):([0-9]{2})(\.[0-9]+)?' + _TZ + r'\Z'),
    'gMonth': re.compile(r'--([0-9]{2})' + _TZ + r'\Z'),
    'gMonthDay': re.compile(r'--([0-9]{2})-([0-9]{2})' + _TZ + r'\Z'),
    'gDay': re.compile(r'---([0-9]{2})' + _TZ + r'\Z'),
    'duration': re.compile(r'-?P(?:[0-9]+Y)?(?:[0-9]+M)?(?:[0-9]+D)?(?:T(?:[0-9]+H)?(?:[0-9]+M)?(?:[0-9]+(?:\.[0-9]+)?S)?)?\Z'),
}
INT_BOUNDS = {
    'integer': (None, None), 'long': (-2**63, 2**63 - 1), 'int': (-2**31, 2**31 - 1),
    'short': (-2**15, 2**15 - 1), 'byte': (-128, 127), 'nonNegativeInteger': (0, None),
    'positiveInteger': (1, None), 'unsignedLong': (0, 2**64 - 1), 'unsignedInt': (0, 2**32 - 1),
    'unsignedShort': (0, 65535), 'unsignedByte': (0, 255), 'nonPositiveInteger': (None, 0),
    'negativeInteger': (None, -1),
}
B64 = 'ABCDEFGHIJKLMNOPQRSTUVWXYZabcdefghijklmnopqrstuvwxyz0123456789+/'


def _leap(y: int) -> bool:
    return y % 4 == 0 and (y % 100 != 0 or y % 400 == 0)


def _dim(y: Optional[int], m: int) -> int:
    if m == 2:
        return 29 if (y is None or _leap(y)) else 28
    return 30 if m in (4, 6, 9, 11) else 31


def spec_builtin(name: str, v11: bool, text: str) -> Any:
    """(valid, value) of `text` for the built-in `name` by XSD Part 2; value is None when the value
    space is not judged here.  Returns 'unjudged' where the recommendation itself is ambiguous or the
    type depends on context."""
    ws = 'preserve' if name == 'string' else 'replace' if name == 'normalizedString' else 'collapse'
    t = xsd_normalize(ws, text)
    if name in ('string', 'normalizedString', 'token', 'anyURI'):
        return True, ('s', t)
    if name == 'boolean':
        return (t in ('true', 'false', '1', '0')), ('b', t in ('true', '1'))
    if name in INT_BOUNDS:
        if not _RX['integer'].match(t):
            return False, None
        v = int(t)
        lo, hi = INT_BOUNDS[name]
        return (lo is None or lo <= v) and (hi is None or v <= hi), ('n', Fraction(v))
    if name == 'decimal':
        if not _RX['decimal'].match(t):
            return False, None
        return True, ('n', Fraction(Decimal(t)))
    if name in ('float', 'double'):
        return bool(_RX['float11' if v11 else 'float10'].match(t)), None
    if name == 'hexBinary':
        return bool(_RX['hexBinary'].match(t)), ('x', t.upper())
    if name == 'base64Binary':
        u = t.replace(' ', '')
        if len(u) % 4:
            return False, None
        body, pad = u.rstrip('='), len(u) - len(u.rstrip('='))
        if pad > 2 or any(c not in B64 for c in body):
            return False, None
        if pad == 1 and body[-1] not in 'AEIMQUYcgkosw048':
            return False, None
        if pad == 2 and body[-1] not in 'AQgw':
            return False, None
        return True, ('y', u)
    if name in ('dateTime', 'date', 'gYearMonth', 'gYear', 'time', 'gMonth', 'gMonthDay', 'gDay', 'dateTimeStamp'):
        kind = 'dateTime' if name == 'dateTimeStamp' else name
        m = _RX[kind].match(t)
        if not m:
            return False, None
        g = list(m.groups())
        tz = g[-1]
        if name == 'dateTimeStamp' and tz is None:
            return False, None
        year = month = day = None
        hh = mm = ss = None
        frac = None
        if kind in ('dateTime', 'date', 'gYearMonth', 'gYear'):
            year = int(g.pop(0))
            if abs(year) >= 2 ** 31:
                return 'unjudged'           # implementation limit (reported as a decode error, C02-F3)
            if year == 0 and not v11:
                return False, None
            if year <= 0:
                if not v11:
                    return 'unjudged'       # XSD 1.0 has no year zero; leap rule of BCE years is not settled
                # XSD 1.1: 0000 is 1 BCE, astronomical numbering
        if kind in ('dateTime', 'date', 'gYearMonth', 'gMonth', 'gMonthDay'):
            month = int(g.pop(0))
            if not 1 <= month <= 12:
                return False, None
        if kind in ('dateTime', 'date', 'gMonthDay', 'gDay'):
            day = int(g.pop(0))
            lim = _dim(year, month) if month is not None else 31
            if kind == 'gMonthDay':
                lim = _dim(None, month)
            if not 1 <= day <= lim:
                return False, None
        if kind in ('dateTime', 'time'):
            hh, mm, ss, frac = int(g[0]), int(g[1]), int(g[2]), g[3]
            if hh == 24:
                if mm or ss or (frac and frac.strip('.0')):
                    return False, None
            elif hh > 23:
                return False, None
            if mm > 59 or ss > 59:
                return False, None
        return True, ('dt', kind, year, month, day, hh, mm, ss, frac, tz)
    if name in ('duration', 'dayTimeDuration', 'yearMonthDuration'):
        m = _RX['duration'].match(t)
        if not m or t.endswith('T') or t in ('P', '-P') or t.endswith('P'):
            return False, None
        date_part = t.split('T')[0]
        if name == 'dayTimeDuration' and ('Y' in date_part or 'M' in date_part):
            return False, None
        if name == 'yearMonthDuration' and ('D' in date_part or 'T' in t):
            return False, None
        if any(len(n.lstrip('0')) > 8 for n in re.findall('[0-9]+', t)):
            return 'unjudged'               # implementation limits of months / seconds
        return True, None
    return 'unjudged'


def dt_instant(v: Any, assume_utc: bool = False) -> Any:
    """position on the time line of a spec date/time value (years 1..9999, no 24:00:00), or None"""
    import datetime
    _, kind, year, month, day, hh, mm, ss, frac, tz = v
    if (year is not None and not 1 <= year <= 9998) or (frac and len(frac) > 7):
        return None         # beyond the precision kept by the implementation (microseconds): not judged
    plus = datetime.timedelta(days=1 if hh == 24 and kind != 'time' else 0)
    base = datetime.datetime(year or 2000, month or 1, day or 1, 0 if hh == 24 else (hh or 0), mm or 0, ss or 0) + plus
    off = 0
    if tz is not None and tz != 'Z':
        off = (1 if tz[0] == '+' else -1) * (int(tz[1:3]) * 60 + int(tz[4:6]))
    try:
        base = base - datetime.timedelta(minutes=off)
    except OverflowError:
        return None
    return base, Fraction('0' + frac) if frac else Fraction(0)


def dt_spec_eq(a: Any, b: Any) -> Any:
    """XSD equality of two date/time values of the same type: None = not judged"""
    if (a[-1] is None) != (b[-1] is None):
        return False
    ia, ib = dt_instant(a), dt_instant(b)
    if ia is None or ib is None:
        return None
    return ia == ib
