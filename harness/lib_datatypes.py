"""
Shared helpers for the datatype checks (C02): introspection of built simple types into the JSON
form read by the Lean driver `drv_c02`, canonical form of decoded Python values, the tracing of
`pattern` evaluations (patterns have no Lean semantics: the model consumes the implementation's
own verdicts as an oracle), and an independent Python reading of XSD Part 2 used to evaluate the
property on the real code.
"""
from __future__ import annotations

import re
from decimal import Decimal
from fractions import Fraction
from typing import Any, Optional

XSD = '{http://www.w3.org/2001/XMLSchema}'

# characters Python treats as white space (`\s`, str.strip(), str.split()) that XSD does not
PY_ONLY_WS = ''.join(map(chr, [0x0b, 0x0c, 0x1c, 0x1d, 0x1e, 0x1f, 0x85, 0xa0, 0x1680, *range(0x2000, 0x200b),
                               0x2028, 0x2029, 0x202f, 0x205f, 0x3000]))
XML_WS = ' \t\n\r'


def has_py_ws(text: str) -> bool:
    return any(c in PY_ONLY_WS for c in text)


class Unsupported(Exception):
    pass


# ------------------------------------------------------------------------------------------------
# values
# ------------------------------------------------------------------------------------------------

def aval_json(v: Any, lit: Optional[str] = None) -> Any:
    from elementpath.datatypes import AbstractDateTime, Duration, HexBinary, Base64Binary
    if isinstance(v, bool):
        return {'b': v}
    if isinstance(v, int):
        return {'i': str(v)}
    if isinstance(v, Decimal):
        sign, digits, exp = v.as_tuple()
        if not isinstance(exp, int) or exp > 0:
            raise Unsupported('decimal %r' % v)
        return {'d': [bool(sign), str(int(''.join(map(str, digits)) or '0')), -exp]}
    if isinstance(v, float):
        return {'f': lit if lit is not None else repr(v)}
    if isinstance(v, str):
        return {'s': v}
    if isinstance(v, AbstractDateTime):
        dt = v._dt
        tz = None
        if dt.tzinfo is not None:
            off = dt.tzinfo.utcoffset(None)
            tz = off.days * 1440 + off.seconds // 60
        return {'dt': [v.name if v.name != 'dateTimeStamp' else 'dateTime', str(v._year), dt.month, dt.day,
                       dt.hour, dt.minute, dt.second, dt.microsecond, tz]}
    if isinstance(v, Duration):
        return {'dur': [str(v.months), str(int(v.seconds * 1000000))]}
    if isinstance(v, HexBinary):
        return {'x': v.value.decode()}
    if isinstance(v, Base64Binary):
        return {'y': v.value.decode()}
    raise Unsupported('value %r' % (v,))


def val_json(v: Any, lit: Optional[str] = None) -> Any:
    if v is None:
        return None
    if isinstance(v, list):
        return {'l': [None if x is None else aval_json(x) for x in v]}
    return aval_json(v, lit)


# ------------------------------------------------------------------------------------------------
# pattern oracle
# ------------------------------------------------------------------------------------------------

class Oracle:
    """ids for pattern groups and a trace of the implementation's own pattern verdicts"""

    def __init__(self) -> None:
        self.ids: dict[int, int] = {}
        self.keep: list[Any] = []
        self.trace: list[list] = []
        self.installed = False
        # pattern groups inside the regular-expression subset: id -> ASTs (evaluated by the model itself)
        self.rxs: dict[int, list] = {}

    def pid(self, patterns: Any) -> int:
        k = id(patterns)
        if k not in self.ids:
            self.ids[k] = len(self.ids) + 1      # 0 is reserved for float()
            self.keep.append(patterns)
            regs = getattr(patterns, 'regexps', None)
            g = rx_group(list(regs)) if regs else None
            if g is not None:
                self.rxs[self.ids[k]] = g
        return self.ids[k]

    def install(self) -> None:
        if self.installed:
            return
        from xmlschema.validators.facets import XsdPatternFacets
        from xmlschema.validators.exceptions import XMLSchemaValidationError
        orig = XsdPatternFacets.__call__
        oracle = self

        def traced(self_, value):       # noqa
            try:
                orig(self_, value)
            except XMLSchemaValidationError:
                if isinstance(value, str):
                    oracle.trace.append([oracle.pid(self_), value, False])
                raise
            else:
                if isinstance(value, str):
                    oracle.trace.append([oracle.pid(self_), value, True])
        XsdPatternFacets.__call__ = traced
        self._orig = orig
        self.installed = True

    def uninstall(self) -> None:
        if self.installed:
            from xmlschema.validators.facets import XsdPatternFacets
            XsdPatternFacets.__call__ = self._orig
            self.installed = False

    def table(self, tj: Any) -> list:
        """`rxs` of a request: the groups of the subset used by the type `tj`"""
        memo = self.__dict__.setdefault('_tables', {})
        if id(tj) in memo and memo[id(tj)][0] is tj:
            return memo[id(tj)][1]
        ids: set = set()

        def walk(j: Any) -> None:
            if isinstance(j, dict):
                if isinstance(j.get('pat'), int):
                    ids.add(j['pat'])
                for v in j.values():
                    walk(v)
            elif isinstance(j, list):
                for v in j:
                    walk(v)
        walk(tj)
        out = [[i, [rx_json(r) for r in self.rxs[i]]] for i in sorted(ids) if i in self.rxs]
        if tj is not None:
            memo[id(tj)] = (tj, out)
        return out

    def wrap_float(self, xsd_type: Any) -> None:
        """record float() acceptance of the float/double built-ins (value space not modelled)"""
        if getattr(xsd_type.to_python, '_c02_wrapped', False):
            return
        inner = xsd_type.to_python
        oracle = self

        def to_python(value):
            try:
                r = inner(value)
            except (ValueError, TypeError):
                if isinstance(value, str):
                    oracle.trace.append([0, value, False])
                raise
            if isinstance(value, str):
                oracle.trace.append([0, value, True])
            return r
        to_python._c02_wrapped = True
        to_python._c02_inner = inner
        xsd_type.to_python = to_python

    def take(self) -> list:
        t, self.trace = self.trace, []
        # de-duplicate, keep first verdict
        seen = set()
        out = []
        for e in t:
            k = (e[0], e[1])
            if k not in seen:
                seen.add(k)
                out.append(e)
        return out


# ------------------------------------------------------------------------------------------------
# introspection of built types
# ------------------------------------------------------------------------------------------------

QNAME_ID = 999983      # oracle id of "the atomic xs:QName accepts this text" (never an id of Oracle.pid)
_INVOLVES_QNAME: dict = {}


def involves_qname(t: Any) -> bool:
    """the built type reaches the built-in xs:QName (through restrictions, list items, union members)"""
    k = id(t)
    if k not in _INVOLVES_QNAME or _INVOLVES_QNAME[k][0] is not t:
        if t.name == XSD + 'QName':
            r = True
        elif getattr(t, 'member_types', None):
            r = any(involves_qname(m) for m in t.member_types)
        elif getattr(t, 'item_type', None) is not None and t.is_list() and hasattr(t, 'item_type'):
            r = involves_qname(t.item_type)
        elif getattr(t, 'base_type', None) is not None and t.base_type is not t and hasattr(t.base_type, 'is_simple') \
                and t.base_type.is_simple():
            r = involves_qname(t.base_type)
        else:
            r = False
        if len(_INVOLVES_QNAME) > 20000:
            _INVOLVES_QNAME.clear()
        _INVOLVES_QNAME[k] = (t, r)
    return _INVOLVES_QNAME[k][1]


def qname_trace(t: Any, text: str) -> list:
    """oracle entries [QNAME_ID, item, verdict] for every text that can reach the built-in xs:QName while `text` is
    decoded by `t`: the white-space separated items of the text and the collapsed text itself"""
    qn = t.maps.types[XSD + 'QName']
    c = re.sub('[ \t\n\r]+', ' ', text).strip(' ')
    out = []
    for w in dict.fromkeys([c] + [x for x in c.split(' ') if x]):
        try:
            ok = not qn.decode(w, validation='lax')[1]
        except Exception:    # noqa
            continue
        out.append([QNAME_ID, w, ok])
    return out


FN_NAMES = {'byte_validator', 'short_validator', 'int_validator', 'long_validator',
            'unsigned_byte_validator', 'unsigned_short_validator', 'unsigned_int_validator',
            'unsigned_long_validator', 'negative_int_validator', 'positive_int_validator',
            'non_positive_int_validator', 'non_negative_int_validator', 'decimal_validator',
            'hex_binary_validator', 'base64_binary_validator', 'error_type_validator'}


def prim_of(xsd_type: Any) -> tuple[str, bool]:
    """which converter a built-in uses (identity of `to_python`)"""
    from xmlschema.validators import helpers
    from elementpath import datatypes
    f = getattr(xsd_type.to_python, '_c02_inner', xsd_type.to_python)
    if f is getattr(helpers, 'integer_to_python', None) or f is int:
        return 'integer', True
    if f is getattr(helpers, 'decimal_to_python', None) or f is datatypes.DecimalProxy:
        return 'decimal', True
    if f is getattr(helpers, 'boolean_to_python', None):
        return 'boolean', True
    if f is str:
        # xs:QName / xs:NOTATION: strings; the lexical check of xs:QName (qname_validator + prefix lookup) is an oracle
        # (QNAME_ID), see type_json / qname_trace
        return 'string', True
    if f is float:
        return 'float', True
    if f is datatypes.HexBinary:
        return 'hexBinary', True
    if f is datatypes.Base64Binary:
        return 'base64Binary', True
    if f is type(None):
        return 'error', True
    owner = getattr(f, '__self__', None)
    if owner is not None and getattr(f, '__name__', '') == 'fromstring':
        name = owner.name
        v11 = getattr(owner, '_xsd_version', '1.1') != '1.0'
        if name in ('duration', 'dayTimeDuration', 'yearMonthDuration'):
            return name, v11
        if name == 'dateTimeStamp':
            name = 'dateTime'
        if name in ('dateTime', 'date', 'time', 'gYear', 'gYearMonth', 'gMonth', 'gMonthDay', 'gDay'):
            return 'dt:' + name, v11
    raise Unsupported('converter %r' % (f,))


def facet_json(f: Any) -> dict:
    from xmlschema.validators import facets as F
    if isinstance(f, (F.XsdLengthFacet, F.XsdMinLengthFacet, F.XsdMaxLengthFacet)):
        # (a length-family facet that the implementation does not check -- `validate = skip_validation`, xs:QName /
        #  xs:NOTATION -- is sent as declared: the MODEL decides where the exemption applies, `applyExempt`)
        return {'f': {F.XsdLengthFacet: 'length', F.XsdMinLengthFacet: 'minLength',
                      F.XsdMaxLengthFacet: 'maxLength'}[type(f)], 'n': f.value}
    for cls, name in ((F.XsdMinInclusiveFacet, 'minInclusive'), (F.XsdMinExclusiveFacet, 'minExclusive'),
                      (F.XsdMaxInclusiveFacet, 'maxInclusive'), (F.XsdMaxExclusiveFacet, 'maxExclusive')):
        if type(f) is cls:
            if f.value is None or isinstance(f.value, float):
                raise Unsupported('bound %r' % (f.value,))
            return {'f': name, 'v': aval_json(f.value)}
    if isinstance(f, F.XsdTotalDigitsFacet):
        return {'f': 'totalDigits', 'n': f.value}
    if isinstance(f, F.XsdFractionDigitsFacet):
        return {'f': 'fractionDigits', 'n': f.value}
    if isinstance(f, F.XsdExplicitTimezoneFacet):
        return {'f': 'explicitTimezone', 'r': f.value}
    if isinstance(f, F.XsdEnumerationFacets):
        vs = []
        for v in f.enumeration:
            if isinstance(v, float) or (isinstance(v, list) and any(isinstance(x, float) for x in v)):
                raise Unsupported('float enumeration')
            vs.append(val_json(v))
        return {'f': 'enumeration', 'vs': vs}
    raise Unsupported('facet %r' % (f,))


def type_json(t: Any, oracle: Oracle, depth: int = 0) -> dict:
    from xmlschema.validators import simple_types as S
    from xmlschema.validators.facets import XsdFacet
    if depth > 12:
        raise Unsupported('depth')
    if isinstance(t, S.XsdAtomicBuiltin):
        prim, v11 = prim_of(t)
        if prim == 'float':
            oracle.wrap_float(t)
        out: dict = {'k': 'b', 'prim': prim, 'v11': v11, 'ws': t.white_space or 'preserve',
                     'pat': oracle.pid(t.patterns) if t.patterns is not None else None,
                     'fn': None, 'facets': [], 'lenx': t.name in (XSD + 'QName', XSD + 'NOTATION')}
        vs = list(t.validators)
        if len(vs) == 1 and not isinstance(vs[0], XsdFacet):
            name = getattr(vs[0], '__name__', '?')
            if name == 'qname_validator':
                # lexical space + prefix lookup of the atomic xs:QName: no Lean semantics, the model consumes the
                # verdict of the built-in itself on every item (oracle id QNAME_ID); what the model decides is the
                # structure around it (lists, length-family facets and their xs:QName exemption, enumerations, unions)
                out['pat'] = QNAME_ID
            elif name not in FN_NAMES:
                raise Unsupported('validator function %s' % name)
            else:
                out['fn'] = name
        else:
            out['facets'] = [facet_json(f) for f in vs]
        return out
    if isinstance(t, S.XsdAtomicRestriction):
        if not isinstance(t.base_type, S.XsdSimpleType):
            raise Unsupported('complex base')
        if t.name in (XSD + 'anyAtomicType',):
            raise Unsupported('anyAtomicType')
        # (patterns on a restriction of a union travel through context.patterns: Model/DatatypesPat `decodeS`)
        return {'k': 'r', 'base': type_json(t.base_type, oracle, depth + 1),
                'ws': t.white_space or 'preserve',
                'pat': oracle.pid(t.patterns) if t.patterns is not None else None,
                'facets': [facet_json(f) for f in t.validators]}
    if isinstance(t, S.XsdList):
        if t.validators:
            raise Unsupported('list validators')
        return {'k': 'l', 'item': type_json(t.item_type, oracle, depth + 1)}
    if isinstance(t, S.XsdUnion):
        if t.validators or t.patterns is not None:
            raise Unsupported('union facets')
        return {'k': 'u', 'members': [type_json(m, oracle, depth + 1) for m in t.member_types]}
    raise Unsupported('type %r' % (t,))


# ------------------------------------------------------------------------------------------------
# pattern facets: a regular-expression SUBSET with exact semantics
#   AST   ('cls', neg, ((lo, hi), ...)) | ('cat', [r, ...]) | ('alt', [r, ...]) | ('rep', r, lo, hi|None)
#   text  XSD regular expressions made of literal characters, single-character escapes of metacharacters,
#         '.', character classes [..] / [^..] of characters and ranges, groups ( ), alternation |,
#         quantifiers ? * + {n} {n,} {n,m}.  Anything else (\d \s \w \i \c \p{..}, class subtraction,
#         multi-character escapes in classes) is OUTSIDE the subset: `rx_parse` returns None and the pattern
#         stays an oracle (the implementation's own verdict, differential only).
#   `rx_parse` + `rx_match` are the independent reading of the pattern facet; the same AST is sent to the Lean
#   model (`rx_json`), which evaluates it with its verified derivative matcher.
# ------------------------------------------------------------------------------------------------

_RX_META = set('\\|.-^?*+{}()[]')
_RX_CLASS_ESC = set('\\[]^-')
RX_ANY = ('cls', True, ((10, 10), (13, 13)))       # '.' : every character except LF and CR


class _RxOut(Exception):
    pass


def rx_parse(text: str) -> Any:
    """AST of an XSD pattern of the subset, None when the pattern is outside it"""
    pos = 0
    n = len(text)

    def peek() -> str:
        return text[pos] if pos < n else ''

    def esc_char() -> int:
        nonlocal pos
        pos += 1
        if pos >= n:
            raise _RxOut
        c = text[pos]
        pos += 1
        if c in _RX_META:
            return ord(c)
        if c == 'n':
            return 10
        if c == 'r':
            return 13
        if c == 't':
            return 9
        raise _RxOut       # \d \s \w \i \c \p ... : outside the subset

    def cls() -> Any:
        nonlocal pos
        pos += 1
        neg = False
        if peek() == '^':
            neg = True
            pos += 1
        ranges = []
        first = True
        while True:
            c = peek()
            if c == '':
                raise _RxOut
            if c == ']' and not first:
                pos += 1
                break
            first = False
            if c == '[':
                raise _RxOut
            if c == '\\':
                lo = esc_char()
            elif c == '-' and text[pos + 1:pos + 2] == '[':
                raise _RxOut       # class subtraction
            else:
                lo = ord(c)
                pos += 1
            hi = lo
            if peek() == '-' and text[pos + 1:pos + 2] not in (']', '['):
                pos += 1
                c2 = peek()
                if c2 == '':
                    raise _RxOut
                if c2 == '\\':
                    hi = esc_char()
                else:
                    hi = ord(c2)
                    pos += 1
                if hi < lo:
                    raise _RxOut
            elif peek() == '-' and text[pos + 1:pos + 2] == '[':
                raise _RxOut
            ranges.append((lo, hi))
        if not ranges:
            raise _RxOut
        return ('cls', neg, tuple(ranges))

    def atom() -> Any:
        nonlocal pos
        c = peek()
        if c == '(':
            pos += 1
            if text[pos:pos + 1] == '?':
                raise _RxOut
            r = alt()
            if peek() != ')':
                raise _RxOut
            pos += 1
            return r
        if c == '[':
            return cls()
        if c == '.':
            pos += 1
            return RX_ANY
        if c == '\\':
            k = esc_char()
            return ('cls', False, ((k, k),))
        if c in '?*+{}|)]' or c == '':
            raise _RxOut
        pos += 1
        return ('cls', False, ((ord(c), ord(c)),))

    def piece() -> Any:
        nonlocal pos
        r = atom()
        c = peek()
        if c == '?':
            pos += 1
            return ('rep', r, 0, 1)
        if c == '*':
            pos += 1
            return ('rep', r, 0, None)
        if c == '+':
            pos += 1
            return ('rep', r, 1, None)
        if c == '{':
            m = re.compile(r'\{([0-9]+)(,([0-9]*))?\}').match(text, pos)
            if not m:
                raise _RxOut
            pos = m.end()
            lo = int(m.group(1))
            hi = lo if m.group(2) is None else (int(m.group(3)) if m.group(3) else None)
            if (hi is not None and hi < lo) or lo > 40 or (hi or 0) > 40:
                raise _RxOut
            return ('rep', r, lo, hi)
        return r

    def cat() -> Any:
        items = []
        while peek() not in ('', '|', ')'):
            items.append(piece())
        return items[0] if len(items) == 1 else ('cat', items)

    def alt() -> Any:
        nonlocal pos
        branches = [cat()]
        while peek() == '|':
            pos += 1
            branches.append(cat())
        return branches[0] if len(branches) == 1 else ('alt', branches)

    try:
        r = alt()
        if pos != n:
            return None
        return r
    except (_RxOut, RecursionError):
        return None


def rx_json(r: Any) -> dict:
    if r[0] == 'cls':
        return {'k': 'cls', 'neg': r[1], 'r': [[a, b] for a, b in r[2]]}
    if r[0] in ('cat', 'alt'):
        return {'k': r[0], 'a': [rx_json(x) for x in r[1]]}
    return {'k': 'rep', 'r': rx_json(r[1]), 'lo': r[2], 'hi': r[3]}


def _rx_ends(r: Any, s: str, starts: set) -> set:
    """end positions of the matches of `r` in `s` that begin at one of `starts`"""
    if not starts:
        return set()
    if r[0] == 'cls':
        out = set()
        for i in starts:
            if i < len(s):
                k = ord(s[i])
                if any(a <= k <= b for a, b in r[2]) != r[1]:
                    out.add(i + 1)
        return out
    if r[0] == 'cat':
        cur = starts
        for x in r[1]:
            cur = _rx_ends(x, s, cur)
        return cur
    if r[0] == 'alt':
        out = set()
        for x in r[1]:
            out |= _rx_ends(x, s, starts)
        return out
    _, x, lo, hi = r
    cur = set(starts)
    for _ in range(lo):
        cur = _rx_ends(x, s, cur)
    out = set(cur)
    k = lo
    while cur and (hi is None or k < hi):
        cur = _rx_ends(x, s, cur) - out
        out |= cur
        k += 1
    return out


def rx_match(r: Any, s: str) -> bool:
    """the whole text is in the language of the pattern (XSD patterns are anchored)"""
    return len(s) in _rx_ends(r, s, {0})


def rx_group(patterns: Any) -> Any:
    """ASTs of the patterns of one XsdPatternFacets group (alternatives), None if one is outside the subset"""
    out = []
    for p in patterns:
        r = rx_parse(p)
        if r is None:
            return None
        out.append(r)
    return out


def rx_xsd(r: Any, ctx: str = 'alt') -> str:
    """XSD regular-expression text of an AST (characters restricted to printable ASCII by the generators)"""
    if r[0] == 'cls':
        neg, ranges = r[1], r[2]
        if r == RX_ANY:
            return '.'
        if not neg and len(ranges) == 1 and ranges[0][0] == ranges[0][1]:
            c = chr(ranges[0][0])
            return '\\' + c if c in _RX_META else c

        def one(k: int) -> str:
            c = chr(k)
            return '\\' + c if c in _RX_CLASS_ESC else c
        body = ''.join(one(a) if a == b else one(a) + '-' + one(b) for a, b in ranges)
        return '[' + ('^' if neg else '') + body + ']'
    if r[0] == 'alt':
        t = '|'.join(rx_xsd(x, 'alt') for x in r[1])
        return t if ctx == 'alt' else '(' + t + ')'
    if r[0] == 'cat':
        t = ''.join(rx_xsd(x, 'cat') for x in r[1])
        return t if ctx in ('alt', 'cat') else '(' + t + ')'
    _, x, lo, hi = r
    q = {(0, 1): '?', (0, None): '*', (1, None): '+'}.get((lo, hi))
    if q is None:
        q = '{%d}' % lo if hi == lo else '{%d,}' % lo if hi is None else '{%d,%d}' % (lo, hi)
    inner = rx_xsd(x, 'rep')
    if x[0] == 'rep':
        inner = '(' + inner + ')'
    return inner + q


def rx_random(rng: Any, depth: int = 0, in_rep: bool = False) -> Any:
    """a seeded AST of the subset over a small alphabet (no counted repetition inside a counted repetition: the
    derivatives of nested counters grow exponentially in the model's matcher)"""
    k = rng.random()
    if in_rep and k >= 0.75:
        k = rng.random() * 0.75
    if depth >= 3 or k < 0.35:
        j = rng.random()
        if j < 0.4:
            c = rng.choice('ab01-. xZ')
            return ('cls', False, ((ord(c), ord(c)),))
        if j < 0.5:
            return RX_ANY
        pool = [(48, 57), (97, 99), (97, 122), (65, 90), (45, 45), (32, 32), (48, 49), (46, 46)]
        return ('cls', rng.random() < 0.2, tuple(rng.sample(pool, rng.randrange(1, 4))))
    if k < 0.6:
        return ('cat', [rx_random(rng, depth + 1, in_rep) for _ in range(rng.randrange(2, 4))])
    if k < 0.75:
        return ('alt', [rx_random(rng, depth + 1, in_rep) for _ in range(rng.randrange(2, 4))])
    lo = rng.choice([0, 0, 1, 1, 2, 3])
    hi = rng.choice([None, lo, lo + 1, lo + 2])
    return ('rep', rx_random(rng, depth + 1, True), lo, hi)


def rx_sample(rng: Any, r: Any, depth: int = 0) -> str:
    """a text of the language of `r` (seeded)"""
    if r[0] == 'cls':
        if not r[1]:
            a, b = rng.choice(r[2])
            return chr(rng.randrange(a, b + 1))
        for _ in range(20):
            c = rng.choice('ab01 -.Z_é')
            if not any(a <= ord(c) <= b for a, b in r[2]):
                return c
        return 'a'
    if r[0] == 'cat':
        return ''.join(rx_sample(rng, x, depth + 1) for x in r[1])
    if r[0] == 'alt':
        return rx_sample(rng, rng.choice(r[1]), depth + 1)
    _, x, lo, hi = r
    k = rng.randrange(lo, (lo + 3 if hi is None else hi) + 1)
    return ''.join(rx_sample(rng, x, depth + 1) for _ in range(k))


# ------------------------------------------------------------------------------------------------
# Independent reading of XSD Part 2 (lexical spaces and values of the built-in types)
# ------------------------------------------------------------------------------------------------

def xsd_collapse(s: str) -> str:
    s = re.sub('[\t\n\r]', ' ', s)
    return re.sub(' +', ' ', s).strip(' ')


def xsd_replace(s: str) -> str:
    return re.sub('[\t\n\r]', ' ', s)


def xsd_normalize(ws: str, s: str) -> str:
    return {'preserve': lambda x: x, 'replace': xsd_replace, 'collapse': xsd_collapse}[ws](s)


_TZ = r'(Z|[+-](?:(?:0[0-9]|1[0-3]):[0-5][0-9]|14:00))?'
_YEAR = r'(-?(?:[1-9][0-9]{3,}|0[0-9]{3}))'
_RX = {
    'integer': re.compile(r'[+-]?[0-9]+\Z'),
    'decimal': re.compile(r'[+-]?(?:[0-9]+(?:\.[0-9]*)?|\.[0-9]+)\Z'),
    'float10': re.compile(r'(?:[+-]?(?:[0-9]+(?:\.[0-9]*)?|\.[0-9]+)(?:[Ee][+-]?[0-9]+)?|-?INF|NaN)\Z'),
    'float11': re.compile(r'(?:[+-]?(?:[0-9]+(?:\.[0-9]*)?|\.[0-9]+)(?:[Ee][+-]?[0-9]+)?|[+-]?INF|NaN)\Z'),
    'hexBinary': re.compile(r'(?:[0-9a-fA-F]{2})*\Z'),
    'dateTime': re.compile(_YEAR + r'-([0-9]{2})-([0-9]{2})T([0-9]{2}):([0-9]{2}):([0-9]{2})(\.[0-9]+)?' + _TZ + r'\Z'),
    'date': re.compile(_YEAR + r'-([0-9]{2})-([0-9]{2})' + _TZ + r'\Z'),
    'gYearMonth': re.compile(_YEAR + r'-([0-9]{2})' + _TZ + r'\Z'),
    'gYear': re.compile(_YEAR + _TZ + r'\Z'),
    'time': re.compile(r'([0-9]{2}):([0-9]{2}):([0-9]{2})(\.[0-9]+)?' + _TZ + r'\Z'),
    'gMonth': re.compile(r'--([0-9]{2})' + _TZ + r'\Z'),
    'gMonthDay': re.compile(r'--([0-9]{2})-([0-9]{2})' + _TZ + r'\Z'),
    'gDay': re.compile(r'---([0-9]{2})' + _TZ + r'\Z'),
    'duration': re.compile(r'-?P(?:[0-9]+Y)?(?:[0-9]+M)?(?:[0-9]+D)?(?:T(?:[0-9]+H)?(?:[0-9]+M)?(?:[0-9]+(?:\.[0-9]+)?S)?)?\Z'),
}
INT_BOUNDS = {
    'integer': (None, None), 'long': (-2**63, 2**63 - 1), 'int': (-2**31, 2**31 - 1),
    'short': (-2**15, 2**15 - 1), 'byte': (-128, 127), 'nonNegativeInteger': (0, None),
    'positiveInteger': (1, None), 'unsignedLong': (0, 2**64 - 1), 'unsignedInt': (0, 2**32 - 1),
    'unsignedShort': (0, 65535), 'unsignedByte': (0, 255), 'nonPositiveInteger': (None, 0),
    'negativeInteger': (None, -1),
}
B64 = 'ABCDEFGHIJKLMNOPQRSTUVWXYZabcdefghijklmnopqrstuvwxyz0123456789+/'


def _leap(y: int) -> bool:
    return y % 4 == 0 and (y % 100 != 0 or y % 400 == 0)


def _dim(y: Optional[int], m: int) -> int:
    if m == 2:
        return 29 if (y is None or _leap(y)) else 28
    return 30 if m in (4, 6, 9, 11) else 31


def spec_builtin(name: str, v11: bool, text: str) -> Any:
    """(valid, value) of `text` for the built-in `name` by XSD Part 2; value is None when the value
    space is not judged here.  Returns 'unjudged' where the recommendation itself is ambiguous or the
    type depends on context."""
    ws = 'preserve' if name == 'string' else 'replace' if name == 'normalizedString' else 'collapse'
    t = xsd_normalize(ws, text)
    if name in ('string', 'normalizedString', 'token', 'anyURI'):
        return True, ('s', t)
    if name == 'boolean':
        return (t in ('true', 'false', '1', '0')), ('b', t in ('true', '1'))
    if name in INT_BOUNDS:
        if not _RX['integer'].match(t):
            return False, None
        v = int(t)
        lo, hi = INT_BOUNDS[name]
        return (lo is None or lo <= v) and (hi is None or v <= hi), ('n', Fraction(v))
    if name == 'decimal':
        if not _RX['decimal'].match(t):
            return False, None
        return True, ('n', Fraction(Decimal(t)))
    if name in ('float', 'double'):
        return bool(_RX['float11' if v11 else 'float10'].match(t)), None
    if name == 'hexBinary':
        return bool(_RX['hexBinary'].match(t)), ('x', t.upper())
    if name == 'base64Binary':
        u = t.replace(' ', '')
        if len(u) % 4:
            return False, None
        body, pad = u.rstrip('='), len(u) - len(u.rstrip('='))
        if pad > 2 or any(c not in B64 for c in body):
            return False, None
        if pad == 1 and body[-1] not in 'AEIMQUYcgkosw048':
            return False, None
        if pad == 2 and body[-1] not in 'AQgw':
            return False, None
        return True, ('y', u)
    if name in ('dateTime', 'date', 'gYearMonth', 'gYear', 'time', 'gMonth', 'gMonthDay', 'gDay', 'dateTimeStamp'):
        kind = 'dateTime' if name == 'dateTimeStamp' else name
        m = _RX[kind].match(t)
        if not m:
            return False, None
        g = list(m.groups())
        tz = g[-1]
        if name == 'dateTimeStamp' and tz is None:
            return False, None
        year = month = day = None
        hh = mm = ss = None
        frac = None
        if kind in ('dateTime', 'date', 'gYearMonth', 'gYear'):
            year = int(g.pop(0))
            if abs(year) >= 2 ** 31:
                return 'unjudged'           # implementation limit (reported as a decode error, C02-F3)
            if year == 0 and not v11:
                return False, None
            if year <= 0:
                if not v11:
                    return 'unjudged'       # XSD 1.0 has no year zero; leap rule of BCE years is not settled
                # XSD 1.1: 0000 is 1 BCE, astronomical numbering
        if kind in ('dateTime', 'date', 'gYearMonth', 'gMonth', 'gMonthDay'):
            month = int(g.pop(0))
            if not 1 <= month <= 12:
                return False, None
        if kind in ('dateTime', 'date', 'gMonthDay', 'gDay'):
            day = int(g.pop(0))
            lim = _dim(year, month) if month is not None else 31
            if kind == 'gMonthDay':
                lim = _dim(None, month)
            if not 1 <= day <= lim:
                return False, None
        if kind in ('dateTime', 'time'):
            hh, mm, ss, frac = int(g[0]), int(g[1]), int(g[2]), g[3]
            if hh == 24:
                if mm or ss or (frac and frac.strip('.0')):
                    return False, None
            elif hh > 23:
                return False, None
            if mm > 59 or ss > 59:
                return False, None
        return True, ('dt', kind, year, month, day, hh, mm, ss, frac, tz)
    if name in ('duration', 'dayTimeDuration', 'yearMonthDuration'):
        m = _RX['duration'].match(t)
        if not m or t.endswith('T') or t in ('P', '-P') or t.endswith('P'):
            return False, None
        date_part = t.split('T')[0]
        if name == 'dayTimeDuration' and ('Y' in date_part or 'M' in date_part):
            return False, None
        if name == 'yearMonthDuration' and ('D' in date_part or 'T' in t):
            return False, None
        if any(len(n.lstrip('0')) > 8 for n in re.findall('[0-9]+', t)):
            return 'unjudged'               # implementation limits of months / seconds
        return True, None
    return 'unjudged'


def dt_instant(v: Any, assume_utc: bool = False) -> Any:
    """position on the time line of a spec date/time value (years 1..9999, no 24:00:00), or None"""
    import datetime
    _, kind, year, month, day, hh, mm, ss, frac, tz = v
    if (year is not None and not 1 <= year <= 9998) or (frac and len(frac) > 7):
        return None         # beyond the precision kept by the implementation (microseconds): not judged
    plus = datetime.timedelta(days=1 if hh == 24 and kind != 'time' else 0)
    base = datetime.datetime(year or 2000, month or 1, day or 1, 0 if hh == 24 else (hh or 0), mm or 0, ss or 0) + plus
    off = 0
    if tz is not None and tz != 'Z':
        off = (1 if tz[0] == '+' else -1) * (int(tz[1:3]) * 60 + int(tz[4:6]))
    try:
        base = base - datetime.timedelta(minutes=off)
    except OverflowError:
        return None
    return base, Fraction('0' + frac) if frac else Fraction(0)


def dt_spec_eq(a: Any, b: Any) -> Any:
    """XSD equality of two date/time values of the same type: None = not judged"""
    if (a[-1] is None) != (b[-1] is None):
        return False
    ia, ib = dt_instant(a), dt_instant(b)
    if ia is None or ib is None:
        return None
    return ia == ib
