"""
Shared generator / introspection helpers for C06 (lazy == eager) and C20 (schema paths, partial decoding).

  * gen_schema(rng, ...)  -> Spec: a random schema (local declarations with repeated local names and
    different types in different contexts, references to global elements, a substitution group, wildcard
    tails, named types with an extension for xsi:type, ID/IDREF attributes, key/unique/keyref constraints)
  * gen_doc(rng, spec, ...) -> an instance document (mostly valid, with seeded defects) as bytes
  * Slow: a file-like object that hands the parser a few bytes at a time (true streaming: the tree does not
    exist beyond the parse position when an event is delivered)
  * doc_tree(resource): the loaded tree with preorder ids and namespace declarations (what was actually parsed)

Everything is derived from the rng passed in.
"""
from __future__ import annotations

import io
from typing import Any, Optional

XSI = 'http://www.w3.org/2001/XMLSchema-instance'
TNS = 'urn:t'
NAMES = ['a', 'b', 'c', 'd', 'e']
STYPES = ['xs:int', 'xs:short', 'xs:string', 'xs:boolean', 'xs:QName']
OTHER = 'urn:other'


class Slow:
    """File-like source that returns at most `n` bytes per read (not a BytesIO subclass on purpose)."""

    def __init__(self, data: bytes, n: int):
        self.b = io.BytesIO(data)
        self.n = n
        self.closed = False

    def read(self, k: int = -1) -> bytes:
        return self.b.read(self.n if (k is None or k < 0 or k > self.n) else k)

    def seekable(self) -> bool:
        return True

    def seek(self, p: int, w: int = 0) -> int:
        return self.b.seek(p, w)

    def tell(self) -> int:
        return self.b.tell()

    def close(self) -> None:
        pass


class El:
    def __init__(self, name: str, occ=(1, 1)):
        self.name = name
        self.occ = occ
        self.kind = 'simple'          # simple | complex | ref | typed (named type B)
        self.stype = 'xs:int'
        self.children: list[El] = []
        self.attrs: list[tuple[str, str, bool]] = []   # (name, type, required)
        self.wild = False             # complex: wildcard tail
        self.ref: Optional[str] = None
        self.idents: list[dict] = []
        self.mixed = False

    def walk(self, path=()):
        yield path + (self.name,), self
        for c in self.children:
            yield from c.walk(path + (self.name,))


class Spec:
    def __init__(self):
        self.tns = False
        self.root: El = None  # type: ignore
        self.xsd = ''
        self.v11 = False
        self.features: set[str] = set()


def gen_el(rng, name: str, depth: int, maxdepth: int, spec: Spec, top=False) -> El:
    e = El(name)
    if not top:
        e.occ = rng.choice([(1, 1), (1, 1), (0, 1), (1, None), (0, None), (1, 3)])
    r = rng.random()
    if not top and depth > 0 and r < 0.10:
        e.kind = 'ref'
        e.ref = rng.choice(['h', 'h', 'g'])
        e.name = e.ref
        spec.features.add('ref:' + e.ref)
        return e
    if not top and depth > 0 and r < 0.18:
        e.kind = 'typed'                # named type B (allows xsi:type="D")
        spec.features.add('typed')
        return e
    if depth >= maxdepth or (not top and r < 0.45):
        e.kind = 'simple'
        e.stype = rng.choice(STYPES)
        return e
    e.kind = 'complex'
    n = rng.choice([1, 2, 2, 3, 3, 4])
    names = rng.sample(NAMES, n)
    e.children = [gen_el(rng, nm, depth + 1, maxdepth, spec) for nm in names]
    # de-duplicate names produced by refs
    seen = set()
    kids = []
    for c in e.children:
        if c.name in seen:
            continue
        seen.add(c.name)
        kids.append(c)
    e.children = kids
    if rng.random() < (0.30 if top else 0.12):
        e.wild = True
        for c in e.children:
            c.occ = (1, 1)
        spec.features.add('wild')
    if rng.random() < 0.6:
        e.attrs.append(('k', 'xs:int', False))
    if rng.random() < 0.25:
        e.attrs.append(('id', 'xs:ID', False))
    if rng.random() < 0.2:
        e.attrs.append(('rf', 'xs:IDREF', False))
    if rng.random() < 0.1:
        e.mixed = True
    return e


def add_identities(rng, spec: Spec, holder: El, prefix: str) -> None:
    """key/unique on a descendant path with field @k, optional keyref from another path."""
    cands = [(p, d) for p, d in holder.walk() if len(p) > 1 and d.kind == 'complex' and any(a[0] == 'k' for a in d.attrs)]
    if not cands:
        return
    p, d = rng.choice(cands)
    sel = '/'.join(prefix + x for x in p[1:])
    kind = rng.choice(['key', 'unique', 'unique'])
    name = f'K{len(holder.idents)}_{holder.name}'
    holder.idents.append({'kind': kind, 'name': name, 'selector': sel, 'field': '@k'})
    spec.features.add(kind)
    others = [(q, x) for q, x in cands if q != p]
    if others and rng.random() < 0.6:
        q, x = rng.choice(others)
        holder.idents.append({'kind': 'keyref', 'name': name + 'r', 'selector': '/'.join(prefix + y for y in q[1:]),
                              'field': '@k', 'refer': name})
        spec.features.add('keyref')


def xsd_el(e: El, spec: Spec, ind: str, top=False) -> str:
    t = 't:' if spec.tns else ''
    occ = ''
    if not top:
        lo, hi = e.occ
        if lo != 1:
            occ += f' minOccurs="{lo}"'
        if hi != 1:
            occ += ' maxOccurs="%s"' % ('unbounded' if hi is None else hi)
    if e.kind == 'ref':
        return f'{ind}<xs:element ref="{t}{e.ref}"{occ}/>\n'
    if e.kind == 'typed':
        return f'{ind}<xs:element name="{e.name}" type="{t}B"{occ}/>\n'
    if e.kind == 'simple':
        return f'{ind}<xs:element name="{e.name}" type="{e.stype}"{occ}/>\n'
    s = f'{ind}<xs:element name="{e.name}"{occ}>\n{ind} <xs:complexType{" mixed=\"true\"" if e.mixed else ""}><xs:sequence>\n'
    for c in e.children:
        s += xsd_el(c, spec, ind + '  ')
    if e.wild:
        s += f'{ind}  <xs:any namespace="##any" processContents="lax" minOccurs="0" maxOccurs="unbounded"/>\n'
    s += f'{ind} </xs:sequence>\n'
    for an, at, req in e.attrs:
        s += f'{ind} <xs:attribute name="{an}" type="{at}"{" use=\"required\"" if req else ""}/>\n'
    s += f'{ind} </xs:complexType>\n'
    for i in e.idents:
        rf = f' refer="{t}{i["refer"]}"' if 'refer' in i else ''
        s += (f'{ind} <xs:{i["kind"]} name="{i["name"]}"{rf}><xs:selector xpath="{i["selector"]}"/>'
              f'<xs:field xpath="{i["field"]}"/></xs:{i["kind"]}>\n')
    s += f'{ind}</xs:element>\n'
    return s


def gen_schema(rng, maxdepth: int = 3, tns: Optional[bool] = None, identities: Optional[bool] = None) -> Spec:
    spec = Spec()
    spec.tns = rng.random() < 0.4 if tns is None else tns
    spec.root = gen_el(rng, 'r', 0, maxdepth, spec, top=True)
    pre = 't:' if spec.tns else ''
    if identities is None:
        identities = rng.random() < 0.6
    if identities:
        add_identities(rng, spec, spec.root, pre)
        if rng.random() < 0.4:
            inner = [d for p, d in spec.root.walk() if len(p) == 2 and d.kind == 'complex']
            if inner:
                add_identities(rng, spec, rng.choice(inner), pre)
    t = 't:' if spec.tns else ''
    head = '<xs:schema xmlns:xs="http://www.w3.org/2001/XMLSchema"'
    if spec.tns:
        head += f' targetNamespace="{TNS}" xmlns:t="{TNS}" elementFormDefault="qualified"'
    head += '>\n'
    glob = (
        f' <xs:complexType name="B"><xs:sequence><xs:element name="a" type="xs:int"/></xs:sequence>'
        f'<xs:attribute name="k" type="xs:int"/></xs:complexType>\n'
        f' <xs:complexType name="D"><xs:complexContent><xs:extension base="{t}B"><xs:sequence>'
        f'<xs:element name="x" type="xs:int"/></xs:sequence></xs:extension></xs:complexContent></xs:complexType>\n'
        f' <xs:element name="h" type="xs:int"/>\n'
        f' <xs:element name="m" type="xs:short" substitutionGroup="{t}h"/>\n'
        f' <xs:element name="g"><xs:complexType><xs:sequence><xs:element name="x" type="xs:int" maxOccurs="unbounded"/>'
        f'</xs:sequence><xs:attribute name="k" type="xs:int"/></xs:complexType></xs:element>\n')
    spec.xsd = head + glob + xsd_el(spec.root, spec, ' ', top=True) + '</xs:schema>\n'
    return spec


# ------------------------------------------------------------------------------------------------
# documents

class N:
    """intended instance node"""
    def __init__(self, tag: str):
        self.tag = tag                 # local name
        self.attrs: list[tuple[str, str]] = []
        self.text: Optional[str] = None
        self.cs: list[N] = []
        self.decls: list[tuple[str, str]] = []
        self.xsi_type: Optional[str] = None
        # where the prefix `t` used by xsi:type="t:D" is declared (target namespace, default-namespace style only):
        # 'self' | 'parent' | 'inherit' (no declaration for it: an ancestor binds it - or nobody does)
        self.tdecl = 'self'
        self.rebind_before = False     # ask the parent to rebind `t` on the preceding sibling (must not leak to this one)
        self.root_t = False            # the root declares xmlns:t besides the default namespace
        self.tail: Optional[str] = None


def declares_t(n: 'N') -> bool:
    """the element itself binds prefix t to the target namespace when serialised in the default-namespace style"""
    return bool(n.xsi_type and n.tdecl == 'self') or any(c.xsi_type and c.tdecl == 'parent' for c in n.cs)


def uses_inherited_t(n: 'N') -> bool:
    return bool(n.xsi_type and n.tdecl == 'inherit') or any(uses_inherited_t(c) for c in n.cs)


def gen_value(rng, stype: str, perr: float, defects: list, scope: Optional[dict] = None,
              leak: Optional[dict] = None) -> str:
    if stype == 'xs:QName':
        # namespace-sensitive content: the prefix must be bound by the element or an ancestor; `leak` = prefixes bound
        # by the one or two preceding siblings (of this element or of an ancestor) only - they are NOT in scope here
        scope, leak = scope or {}, leak or {}
        unbound = sorted(p for p in leak if p and p not in scope)
        r = rng.random()
        if unbound and r < 0.4:
            defects.append('qname-prefix-of-preceding-sibling')
            return rng.choice(unbound) + ':v'
        if r < perr:
            defects.append('qname-unmapped')
            return 'zz9:v'
        bound = sorted(p for p in scope if p)
        if bound and rng.random() < 0.5:
            return rng.choice(bound) + ':v'
        return rng.choice(['v', 'name'])
    bad = rng.random() < perr
    if stype in ('xs:int', 'xs:short'):
        if bad:
            defects.append('bad-' + stype)
            return rng.choice(['bad', 'x1', '70000' if stype == 'xs:short' else '1.5'])
        return str(rng.choice([0, 1, 2, 7, 300, -5]))
    if stype == 'xs:boolean':
        if bad:
            defects.append('bad-bool')
            return 'maybe'
        return rng.choice(['true', 'false', '1', '0'])
    return rng.choice(['s', 'text', 'x y', ''])


def gen_node(rng, e: El, spec: Spec, perr: float, defects: list, depth: int, tagname: Optional[str] = None,
             scope: Optional[dict] = None, leak: Optional[dict] = None, style: str = 'default') -> N:
    """scope: prefix -> URI bound by the ancestors; leak: bindings made by the one or two preceding siblings of this
    element or of an ancestor that are not in scope here (they must not be visible: namespace scope across siblings)"""
    n = N(tagname or e.name)
    scope = dict(scope or {})
    leak = dict(leak or {})
    if rng.random() < 0.12:
        n.decls.append((rng.choice(['p', 'q', 'p']), rng.choice(['urn:n1', 'urn:n2', 'urn:n3'])))
        if rng.random() < 0.3:
            n.decls.append(('q2', 'urn:n4'))
    if depth == 1 and rng.random() < 0.2 and not any(p == 'q' for p, _ in n.decls):
        # elements of the lazy depth declare / rebind prefixes more often (used or not by the following siblings)
        n.decls.append(('q', rng.choice(['urn:n1', 'urn:n5'])))
    scope.update(n.decls)
    leak = {p: u for p, u in leak.items() if scope.get(p) != u}
    if e.kind == 'ref' and e.ref == 'h' or e.kind == 'h':
        # head or member of the substitution group
        if n.tag == 'm':
            if rng.random() < max(perr, 0.15):
                n.text = rng.choice(['70000', '40000'])      # valid for the head (int), not for the member (short)
                defects.append('member-range')
            else:
                n.text = gen_value(rng, 'xs:short', perr, defects)
        else:
            n.text = gen_value(rng, 'xs:int', perr, defects)
        return n
    if e.kind == 'ref' and e.ref == 'g' or e.kind == 'g':
        for _ in range(rng.choice([1, 1, 2])):
            x = N('x')
            x.text = gen_value(rng, 'xs:int', perr, defects)
            n.cs.append(x)
        if rng.random() < 0.5:
            n.attrs.append(('k', gen_value(rng, 'xs:int', perr, defects)))
        return n
    if e.kind == 'typed':
        a = N('a')
        a.text = gen_value(rng, 'xs:int', perr, defects)
        n.cs.append(a)
        if rng.random() < 0.5:
            n.xsi_type = 'D'
            x = N('x')
            x.text = gen_value(rng, 'xs:int', max(perr, 0.3), defects)
            n.cs.append(x)
            defects.append('xsi-type')
            # where the prefix of the xsi:type value is declared (only matters with a target namespace and the
            # default-namespace style): on the element itself, on its parent (then it is in scope for the element
            # only through an ancestor that is not the root when the parent is below the root), or nowhere near:
            # inherited from an ancestor - or only "visible" on a preceding sibling, which is an unbound prefix
            r = rng.random()
            if spec.tns and style != 'prefix':
                # more often on elements of the lazy depth: there nobody but the lazy driver manages the scope
                if scope.get('t') == TNS and r < (0.8 if depth == 1 else 0.5):
                    n.tdecl = 'inherit'
                    n.rebind_before = rng.random() < 0.7
                elif leak.get('t') == TNS and r < (0.6 if depth == 1 else 0.4):
                    n.tdecl = 'inherit'
                    defects.append('xsi-type-prefix-of-preceding-sibling')
                else:
                    n.tdecl = 'parent' if rng.random() < 0.3 else 'self'
        return n
    if e.kind == 'simple':
        n.text = gen_value(rng, e.stype, perr, defects, scope, leak)
        return n
    # complex
    for an, at, req in e.attrs:
        if req or rng.random() < 0.75:
            if at == 'xs:int':
                if rng.random() < perr:
                    defects.append('bad-attr')
                    n.attrs.append((an, 'zz'))
                else:
                    n.attrs.append((an, str(rng.choice([1, 2, 3, 4, 5, 6]))))
            elif at == 'xs:ID':
                n.attrs.append((an, 'i%d' % rng.choice([1, 2, 3, 4, 5, 6, 7, 8])))
            else:
                n.attrs.append((an, 'i%d' % rng.choice([1, 2, 3, 4, 5, 6, 7, 8, 9])))
    if e.mixed and rng.random() < 0.5:
        n.text = 'mixed'
    def sibling_leak() -> dict:
        out = dict(leak)
        for sib in n.cs[-2:]:
            out.update(sib.decls)
            if spec.tns and style != 'prefix' and declares_t(sib):
                out['t'] = TNS
        return out
    for c in e.children:
        lo, hi = c.occ
        hi2 = lo + 2 if hi is None else hi
        k = rng.randint(lo, hi2)
        r = rng.random()
        if r < perr / 2 and k > 0:
            k -= 1
            defects.append('missing' if k < lo else 'fewer')
        elif r < perr and hi is not None:
            k = hi + 1
            defects.append('too-many')
        for _ in range(k):
            tagname = None
            if c.kind == 'ref' and c.ref == 'h' and rng.random() < 0.5:
                tagname = 'm'
            child = gen_node(rng, c, spec, perr, defects, depth + 1, tagname, scope, sibling_leak(), style)
            if child.rebind_before and n.cs:
                prev = n.cs[-1]
                if not prev.xsi_type and not declares_t(prev) and not uses_inherited_t(prev) \
                        and not any(p == 't' for p, _ in prev.decls):
                    prev.decls.append(('t', OTHER))      # a rebinding that ends with the preceding sibling
                    defects.append('rebinding-on-preceding-sibling')
            n.cs.append(child)
        if rng.random() < perr / 2:
            n.cs.append(N('zz'))
            defects.append('unexpected')
    if e.wild:
        for _ in range(rng.choice([0, 1, 2, 3])):
            w = rng.choice(['h', 'm', 'g', 'zz', 'm'])
            if w == 'zz':
                z = N('zz')
                n.cs.append(z)
            else:
                fake = El(w)
                fake.kind = 'g' if w == 'g' else 'h'
                n.cs.append(gen_node(rng, fake, spec, max(perr, 0.3), defects, depth + 1, w, scope, sibling_leak(), style))
            defects.append('wild:' + w)
    elif not n.cs and not e.children:
        pass
    # character data in element-only content: stray text before the first child or after a child (an error
    # owned by this element, not by a child), and harmless white space between children
    if not e.mixed and n.cs:
        r = rng.random()
        p_stray = max(perr, 0.05) if depth == 0 else perr / 2
        if r < p_stray:
            if rng.random() < 0.5:
                n.text = rng.choice(['stray', ' x '])
            else:
                rng.choice(n.cs).tail = rng.choice(['stray', ' y'])
            defects.append('chardata')
        elif r < p_stray + 0.1:
            n.text = '\n  '
            for c in n.cs:
                c.tail = '\n  '
    return n


def serialise(n: N, spec: Spec, style: str, top=True, mark: Optional[list] = None) -> str:
    """style: 'default' (xmlns=tns at the root) | 'prefix' (t:name) — only relevant with a target namespace.
    mark=[0]: add a unique attribute n="<preorder index>" to every element (iteration checks)."""
    pre = 't:' if (spec.tns and style == 'prefix') else ''
    s = f'<{pre}{n.tag}'
    if mark is not None:
        s += f' n="{mark[0]}"'
        mark[0] += 1
    own_t = False                      # xmlns:t already written on this element
    if top:
        if spec.tns:
            s += f' xmlns:t="{TNS}"' if style == 'prefix' else f' xmlns="{TNS}"'
            own_t = style == 'prefix'
            if style != 'prefix' and n.root_t:
                s += f' xmlns:t="{TNS}"'
                own_t = True
        s += f' xmlns:xsi="{XSI}"'
    needs_t = spec.tns and style != 'prefix' and declares_t(n)
    for p, u in n.decls:
        if p == 't' and (own_t or needs_t or not (spec.tns and style != 'prefix')):
            continue                   # never two bindings of one prefix on one element; rebinding only in the default style
        s += f' xmlns:{p}="{u}"'
    if needs_t and not own_t:
        s += f' xmlns:t="{TNS}"'      # for its own xsi:type, or for the children that use it in their xsi:type
    if n.xsi_type:
        s += f' xsi:type="{'t:' if spec.tns else ''}{n.xsi_type}"'
    seen = set()
    for k, v in n.attrs:
        if k in seen:
            continue
        seen.add(k)
        s += f' {k}="{v}"'
    if not n.cs and not n.text:
        return s + '/>'
    s += '>' + (n.text or '')
    for c in n.cs:
        s += serialise(c, spec, style, False, mark) + (c.tail or '')
    return s + f'</{pre}{n.tag}>'


def gen_doc(rng, spec: Spec, perr: float = 0.04, style: Optional[str] = None):
    """returns (xml bytes, xml bytes with n= marks, defects, style)"""
    defects: list = []
    style = style or rng.choice(['default', 'prefix'])
    scope = {'xsi': XSI}
    root_t = False
    if spec.tns and style == 'prefix':
        scope['t'] = TNS
    elif spec.tns:
        scope[''] = TNS
        # the root binds prefix t as well: inherited by xsi:type="t:D" below (more often when its children can use it)
        root_t = rng.random() < (0.7 if any(c.kind == 'typed' for c in spec.root.children) else 0.3)
        if root_t:
            scope['t'] = TNS
    root = gen_node(rng, spec.root, spec, perr, defects, 0, None, scope, {}, style)
    root.root_t = root_t
    return serialise(root, spec, style).encode(), serialise(root, spec, style, mark=[0]).encode(), defects, style


def build_schema(spec: Spec):
    import xmlschema
    return xmlschema.XMLSchema(spec.xsd)


# ------------------------------------------------------------------------------------------------
# introspection of the loaded (eager) tree

def doc_tree(resource) -> tuple[dict, dict]:
    """Nested nodes {'id','tag','decls','cs'} with preorder ids, and a map id(elem) -> node id."""
    ids: dict[int, int] = {}
    counter = [0]

    def rec(elem) -> dict:
        nid = counter[0]
        counter[0] += 1
        ids[id(elem)] = nid
        decls = resource.get_xmlns(elem) or []
        return {'id': nid, 'tag': elem.tag, 'decls': [[p, u] for p, u in decls],
                'cs': [rec(c) for c in elem if not callable(c.tag)]}
    return rec(resource.root), ids


def flat(tree: dict, depth: int = 0, parent: Optional[int] = None, out: Optional[list] = None) -> list:
    """preorder list of (id, depth, parent id, node)"""
    if out is None:
        out = []
    out.append((tree['id'], depth, parent, tree))
    for c in tree['cs']:
        flat(c, depth + 1, tree['id'], out)
    return out


def in_scope(tree: dict, ctx: Optional[dict] = None, out: Optional[dict] = None) -> dict:
    """XML semantics: in-scope prefix map of every node = declarations of the ancestors-or-self, inner wins."""
    if out is None:
        out = {}
    m = dict(ctx or {})
    for p, u in tree['decls']:
        m[p] = u
    out[tree['id']] = m
    for c in tree['cs']:
        in_scope(c, m, out)
    return out
