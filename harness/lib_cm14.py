"""
C14 helpers on top of lib_cm: schemas that declare a base complex type and candidate restrictions
of it, the systematic candidate generator, and the introspection of a (derived, base) pair of built
content groups into the JSON read by drv_c14.

AST (compatible with lib_cm): ('e', name, lo, hi) | ('a', ns_constraint, lo, hi) | ('g', kind, lo, hi, [items])
element names: a b c h s (target namespace; s substitutes h) and o (= element z of namespace urn:o).
"""
from __future__ import annotations

from typing import Any, Iterator, Optional
from xml.etree import ElementTree as ET

from harness import lib_cm as cm

TNS, ONS, XSD = cm.TNS, cm.ONS, cm.XSD
PNS = 'urn:p'

# instance symbols: the ones of lib_cm plus an undeclared name of the target namespace, a name of a
# third namespace and a name without namespace (representatives of every class a wildcard can tell apart)
cm.SYMS.setdefault('u', (TNS, 'u'))
cm.SYMS.setdefault('y', (PNS, 'y'))
cm.SYMS.setdefault('n', ('', 'n'))
cm.SYMS.setdefault('v', (ONS, 'v'))          # a second name of urn:o (notQName o:z tells it from `o`)
SYMS = cm.SYMS
WILD_REPS = ['a', 'u', 'o', 'v', 'y', 'n']
WILD_NS = ['##any', '##other', 'urn:o', 'urn:t', 'urn:t urn:o']
# XSD 1.1 wildcards.  The namespace field of a wildcard leaf is a list of tokens: namespaces (as before),
# `-x` = the name of symbol x is in notQName, `!ns` = ns is in notNamespace (then no namespace attribute)
WILD_NS11 = ['##any -a', '##any -o', '##any -a -o', '##other -o', 'urn:t urn:o -a', '!urn:o', '!##local',
             '!##targetNamespace', '!urn:o -a', 'urn:t -u']


def wc_parts(s: str) -> tuple[list[str], list[str], list[str]]:
    toks = s.split()
    return ([t for t in toks if t[0] not in '-!'], [t[1:] for t in toks if t[0] == '-'],
            [t[1:] for t in toks if t[0] == '!'])


def ns_value(tok: str) -> str:
    return '' if tok == '##local' else TNS if tok == '##targetNamespace' else tok

ONS_SCHEMA = (f'<xs:schema xmlns:xs="{XSD}" targetNamespace="{ONS}" elementFormDefault="qualified">'
              '<xs:element name="z" type="xs:string"/></xs:schema>')

HEAD = (f'<xs:schema xmlns:xs="{XSD}" targetNamespace="{TNS}" xmlns:t="{TNS}" xmlns:o="{ONS}" '
        'elementFormDefault="qualified">\n'
        f'<xs:import namespace="{ONS}"/>\n'
        '<xs:element name="a" type="xs:string"/><xs:element name="b" type="xs:string"/>'
        '<xs:element name="c" type="xs:string"/><xs:element name="h" type="xs:string"/>'
        '<xs:element name="s" type="xs:string" substitutionGroup="t:h"/>'
        '<xs:element name="q" type="xs:string" substitutionGroup="t:h" abstract="true"/>'
        '<xs:element name="d" type="xs:string" substitutionGroup="t:q"/>\n')

# declared substitution closure (instance level): h admits s and d (d through the abstract member q)
SUBST = {'h': ['s', 'd']}


def to_xsd(ast: tuple, defs: Optional[list] = None, shared: Optional[dict] = None) -> str:
    """`defs` collects the global <xs:group> definitions of the nodes marked as references
    (('g', kind, lo, hi, items, 'ref'), the marking of lib_cm.with_refs); equal groups share one definition"""
    t = ast[0]
    if t == 'e':
        ref = 'o:z' if ast[1] == 'o' else 't:' + ast[1]
        return f'<xs:element ref="{ref}"{cm.occ_attrs(ast[2], ast[3])}/>'
    if t == 'a':
        ns, notq, notns = wc_parts(ast[1])
        attrs = f' namespace="{' '.join(ns)}"' if not notns else f' notNamespace="{' '.join(notns)}"'
        if notq:
            attrs += ' notQName="%s"' % ' '.join('o:' + SYMS[x][1] if SYMS[x][0] == ONS else 't:' + SYMS[x][1] for x in notq)
        return f'<xs:any{attrs} processContents="lax"{cm.occ_attrs(ast[2], ast[3])}/>'
    if len(ast) > 5 and ast[5] == 'ref' and defs is not None:
        inner = f'<xs:{ast[1]}>' + ''.join(to_xsd(i, defs, shared) for i in ast[4]) + f'</xs:{ast[1]}>'
        if shared is not None and inner in shared:
            name = shared[inner]
        else:
            name = f'G{len(defs)}'
            defs.append(f'<xs:group name="{name}">{inner}</xs:group>')
            if shared is not None:
                shared[inner] = name
        return f'<xs:group ref="t:{name}"{cm.occ_attrs(ast[2], ast[3])}/>'
    return (f'<xs:{ast[1]}{cm.occ_attrs(ast[2], ast[3])}>' + ''.join(to_xsd(i, defs, shared) for i in ast[4])
            + f'</xs:{ast[1]}>')


def expand_refs(ast: tuple) -> tuple:
    """the particle tree that a marked AST is built into: a reference is a group (with the occurrences of the
    reference) whose only item is the named group"""
    if ast[0] != 'g':
        return ast
    items = [expand_refs(i) for i in ast[4]]
    if len(ast) > 5 and ast[5] == 'ref':
        return ('g', ast[1], ast[2], ast[3], [('g', ast[1], 1, 1, items)])
    return ('g', ast[1], ast[2], ast[3], items)


def has_refs(ast: tuple) -> bool:
    return ast[0] == 'g' and ((len(ast) > 5 and ast[5] == 'ref') or any(has_refs(i) for i in ast[4]))


def leaf_matches(leaf: tuple, sym: str) -> bool:
    if leaf[0] == 'e':
        return sym == leaf[1] or sym in SUBST.get(leaf[1], [])
    ns = SYMS[sym][0]
    nss, notq, notns = wc_parts(leaf[1])
    if any(SYMS[x] == SYMS[sym] for x in notq):
        return False
    if notns:
        return ns not in [ns_value(t) for t in notns]
    if nss == ['##any']:
        return True
    if nss == ['##other']:
        return ns not in ('', TNS)
    return ns in [ns_value(t) for t in nss]


# lib_cm's reference matcher is given the extended wildcard syntax (every check runs in its own process)
cm.leaf_matches = leaf_matches


def alphabet(d: tuple, b: tuple) -> list[str]:
    """symbols that can occur in a word of L(d): element names (and substitutes) of either model, plus the
    class representatives when the derived model has a wildcard"""
    out: list[str] = []
    for l in cm.leaves(d) + cm.leaves(b):
        if l[0] == 'e':
            for s in [l[1]] + SUBST.get(l[1], []):
                if s not in out:
                    out.append(s)
    if any(l[0] == 'a' for l in cm.leaves(d)):
        for s in WILD_REPS:
            if s not in out:
                out.append(s)
    return out


# ---------------------------------------------------------------------------------------------
# candidate restrictions

def paths(ast: tuple, prefix: tuple = ()) -> Iterator[tuple]:
    yield prefix
    if ast[0] == 'g':
        for k, i in enumerate(ast[4]):
            yield from paths(i, prefix + (k,))


def get(ast: tuple, path: tuple) -> tuple:
    for k in path:
        ast = ast[4][k]
    return ast


def put(ast: tuple, path: tuple, new: Optional[Any]) -> tuple:
    """replace the node at path (new=None deletes it, a list splices its elements)"""
    if not path:
        assert isinstance(new, tuple)
        return new
    items = list(ast[4])
    k = path[0]
    if len(path) == 1:
        if new is None:
            del items[k]
        elif isinstance(new, list):
            items[k:k + 1] = new
        else:
            items[k] = new
    else:
        items[k] = put(items[k], path[1:], new)
    return ('g', ast[1], ast[2], ast[3], items)


def with_occ(node: tuple, lo: int, hi: Optional[int]) -> tuple:
    return node[:2] + (lo, hi) + node[4:]


def occ_variants(lo: int, hi: Optional[int]) -> list[tuple[str, int, Optional[int]]]:
    out = []
    if hi is None or lo + 1 <= hi:
        out.append(('occ-tighten-min', lo + 1, hi))
    if hi is not None and hi - 1 >= lo:
        out.append(('occ-tighten-max', lo, hi - 1))
    if hi is None:
        out.append(('occ-tighten-max', lo, lo + 1))
        out.append(('occ-tighten-max', lo, max(lo, 1)))
    if hi is not None and hi != lo:
        out.append(('occ-tighten-both', hi, hi))
        out.append(('occ-tighten-both', lo, lo))
    if lo > 0:
        out.append(('occ-widen-min', lo - 1, hi))
        out.append(('occ-widen-min', 0, hi))
    if hi is not None:
        out.append(('occ-widen-max', lo, hi + 1))
        out.append(('occ-widen-max', lo, None))
    if (lo, hi) != (0, 0):
        out.append(('occ-zero', 0, 0))
    seen = set()
    res = []
    for t, a, b in out:
        if (a, b) not in seen and (a, b) != (lo, hi):
            seen.add((a, b))
            res.append((t, a, b))
    return res


def candidates(base: tuple, v11: bool) -> list[tuple[str, tuple]]:
    """systematic candidate restrictions of `base`: (kind of change, derived AST)"""
    out: list[tuple[str, tuple]] = [('same', base)]
    used = {l[1] for l in cm.leaves(base) if l[0] == 'e'}
    fresh = next((n for n in ('c', 'b', 'a', 'o') if n not in used), 'c')
    for p in paths(base):
        node = get(base, p)
        for tag, lo, hi in occ_variants(node[2], node[3]):
            out.append((tag, put(base, p, with_occ(node, lo, hi))))
        if p:
            out.append(('drop', put(base, p, None)))
            out.append(('wrap', put(base, p, ('g', 'sequence', 1, 1, [node]))))
            out.append(('add-before', put(base, p, [('e', fresh, 1, 1), node])))
            out.append(('add-optional-before', put(base, p, [('e', fresh, 0, 1), node])))
        if node[0] == 'g':
            kind, items = node[1], node[4]
            out.append(('add-last', put(base, p, ('g', kind, node[2], node[3], items + [('e', fresh, 1, 1)]))))
            out.append(('add-optional-last', put(base, p, ('g', kind, node[2], node[3], items + [('e', fresh, 0, None)]))))
            out.append(('empty-group', put(base, p, ('g', kind, node[2], node[3], []))))
            for k2 in ('sequence', 'choice') + (('all',) if not p else ()):
                if k2 != kind:
                    out.append((f'model-{kind}-to-{k2}', put(base, p, ('g', k2, node[2], node[3], items))))
            if kind == 'choice' and len(items) >= 2:
                for i, it in enumerate(items):
                    out.append(('branch-choice1', put(base, p, ('g', 'choice', node[2], node[3], [it]))))
                    out.append(('branch-seq1', put(base, p, ('g', 'sequence', node[2], node[3], [it]))))
                    out.append(('branch-drop', put(base, p, ('g', 'choice', node[2], node[3], items[:i] + items[i + 1:]))))
                    if p and (node[2], node[3]) == (1, 1):
                        out.append(('branch-unwrap', put(base, p, it)))
            if len(items) >= 2:
                for i in range(len(items) - 1):
                    sw = items[:i] + [items[i + 1], items[i]] + items[i + 2:]
                    out.append(('swap', put(base, p, ('g', kind, node[2], node[3], sw))))
                out.append(('nest', put(base, p, ('g', kind, node[2], node[3], [('g', kind, 1, 1, items)]))))
                if p and (node[2], node[3]) == (1, 1):
                    out.append(('flatten', put(base, p, list(items))))
        elif node[0] == 'e':
            out.append(('elem-to-wildcard', put(base, p, ('a', '##any', node[2], node[3]))))
            ren = {'a': 'b', 'b': 'a', 'c': 'a', 'h': 's', 's': 'h', 'o': 'a'}[node[1]]
            out.append(('rename', put(base, p, ('e', ren, node[2], node[3]))))
        else:
            for n in ('a', 'o', 'h'):
                ok = leaf_matches(node, n)
                out.append(('wildcard-to-elem' if ok else 'wildcard-to-foreign-elem',
                            put(base, p, ('e', n, node[2], node[3]))))
            out.append(('wildcard-to-2elems', put(base, p, [('e', 'a', node[2], node[3]), ('e', 'o', 0, 1)])))
            for ns in WILD_NS + (WILD_NS11 if v11 else []):
                if ns != node[1]:
                    out.append(('wildcard-ns' if ns in WILD_NS else 'wildcard-ns11', put(base, p, ('a', ns, node[2], node[3]))))
    seen = set()
    res = []
    for tag, d in out:
        k = repr(d)
        if k not in seen and d[0] == 'g':
            seen.add(k)
            res.append((tag, d))
    return res


def kind_change_candidates(base: tuple, v11: bool) -> list[tuple[str, tuple]]:
    """restrictions whose group differs from the base group in MODEL KIND (sequence / choice / all), combined with
    keeping one item only, dropping the first / last / a middle item, and wrapping the kept item in a single-branch
    group; for every group node of the base (all only at the root and over elements)"""
    out: list[tuple[str, tuple]] = [('same', base)]
    for p in paths(base):
        node = get(base, p)
        if node[0] != 'g':
            continue
        kind, items = node[1], list(node[4])
        subsets: list[tuple[str, list]] = [('all-items', items)]
        for i, it in enumerate(items):
            subsets.append((f'keep-one[{i}]', [it]))
        if len(items) >= 2:
            subsets.append(('drop-first', items[1:]))
            subsets.append(('drop-last', items[:-1]))
        if len(items) >= 3:
            subsets.append(('drop-middle', items[:1] + items[2:]))
        for k2 in ('sequence', 'choice') + (('all',) if not p else ()):
            for tag, sub in subsets:
                if k2 == kind and tag == 'all-items':
                    continue
                if k2 == 'all' and not all(x[0] == 'e' and (v11 or (x[3] is not None and x[3] <= 1)) for x in sub):
                    continue
                out.append((f'kind-{kind}-to-{k2}+{tag}', put(base, p, ('g', k2, node[2], node[3], sub))))
                if len(sub) == 1 and k2 != 'all':
                    for k3 in ('sequence', 'choice'):
                        out.append((f'kind-{kind}-to-{k2}+{tag}+wrap-{k3}',
                                    put(base, p, ('g', k2, node[2], node[3], [('g', k3, 1, 1, sub)]))))
                    if (node[2], node[3]) != (1, 1):
                        out.append((f'kind-{kind}-to-{k2}+{tag}+occ11', put(base, p, ('g', k2, 1, 1, sub))))
    seen, res = set(), []
    for tag, d in out:
        if repr(d) not in seen and d[0] == 'g':
            seen.add(repr(d))
            res.append((tag, d))
    return res


def kind_change_base(rng, v11: bool) -> tuple:
    """small groups of every kind with required and optional items, some nested, some with a single item"""
    names = ['a', 'b', 'c', 'h', 'o']
    occ = [(1, 1), (1, 1), (0, 1), (1, 2), (0, None), (1, None), (2, 2)]

    def leaf() -> tuple:
        if rng.random() < 0.1:
            return ('a', rng.choice(WILD_NS)) + rng.choice(occ)
        return ('e', rng.choice(names)) + rng.choice(occ)
    kind = rng.choice(['sequence', 'sequence', 'choice', 'choice', 'all'])
    if kind == 'all':
        aocc = [(1, 1), (0, 1)] + ([(1, 2), (0, None)] if v11 else [])
        return ('g', 'all') + rng.choice([(1, 1), (0, 1)]) + ([('e', n) + rng.choice(aocc) for n in rng.sample(names, rng.randint(1, 3))],)
    items = []
    for n in rng.sample(names, rng.randint(1, 3)):
        if rng.random() < 0.2:
            k = rng.choice(['sequence', 'choice'])
            items.append(('g', k) + rng.choice([(1, 1), (0, 1), (1, 2)]) + ([('e', n) + rng.choice(occ), leaf()][:rng.randint(1, 2)],))
        else:
            items.append(('e', n) + rng.choice(occ))
    return ('g', kind) + rng.choice([(1, 1), (1, 1), (0, 1), (1, 2), (1, None)]) + (items,)


OCCS = [(1, 1)] * 4 + [(0, 1)] * 3 + [(0, None), (1, None), (2, 2), (1, 2), (0, 2), (2, 3), (2, None), (0, 0), (1, 3)]


def random_base(rng, v11: bool) -> tuple:
    names = ['a', 'b', 'c', 'h', 'o']
    max_items = 3

    def leaf() -> tuple:
        lo, hi = rng.choice(OCCS)
        if rng.random() < 0.15:
            return ('a', rng.choice(WILD_NS + WILD_NS11 if v11 and rng.random() < 0.5 else WILD_NS), lo, hi)
        return ('e', rng.choice(names), lo, hi)

    def group(d: int, top: bool) -> tuple:
        kinds = ['sequence'] * 3 + ['choice'] * 3 + (['all'] if top else [])
        kind = rng.choice(kinds)
        lo, hi = rng.choice(OCCS)
        if kind == 'all':
            lo, hi = rng.choice([(1, 1), (0, 1)])
            ns = rng.sample(names, rng.randint(1, 4))
            occ = [(1, 1), (0, 1), (0, 2), (1, 2), (0, None)] if v11 else [(1, 1), (0, 1)]
            items = [('e', x) + rng.choice(occ) for x in ns]
            if v11 and rng.random() < 0.3:
                items.append(('a', rng.choice(WILD_NS + WILD_NS11[:4])) + rng.choice([(0, 1), (1, 1), (0, None)]))
            return ('g', 'all', lo, hi, items)
        items = []
        for _ in range(rng.randint(1, max_items)):
            if d > 1 and rng.random() < 0.4:
                items.append(group(d - 1, False))
            else:
                items.append(leaf())
        return ('g', kind, lo, hi, items)

    return group(rng.choice([1, 2, 2, 3]), True)


# ---------------------------------------------------------------------------------------------
# schemas and introspection

def schema_text(bases: list[tuple], derived: list[list[tuple]]) -> str:
    body = []
    defs: list = []
    for i, b in enumerate(bases):
        shared: dict = {}          # the base and its candidates share the named groups that they have in common
        body.append(f'<xs:complexType name="B{i}">{to_xsd(b, defs, shared)}</xs:complexType><xs:element name="eb{i}" type="t:B{i}"/>')
        for j, d in enumerate(derived[i]):
            body.append(f'<xs:complexType name="D{i}_{j}"><xs:complexContent><xs:restriction base="t:B{i}">'
                        f'{to_xsd(d, defs, shared)}</xs:restriction></xs:complexContent></xs:complexType>'
                        f'<xs:element name="ed{i}_{j}" type="t:D{i}_{j}"/>')
    return HEAD + '\n'.join(defs + body) + '</xs:schema>'


def build(bases: list[tuple], derived: list[list[tuple]], v11: bool, validation: str = 'lax'):
    import xmlschema
    cls = xmlschema.XMLSchema11 if v11 else xmlschema.XMLSchema10
    return cls([schema_text(bases, derived), ONS_SCHEMA], validation=validation)


def qn(name: Optional[str]) -> Optional[list[str]]:
    return None if name is None else cm.split_qname(name)


# which zero-occurrence / empty-group clauses the tree under check implements: the pinned ones (part of
# finding C14-F0) or the repaired ones of notes/fixes/C14-zero-occurs-and-empty-group.patch
REPAIRED = {'on': False}


def detect_repaired() -> bool:
    """the witness of wildcard_zero_counterexample decides (any{0,0} against a required wildcard)"""
    b = ('g', 'sequence', 1, 1, [('a', '##any', 1, 1)])
    d = ('g', 'sequence', 1, 1, [('a', '##any', 0, 0)])
    REPAIRED['on'] = bool(build([b], [[d]], False).all_errors)
    return REPAIRED['on']


REPAIRED_OC = {'on': False}
OC_NS = ['##any', '##other', 'urn:o', '##any -a', 'urn:t urn:o']


def oc_xml(oc: Optional[tuple]) -> str:
    """oc = None | ('none',) | (mode, wildcard tokens)"""
    if oc is None:
        return ''
    if oc[0] == 'none':
        return '<xs:openContent mode="none"/>'
    anyx = to_xsd(('a', oc[1], 1, 1)).replace(' processContents="lax"', ' processContents="lax"')
    return f'<xs:openContent mode="{oc[0]}">{anyx}</xs:openContent>'


def schema_text_oc(bases: list[tuple], derived: list[list[tuple]]) -> str:
    """bases: [(model, oc)], derived: [[(model, oc)]]"""
    body = []
    for i, (b, ocb) in enumerate(bases):
        body.append(f'<xs:complexType name="B{i}">{oc_xml(ocb)}{to_xsd(b)}</xs:complexType><xs:element name="eb{i}" type="t:B{i}"/>')
        for j, (d, ocd) in enumerate(derived[i]):
            body.append(f'<xs:complexType name="D{i}_{j}"><xs:complexContent><xs:restriction base="t:B{i}">'
                        f'{oc_xml(ocd)}{to_xsd(d)}</xs:restriction></xs:complexContent></xs:complexType>'
                        f'<xs:element name="ed{i}_{j}" type="t:D{i}_{j}"/>')
    return HEAD + '\n'.join(body) + '</xs:schema>'


def build_oc(bases: list, derived: list) -> Any:
    import xmlschema
    return xmlschema.XMLSchema11([schema_text_oc(bases, derived), ONS_SCHEMA], validation='lax')


def detect_repaired_oc() -> bool:
    """the witness of C14-F7 decides: an empty derived content group with a wider open content"""
    b = (('g', 'sequence', 1, 1, [('e', 'a', 0, 1)]), ('interleave', 'urn:o'))
    d = (('g', 'sequence', 1, 1, []), ('interleave', '##any'))
    REPAIRED_OC['on'] = bool(build_oc([b], [[d]]).all_errors)
    return REPAIRED_OC['on']


def intro_oc(oc: Any, intro: 'PairIntrospector') -> Optional[dict]:
    """the built XsdOpenContent → the JSON read by drv_c14"""
    from harness.props.c16 import introspect as wc_introspect
    if oc is None:
        return None
    out: dict = {'mode': oc.mode, 'w': None}
    if oc.any_element is not None:
        out['id'] = intro.oid(oc.any_element)
        intro.info.append({'id': out['id'], 'pc': oc.any_element.process_contents})
        out['w'] = wc_introspect(oc.any_element)
    return out


def oc_of_json(j: Optional[dict]) -> Optional[tuple]:
    if j is None:
        return None
    if j['mode'] == 'none' or j['w'] is None:
        return (j['mode'],)
    return (j['mode'], ast_of_json({'t': 'a', 'w': j['w'], 'lo': 1, 'hi': 1})[1])


def canon_oc(oc: Optional[tuple]) -> Optional[tuple]:
    if oc is None or len(oc) == 1:
        return oc
    return (oc[0], canon_ns(('a', oc[1], 1, 1))[1])


def ref_accepts_t(ast: tuple, oc: Optional[tuple], word: list[str]) -> bool:
    """reference language of a type: content model under its open content"""
    if oc is None or oc[0] == 'none':
        return cm.ref_accepts(ast, word)
    return cm.ref_accepts_oc(ast, word, oc)


class PairIntrospector:
    """derived and base content groups serialised with shared ids (= object identity), plus the
    per-particle facts the restriction rules read from the schema (`info`)"""

    def __init__(self, derived: Any, base: Any):
        self.ids: dict[int, int] = {}
        self.objs: list[Any] = []
        self.info: list[dict] = []
        self.types: dict[int, Any] = {}
        self.d = self.walk(derived)
        self.b = self.walk(base)
        ts = list(self.types.values())
        self.deriv_ok = []
        for x in ts:
            for y in ts:
                if x is not y and (x.elem is y.elem or x.is_derived(y, 'restriction')):
                    self.deriv_ok.append([self.type_id(x), self.type_id(y)])

    def oid(self, obj: Any) -> int:
        k = id(obj)
        if k not in self.ids:
            self.ids[k] = len(self.objs)
            self.objs.append(obj)
        return self.ids[k]

    def type_id(self, t: Any) -> int:
        self.types.setdefault(id(t), t)
        return list(self.types).index(id(t)) + 1

    def walk(self, p: Any) -> dict:
        from xmlschema.validators import XsdGroup, XsdAnyElement
        from harness.props.c16 import introspect as wc_introspect
        known = id(p) in self.ids
        pid = self.oid(p)
        hi = p.max_occurs
        if isinstance(p, XsdGroup):
            if not known:
                inf = {'id': pid, 'gref': p.ref is not None, 'hasParent': p.parent is not None,
                       'mixed': bool(p.mixed)}
                if p.name is not None:
                    inf['gname'] = qn(p.name)
                self.info.append(inf)
            return {'t': 'g', 'id': pid, 'k': p.model, 'lo': p.min_occurs, 'hi': hi,
                    'items': [self.walk(i) for i in p]}   # the items the restriction rules iterate (for a reference: the named group)
        if isinstance(p, XsdAnyElement):
            if not known:
                self.info.append({'id': pid, 'pc': p.process_contents})
            return {'t': 'a', 'id': pid, 'lo': p.min_occurs, 'hi': hi, 'w': wc_introspect(p), 'prec': []}
        own = cm.split_qname(p.name)
        # the oracle is given the *declared* instance-level substitution closure
        names = [own] + [[own[0], x] for x in SUBST.get(own[1], [])] if own[0] == TNS else [own]
        if not known:
            maps = p.maps
            inf = {'id': pid, 'refTruthy': bool(p.ref), 'isHead': p.name in maps.substitution_groups,
                   'isGlobal': p.name in maps.elements, 'abstract': bool(p.abstract),
                   'subs': [qn(e.name) for e in p.iter_substitutes()],
                   'typeId': self.type_id(p.type), 'typeIsAny': p.type.name == '{%s}anyType' % XSD,
                   'typeAbstract': bool(getattr(p.type, 'abstract', False)), 'nillable': bool(p.nillable),
                   'block': p.block.split(), 'idents': [self.oid(k) for k in p.identities]}
            if p.substitution_group is not None:
                inf['substGroup'] = qn(p.substitution_group)
            if p.fixed is not None:
                inf['fixed'] = str(p.type.normalize(p.fixed))
            self.info.append(inf)
        return {'t': 'e', 'id': pid, 'lo': p.min_occurs, 'hi': hi, 'names': names}

    def request(self, v11: bool, sig: list[str], fuel: int, words: Optional[list[list[str]]] = None) -> dict:
        r = {'op': 'pair', 'v11': v11, 'repaired': REPAIRED['on'], 'repairedOC': REPAIRED_OC['on'], 'n': len(self.objs), 'd': self.d, 'b': self.b, 'info': self.info,
             'derivOk': self.deriv_ok, 'sig': [list(SYMS[s]) for s in sig], 'fuel': fuel}
        if words is not None:
            r['words'] = [cm.word_json(w) for w in words]
        return r


def ast_of_json(j: dict) -> tuple:
    if j['t'] == 'g':
        return ('g', j['k'], j['lo'], j['hi'], [ast_of_json(i) for i in j['items']])
    if j['t'] == 'e':
        loc = j['names'][0][1]
        return ('e', 'o' if j['names'][0][0] == ONS else loc, j['lo'], j['hi'])
    w = j['w']
    toks = ['##any'] if w['ns'] == 'any' else ['##other'] if w['ns'] == 'other' else list(w['ns'])
    if w.get('notNs'):
        toks = ['!' + ('##local' if x == '' else x) for x in w['notNs']]
    toks += ['-' + sym_of_qn(q) for q in w.get('notQ', [])]
    return ('a', ' '.join(toks), j['lo'], j['hi'])


def canon_tok(t: str) -> str:
    pre = t[0] if t[0] in '-!' else ''
    body = t[len(pre):]
    return pre + (ns_value(body) if pre != '-' else body)


def canon_ns(ast: tuple) -> tuple:
    """wildcard tokens compared as sets (##local / ##targetNamespace resolved)"""
    if ast[0] == 'a':
        return ('a', ' '.join(sorted({canon_tok(t) for t in ast[1].split()})), ast[2], ast[3])
    if ast[0] == 'g':
        return ('g', ast[1], ast[2], ast[3], [canon_ns(i) for i in ast[4]])
    return ast


def sym_of_qn(q: list[str]) -> str:
    for s, v in SYMS.items():
        if list(v) == list(q):
            return s
    raise KeyError(q)


def instance(root_name: str, word: list[str]) -> ET.Element:
    root = ET.Element('{%s}%s' % (TNS, root_name))
    for s in word:
        ns, loc = SYMS[s]
        ET.SubElement(root, ('{%s}%s' % (ns, loc)) if ns else loc).text = 'x'
    return root
