"""
Content-model helpers shared by C01 / C14 / C15:
  * generator-level ASTs of content models, exhaustive and seeded families,
  * rendering to XSD, packing several models into one schema, introspection of the *built*
    groups into the JSON the Lean drivers read (ids = Python object identity),
  * word enumeration and instance construction,
  * an independent position-automaton determinism check (occurrence ranges unrolled).

AST:  ('e', name, lo, hi) | ('a', ns_constraint, lo, hi) | ('g', kind, lo, hi, [items])
      hi = None means unbounded; name ∈ {'a','b','c','h'} (h = head of a substitution group whose
      member is 's'); ns_constraint ∈ {'##other', '##any', 'urn:o'}.
"""
from __future__ import annotations

import itertools
from typing import Any, Iterator, Optional
from xml.etree import ElementTree as ET

TNS = 'urn:t'
ONS = 'urn:o'
XSD = 'http://www.w3.org/2001/XMLSchema'

HEAD = (f'<xs:schema xmlns:xs="{XSD}" targetNamespace="{TNS}" xmlns:t="{TNS}" '
        'elementFormDefault="qualified">\n'
        '<xs:element name="a" type="xs:string"/><xs:element name="b" type="xs:string"/>'
        '<xs:element name="c" type="xs:string"/><xs:element name="h" type="xs:string"/>'
        '<xs:element name="s" type="xs:string" substitutionGroup="t:h"/>'
        '<xs:element name="q" type="xs:string" substitutionGroup="t:h" abstract="true"/>'
        '<xs:element name="d" type="xs:string" substitutionGroup="t:q"/>\n')

# declared substitution closure of the head `h`: s (direct), d (through the abstract member q); q itself is
# abstract and can never appear in an instance
SUBST = {'h': ['s', 'd']}
# the XSD 1.1 processor keeps the abstract member in the substitution group (it matches at model level
# and is refused at element level: "can't use an abstract element in an instance")
SUBST11_EXTRA = {'h': ['q']}

# symbols of instance words -> (namespace, local)
SYMS = {'a': (TNS, 'a'), 'b': (TNS, 'b'), 'c': (TNS, 'c'), 'h': (TNS, 'h'), 's': (TNS, 's'), 'd': (TNS, 'd'),
        'q': (TNS, 'q'), 'o': (ONS, 'z')}

OCC_SMALL = [(1, 1), (0, 1), (0, None), (1, None), (2, 2), (1, 2), (0, 0)]


def occ_attrs(lo: int, hi: Optional[int]) -> str:
    s = ''
    if lo != 1:
        s += f' minOccurs="{lo}"'
    if hi != 1:
        s += ' maxOccurs="%s"' % ('unbounded' if hi is None else hi)
    return s


def to_xsd(ast: tuple, defs: Optional[list] = None, shared: Optional[dict] = None) -> str:
    """`defs` collects global <xs:group> definitions for nodes marked as references
    (('g', kind, lo, hi, items, 'ref')); equal referenced groups share one definition (`shared`)."""
    t = ast[0]
    if t == 'e':
        return f'<xs:element ref="t:{ast[1]}"{occ_attrs(ast[2], ast[3])}/>'
    if t == 'a':
        return f'<xs:any namespace="{ast[1]}" processContents="lax"{occ_attrs(ast[2], ast[3])}/>'
    if len(ast) > 5 and ast[5] == 'ref' and defs is not None:
        inner = f'<xs:{ast[1]}>' + ''.join(to_xsd(i, defs, shared) for i in ast[4]) + f'</xs:{ast[1]}>'
        key = inner
        if shared is not None and key in shared:
            name = shared[key]
        else:
            name = f'G{len(defs)}_{id(defs) % 100000}'
            defs.append(f'<xs:group name="{name}">{inner}</xs:group>')
            if shared is not None:
                shared[key] = name
        return f'<xs:group ref="t:{name}"{occ_attrs(ast[2], ast[3])}/>'
    return (f'<xs:{ast[1]}{occ_attrs(ast[2], ast[3])}>' + ''.join(to_xsd(i, defs, shared) for i in ast[4])
            + f'</xs:{ast[1]}>')


def strip_refs(ast: tuple) -> tuple:
    if ast[0] != 'g':
        return ast
    return ('g', ast[1], ast[2], ast[3], [strip_refs(i) for i in ast[4]])


def with_refs(rng, ast: tuple, p: float = 0.5, top: bool = True) -> tuple:
    """marks some nested sequence/choice groups as references to global named groups"""
    if ast[0] != 'g':
        return ast
    items = [with_refs(rng, i, p, False) for i in ast[4]]
    if not top and ast[1] != 'all' and rng.random() < p:
        return ('g', ast[1], ast[2], ast[3], items, 'ref')
    return ('g', ast[1], ast[2], ast[3], items)


def show(ast: tuple) -> str:
    def occ(lo, hi):
        if (lo, hi) == (1, 1):
            return ''
        if (lo, hi) == (0, 1):
            return '?'
        if (lo, hi) == (0, None):
            return '*'
        if (lo, hi) == (1, None):
            return '+'
        return '{%d,%s}' % (lo, '∞' if hi is None else hi)
    t = ast[0]
    if t == 'e':
        return ast[1] + occ(ast[2], ast[3])
    if t == 'a':
        return 'any[%s]' % ast[1] + occ(ast[2], ast[3])
    sep = {'sequence': ',', 'choice': '|', 'all': '&'}[ast[1]]
    ref = '@' if len(ast) > 5 else ''
    return ref + '(' + sep.join(show(i) for i in ast[4]) + ')' + occ(ast[2], ast[3])


def leaves(ast: tuple) -> list[tuple]:
    if ast[0] in ('e', 'a'):
        return [ast]
    return [x for i in ast[4] for x in leaves(i)]


def alphabet(ast: tuple) -> list[str]:
    out = []
    for l in leaves(ast):
        if l[0] == 'e':
            for s in ([l[1]] + SUBST.get(l[1], [])):
                if s not in out:
                    out.append(s)
        else:
            for s in (['o'] if l[1] != '##any' else ['o', 'a']):
                if s not in out:
                    out.append(s)
    return out


def leaf_matches(leaf: tuple, sym: str) -> bool:
    if leaf[0] == 'e':
        return sym == leaf[1] or sym in SUBST.get(leaf[1], [])
    ns = SYMS[sym][0]
    if leaf[1] == '##any':
        return True
    if leaf[1] == '##other':
        return ns not in ('', TNS)
    return ns in leaf[1].split()


# ---------------------------------------------------------------------------------------------
# families

def exhaustive_models(max_leaves: int, names: list[str], occs=OCC_SMALL, depth: int = 2,
                      kinds=('sequence', 'choice'), with_any: bool = False) -> Iterator[tuple]:
    """All groups with 1..max_leaves leaves, nesting ≤ depth, occurrences from `occs`."""
    leaf_syms: list[Any] = [('e', n) for n in names] + ([('a', '##other')] if with_any else [])

    def leaf_choices() -> Iterator[tuple]:
        for l in leaf_syms:
            for lo, hi in occs:
                yield (l[0], l[1], lo, hi)

    def groups(nleaves: int, d: int) -> Iterator[tuple]:
        # a group with exactly nleaves leaves and nesting depth ≤ d
        for kind in kinds:
            for lo, hi in occs:
                for items in item_lists(nleaves, d):
                    yield ('g', kind, lo, hi, list(items))

    def item_lists(nleaves: int, d: int) -> Iterator[tuple]:
        if nleaves == 0:
            yield ()
            return
        for first in range(1, nleaves + 1):
            for head in item(first, d):
                for rest in item_lists(nleaves - first, d):
                    yield (head,) + rest

    def item(nleaves: int, d: int) -> Iterator[tuple]:
        if nleaves == 1:
            yield from leaf_choices()
        if d > 1:
            yield from groups(nleaves, d - 1)

    for n in range(1, max_leaves + 1):
        yield from groups(n, depth)


def random_small(rng, nleaves: int, names: list[str], occs=OCC_SMALL, depth: int = 2,
                 kinds=('sequence', 'choice')) -> tuple:
    """a random member of the family enumerated by `exhaustive_models` with exactly `nleaves` leaves
    (sampled by structure, not uniformly: the family has ~1.6e7 members for 3 leaves)"""
    def leaf() -> tuple:
        lo, hi = rng.choice(occs)
        return ('e', rng.choice(names), lo, hi)

    def group(n: int, d: int) -> tuple:
        lo, hi = rng.choice(occs)
        return ('g', rng.choice(kinds), lo, hi, item_list(n, d))

    def item_list(n: int, d: int) -> list:
        out = []
        while n > 0:
            first = 1 if d <= 1 else rng.randint(1, n)
            if first == 1 and (d <= 1 or rng.random() < 0.75):
                out.append(leaf())
            else:
                out.append(group(first, d - 1))
            n -= first
        return out
    return group(nleaves, depth)


def random_model(rng, names: list[str], max_depth: int = 3, max_items: int = 3, v11: bool = False,
                 allow_all: bool = True, top: bool = True, any_p: float = 0.12) -> tuple:
    occs = [(1, 1)] * 4 + [(0, 1)] * 3 + [(0, None), (1, None), (2, 2), (1, 2), (0, 2), (2, 3), (2, None), (0, 0), (1, 3)]

    def leaf() -> tuple:
        lo, hi = rng.choice(occs)
        if rng.random() < any_p:
            return ('a', rng.choice(['##other', 'urn:o', '##any'] if v11 else ['##other', 'urn:o']), lo, hi)
        return ('e', rng.choice(names), lo, hi)

    def group(d: int, top: bool) -> tuple:
        kinds = ['sequence'] * 3 + ['choice'] * 3
        if allow_all and top:
            kinds.append('all')
        kind = rng.choice(kinds)
        lo, hi = rng.choice(occs)
        if kind == 'all':
            lo, hi = rng.choice([(1, 1), (0, 1)])
            n = rng.randint(1, max_items + 1)
            ns = rng.sample(names, min(n, len(names)))
            if v11:
                items = [('e', x) + rng.choice([(1, 1), (0, 1), (0, 2), (1, 2), (0, None)]) for x in ns]
            else:
                items = [('e', x) + rng.choice([(1, 1), (0, 1)]) for x in ns]
            return ('g', 'all', lo, hi, items)
        n = rng.randint(1, max_items)
        items = []
        for _ in range(n):
            if d > 1 and rng.random() < 0.4:
                items.append(group(d - 1, False))
            else:
                items.append(leaf())
        return ('g', kind, lo, hi, items)

    return group(max_depth, top)


# ---------------------------------------------------------------------------------------------
# independent language / determinism reference (position automaton with unrolled occurrences)

def unroll(ast: tuple, cap: int = 3) -> tuple:
    """Expression over marked leaves: ('sym', mark, leaf) | ('cat', [..]) | ('alt', [..]) |
    ('star', r) | ('shuffle', [..]) | ('eps',) | ('empty',).  r{lo,hi} ↦ r^lo (r?)^(hi-lo) or r^lo r*;
    marks identify the *particle* (all copies of one leaf share its mark)."""
    counter = itertools.count()

    def go(a: tuple) -> tuple:
        t = a[0]
        if t in ('e', 'a'):
            mark = next(counter)
            base = lambda: ('sym', mark, a)   # noqa: E731
        else:
            parts = [go(i) for i in a[4]]
            if a[1] == 'sequence':
                b = ('cat', parts)
            elif a[1] == 'choice':
                b = ('alt', parts) if parts else ('empty',)
            else:
                b = ('shuffle', parts)
            base = lambda: b                  # noqa: E731
        lo, hi = a[2], a[3]
        seq = [base() for _ in range(lo)]
        if hi is None:
            seq.append(('star', base()))
        else:
            seq.extend(('alt', [base(), ('eps',)]) for _ in range(hi - lo))
        return ('cat', seq)
    return go(ast)


def nullable(r: tuple) -> bool:
    t = r[0]
    if t == 'eps' or t == 'star':
        return True
    if t == 'sym' or t == 'empty':
        return False
    if t == 'alt':
        return any(nullable(x) for x in r[1])
    return all(nullable(x) for x in r[1])


def deriv(r: tuple, sym: str, mark: Optional[int] = None) -> tuple:
    """Derivative w.r.t. symbol `sym` (consumed by the leaf `mark` when given)."""
    t = r[0]
    if t in ('eps', 'empty'):
        return ('empty',)
    if t == 'sym':
        ok = leaf_matches(r[2], sym) and (mark is None or mark == r[1])
        return ('eps',) if ok else ('empty',)
    if t == 'alt':
        return mk_alt([deriv(x, sym, mark) for x in r[1]])
    if t == 'star':
        return mk_cat([deriv(r[1], sym, mark), r])
    if t == 'cat':
        out = []
        for k, x in enumerate(r[1]):
            out.append(mk_cat([deriv(x, sym, mark)] + list(r[1][k + 1:])))
            if not nullable(x):
                break
        return mk_alt(out)
    # shuffle
    out = []
    for k, x in enumerate(r[1]):
        out.append(mk_shuffle(list(r[1][:k]) + [deriv(x, sym, mark)] + list(r[1][k + 1:])))
    return mk_alt(out)


def is_empty(r: tuple) -> bool:
    t = r[0]
    if t == 'empty':
        return True
    if t in ('eps', 'sym', 'star'):
        return False
    if t == 'alt':
        return all(is_empty(x) for x in r[1])
    return any(is_empty(x) for x in r[1])


def mk_alt(xs: list) -> tuple:
    out = []
    for x in xs:
        if x[0] == 'alt':
            cand = x[1]
        else:
            cand = [x]
        for y in cand:
            if not is_empty(y) and y not in out:
                out.append(y)
    if not out:
        return ('empty',)
    return out[0] if len(out) == 1 else ('alt', out)


def mk_cat(xs: list) -> tuple:
    out = []
    for x in xs:
        if is_empty(x):
            return ('empty',)
        if x[0] == 'eps':
            continue
        if x[0] == 'cat':
            out.extend(x[1])
        else:
            out.append(x)
    if not out:
        return ('eps',)
    return out[0] if len(out) == 1 else ('cat', out)


def mk_shuffle(xs: list) -> tuple:
    out = []
    for x in xs:
        if is_empty(x):
            return ('empty',)
        if x[0] == 'eps':
            continue
        out.append(x)
    if not out:
        return ('eps',)
    return out[0] if len(out) == 1 else ('shuffle', out)


def first_marks(r: tuple, sym: str) -> set[int]:
    """marks of the leaves that can consume `sym` as the first symbol of a word of r"""
    t = r[0]
    if t in ('eps', 'empty'):
        return set()
    if t == 'sym':
        return {r[1]} if leaf_matches(r[2], sym) else set()
    if t == 'alt' or t == 'shuffle':
        if t == 'shuffle' and any(is_empty(x) for x in r[1]):
            return set()
        return set().union(*[first_marks(x, sym) for x in r[1]])
    if t == 'star':
        return first_marks(r[1], sym)
    out: set[int] = set()
    if any(is_empty(x) for x in r[1]):
        return out
    for x in r[1]:
        out |= first_marks(x, sym)
        if not nullable(x):
            break
    return out


def ref_accepts(ast: tuple, word: list[str]) -> bool:
    r = unroll(ast)
    for s in word:
        r = deriv(r, s)
        if is_empty(r):
            return False
    return nullable(r)


def upa_ok(ast: tuple, syms: Optional[list[str]] = None, max_states: int = 4000,
           v11: bool = False) -> Optional[bool]:
    """Unique Particle Attribution by exploring derivative states: False iff some reachable state lets
    one symbol be consumed by two different particles.  In XSD 1.1 an element/wildcard competition is
    not a violation.  None = state budget exhausted."""
    syms = syms or alphabet(ast) + ['o']
    r0 = unroll(ast)
    kind_of: dict[int, str] = {}

    def collect(r):
        if r[0] == 'sym':
            kind_of[r[1]] = r[2][0]
        elif r[0] in ('alt', 'cat', 'shuffle'):
            for x in r[1]:
                collect(x)
        elif r[0] == 'star':
            collect(r[1])
    collect(r0)
    seen = {repr(r0)}
    todo = [r0]
    while todo:
        r = todo.pop()
        for s in syms:
            marks = first_marks(r, s)
            if len(marks) > 1:
                if v11:
                    elems = [m for m in marks if kind_of[m] == 'e']
                    anys = [m for m in marks if kind_of[m] == 'a']
                    if len(elems) > 1 or (not elems and len(anys) > 1):
                        return False
                else:
                    return False
            if marks:
                d = deriv(r, s)
                k = repr(d)
                if k not in seen and not is_empty(d):
                    seen.add(k)
                    if len(seen) > max_states:
                        return None
                    todo.append(d)
    return True


# ---------------------------------------------------------------------------------------------
# real schemas

def build_schema(models: list[tuple], v11: bool, extra: str = '', oc: Optional[tuple] = None):
    """oc = (mode, namespace constraint) wraps every model in XSD 1.1 open content"""
    import xmlschema
    cls = xmlschema.XMLSchema11 if v11 else xmlschema.XMLSchema10
    body = [extra]
    octxt = ''
    if oc is not None:
        pc = oc[2] if len(oc) > 2 else 'lax'
        octxt = (f'<xs:openContent mode="{oc[0]}"><xs:any namespace="{oc[1]}" processContents="{pc}"/>'
                 '</xs:openContent>')
    defs: list = []
    for k, m in enumerate(models):
        body.append(f'<xs:element name="m{k}"><xs:complexType>{octxt}{to_xsd(m, defs, {})}</xs:complexType></xs:element>')
    return cls(HEAD + '\n'.join(defs + body) + '</xs:schema>', validation='lax')


def ref_accepts_oc(ast: tuple, word: list[str], oc: tuple) -> bool:
    """reference language with open content: interleave = delete any subset of symbols the open
    wildcard admits; suffix = strip a suffix of such symbols"""
    wl = ('a', oc[1], 0, None)
    if oc[0] == 'suffix':
        for cut in range(len(word), -1, -1):
            if all(leaf_matches(wl, s) for s in word[cut:]) and ref_accepts(ast, word[:cut]):
                return True
        return False
    idx = [i for i, s in enumerate(word) if leaf_matches(wl, s)]
    for r in range(len(idx) + 1):
        for sub in itertools.combinations(idx, r):
            if ref_accepts(ast, [s for i, s in enumerate(word) if i not in sub]):
                return True
    return False


def split_qname(name: str) -> list[str]:
    if name and name[0] == '{':
        ns, loc = name[1:].split('}')
        return [ns, loc]
    return ['', name]


class Introspector:
    """Serialises a built XsdGroup (what the schema parser actually produced)."""

    def __init__(self, group: Any):
        self.v11 = group.xsd_version != '1.0'
        self.ids: dict[int, int] = {}
        self.objs: list[Any] = []
        self.root = group
        self.glue: list[dict] = []
        self.json = self.walk(group)

    def oid(self, obj: Any) -> int:
        k = id(obj)
        if k not in self.ids:
            self.ids[k] = len(self.objs)
            self.objs.append(obj)
        return self.ids[k]

    def walk(self, p: Any) -> dict:
        from xmlschema.validators import XsdGroup, XsdAnyElement
        from harness.props.c16 import introspect as wc_introspect
        pid = self.oid(p)
        hi = p.max_occurs
        if isinstance(p, XsdGroup):
            return {'t': 'g', 'id': pid, 'k': p.model, 'lo': p.min_occurs, 'hi': hi,
                    'items': [self.walk(i) for i in p.content]}
        if isinstance(p, XsdAnyElement):
            w = wc_introspect(p)
            prec = []
            for e in getattr(p, 'precedences', {}).get(self.root, []):
                prec.append(self.oid(e))
            return {'t': 'a', 'id': pid, 'lo': p.min_occurs, 'hi': hi, 'w': w, 'prec': prec}
        built = sorted(split_qname(n) for n in (p.substitutes or ()))
        own = split_qname(p.name)
        declared = sorted([own[0], x] for x in SUBST.get(own[1], []) + (SUBST11_EXTRA.get(own[1], []) if self.v11 else []))
        if built != declared:
            self.glue.append({'element': own, 'substitutes_built': built, 'substitutes_declared': declared})
        # O and M are given the *declared* substitution closure, not what the implementation computed
        return {'t': 'e', 'id': pid, 'lo': p.min_occurs, 'hi': hi, 'names': [own] + declared}


def ast_of_json(j: dict) -> tuple:
    """generator-level reading of an introspected group (to compare with the intended AST)"""
    if j['t'] == 'g':
        return ('g', j['k'], j['lo'], j['hi'], [ast_of_json(i) for i in j['items']])
    if j['t'] == 'e':
        return ('e', j['names'][0][1], j['lo'], j['hi'])
    w = j['w']
    ns = '##any' if w['ns'] == 'any' else '##other' if w['ns'] == 'other' else ' '.join(w['ns'])
    return ('a', ns, j['lo'], j['hi'])


def words_upto(alpha: list[str], n: int) -> Iterator[list[str]]:
    for k in range(n + 1):
        for w in itertools.product(alpha, repeat=k):
            yield list(w)


def viable_words(ast: tuple, alpha: list[str], maxlen: int, limit: int) -> tuple[list[list[str]], list[list[str]]]:
    """(accepted words, viable-prefix dead ends) up to maxlen by BFS over reference derivatives."""
    acc: list[list[str]] = []
    frontier = [([], unroll(ast))]
    seen_states = 0
    for _ in range(maxlen + 1):
        nxt = []
        for w, r in frontier:
            if nullable(r):
                acc.append(w)
            if len(w) < maxlen:
                for s in alpha:
                    d = deriv(r, s)
                    if not is_empty(d):
                        nxt.append((w + [s], d))
                        seen_states += 1
            if len(acc) >= limit or seen_states > 40 * limit:
                return acc, [w for w, _ in nxt[:limit]]
        frontier = nxt
    return acc, []


def word_set(rng, ast: tuple, alpha: list[str], short: int, maxlen: int, limit: int) -> list[list[str]]:
    """every word up to `short`, accepted words up to `maxlen` and their one-symbol perturbations."""
    out: dict[str, list[str]] = {}
    for w in words_upto(alpha, short):
        out[''.join(w)] = w
    acc, _ = viable_words(ast, alpha, maxlen, limit)
    for w in acc:
        out.setdefault(''.join(w), w)
    muts = []
    for w in acc:
        if not w:
            continue
        i = rng.randrange(len(w))
        muts.append(w[:i] + w[i + 1:])
        muts.append(w[:i] + [rng.choice(alpha)] + w[i:])
        muts.append(w[:i] + [rng.choice(alpha)] + w[i + 1:])
        muts.append(w + [rng.choice(alpha)])
        if len(w) > 1:
            j = rng.randrange(len(w) - 1)
            muts.append(w[:j] + [w[j + 1], w[j]] + w[j + 2:])
    rng.shuffle(muts)
    for w in muts[:limit]:
        if len(w) <= maxlen + 1:
            out.setdefault(''.join(w), w)
    return list(out.values())


def instance(k: int, word: list[str]) -> ET.Element:
    root = ET.Element('{%s}m%d' % (TNS, k))
    for s in word:
        ns, loc = SYMS[s]
        ET.SubElement(root, '{%s}%s' % (ns, loc)).text = 'x'
    return root


def word_json(word: list[str]) -> list[list[str]]:
    return [list(SYMS[s]) for s in word]
