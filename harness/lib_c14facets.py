"""
C14, facets: generated chains of simple-type restriction steps.

For every step of every chain the build verdict of the real code (the parse errors recorded on the type
and on its facet components, mapped to the error codes of XsVerif.Facets.E) is compared with `checkStep`
of the Lean model on the *introspected* chain (the `facets` dicts of the built types down to the primitive
type, built-in steps included); for every type the validity of a catalogue of values/texts is compared
with `validChain` / `lexValid`, and with `validEff` when every step was accepted (the instance of
facet_effective_iff_chain); and the property itself is evaluated on the real code: on an accepted schema
a text valid for the derived type is valid for its base type.
"""
from __future__ import annotations

import itertools
import re
from decimal import Decimal
from typing import Any, Optional
from xml.etree import ElementTree as ET

XSD = 'http://www.w3.org/2001/XMLSchema'
HEAD = (f'<xs:schema xmlns:xs="{XSD}" targetNamespace="urn:t" xmlns:t="urn:t" elementFormDefault="qualified">')

NUMERIC = ('integer', 'decimal', 'short', 'nonNegativeInteger')
STRINGS = ('string', 'normalizedString', 'token')
BOUNDS = ('minInclusive', 'minExclusive', 'maxInclusive', 'maxExclusive')
LENS = ('length', 'minLength', 'maxLength')
KINDS = BOUNDS + LENS + ('totalDigits', 'fractionDigits', 'enumeration', 'whiteSpace')

NUM_POOL = ['-2', '0', '1', '2', '3', '5', '8', '10', '12']
DEC_POOL = NUM_POOL + ['1.5', '2.25', '7.5', '10.75']
NUM_TEXTS = [str(i) for i in range(-4, 14)] + ['100', '1000', '12345']
DEC_TEXTS = NUM_TEXTS + ['0.5', '1.5', '2.25', '7.5', '10.75', '3.125', '9.99']
STR_ENUM = ['', 'a', 'ab', 'abc', 'a b', ' a', 'a  b']
STR_TEXTS = ['', 'a', 'ab', 'abc', 'abcd', 'abcde', 'a b', ' a', 'a  b', 'a\tb', ' abc ', 'ab ', '  ', ' a b ']

MESSAGES = [
    ('facet value is fixed to', 'fixedChanged'),
    ("can be only 'collapse'", 'wsOnlyCollapse'),
    ("can be only 'replace' or 'collapse'", 'wsReplaceOrCollapse'),
    ('base facet has a different length', 'lengthDiffers'),
    ('base facet has a greater min length', 'minLengthLower'),
    ("'minLength' has a lesser value than parent", 'minLengthLower'),
    ('base type has a lesser max length', 'maxLengthGreater'),
    ("'maxLength' has a greater value than parent", 'maxLengthGreater'),
    ('is also the maximum', 'alsoMaximum'),
    ('is also the minimum', 'alsoMinimum'),
    ('totalDigits facet value cannot be greater than', 'totalGreater'),
    ("'minLength' value must be less than or equal to 'length'", 'minLenGtLength'),
    ("cannot specify both 'length' and 'minLength'", 'bothLengthMin'),
    ("'maxLength' value must be greater or equal to 'length'", 'maxLenLtLength'),
    ("cannot specify both 'length' and 'maxLength'", 'bothLengthMax'),
    ("'maxLength' value is less than 'minLength'", 'maxLtMinLength'),
    ("'minLength' has a greater value than parent 'maxLength'", 'minLenGtBaseMax'),
    ("'maxLength' has a lesser value than parent 'minLength'", 'maxLenLtBaseMin'),
    ("cannot specify both 'minInclusive' and 'minExclusive'", 'bothMin'),
    ("'minInclusive' must be less or equal to 'maxInclusive'", 'minGtMax'),
    ("'minInclusive' must be lesser than 'maxExclusive'", 'minGtMax'),
    ("'minExclusive' must be lesser than 'maxInclusive'", 'minGtMax'),
    ("'minExclusive' must be less or equal to 'maxExclusive'", 'minGtMax'),
    ("cannot specify both 'maxInclusive' and 'maxExclusive'", 'bothMax'),
    ('fractionDigits facet value cannot be lesser than the value of totalDigits', 'fractionGtTotal'),
]


def local(tag: Any) -> str:
    return str(tag).split('}')[-1]


def classify(msg: str, facet_kind: Optional[str]) -> str:
    """error code of XsVerif.Facets.E for a parse error message of the real code"""
    for frag, code in MESSAGES:
        if frag in msg:
            return code
    if 'invalid restriction: base value is lower' in msg:
        return 'totalGreater' if facet_kind == 'totalDigits' else 'fractionGreater'
    if facet_kind == 'enumeration':
        return 'enumInvalid'
    if msg.startswith('invalid restriction:'):
        return 'boundInvalid'
    return 'other:' + msg[:60]


# ---------------------------------------------------------------------------------------------
# values

class Interner:
    def __init__(self) -> None:
        self.t: dict[Any, int] = {}

    def key(self, v: Any) -> int:
        return self.t.setdefault(v, len(self.t) + 1)


def num_val(value: Any) -> list[int]:
    """[ord, len, int digits, fraction digits, key] of a decoded numeric value (ord = value × 1000)"""
    from xmlschema.utils.decoding import count_digits
    d = Decimal(value)
    o = d * 1000
    assert o == o.to_integral_value(), value
    a, b = count_digits(d)
    return [int(o), 0, a, b, 2 * abs(int(o)) + (1 if o < 0 else 0)]


def str_val(value: str, keys: Interner) -> list[int]:
    return [0, len(value), 0, 0, keys.key(value)]


def py_norm(ws: str, s: str) -> str:
    """the three XSD white space normalisations (specification; the code's own is C02's business)"""
    if ws == 'preserve':
        return s
    s = re.sub('[\t\n\r]', ' ', s)
    if ws == 'replace':
        return s
    return re.sub(' +', ' ', s).strip(' ')


# ---------------------------------------------------------------------------------------------
# generation.  A chain = (primitive, [step, …]) farthest step first; a step = [(kind, lexical value, fixed), …]
# (enumeration: one entry per value)

def gen_step(rng, prim: str, depth: int) -> list[tuple]:
    numeric = prim in NUMERIC
    pool = DEC_POOL if prim == 'decimal' else NUM_POOL
    if prim == 'nonNegativeInteger':
        pool = [p for p in pool if not p.startswith('-')] + (['-2'] if rng.random() < 0.2 else [])
    step: list[tuple] = []
    fixed = lambda: rng.random() < 0.15          # noqa: E731
    n = rng.choice([1, 1, 2, 2, 3])
    if numeric:
        kinds = rng.sample(['min', 'max', 'totalDigits', 'fractionDigits', 'enumeration', 'whiteSpace'], n)
        for k in kinds:
            if k == 'min':
                step.append((rng.choice(BOUNDS[:2]), rng.choice(pool), fixed()))
                if rng.random() < 0.05:
                    step.append((BOUNDS[1] if step[-1][0] == BOUNDS[0] else BOUNDS[0], rng.choice(pool), False))
            elif k == 'max':
                step.append((rng.choice(BOUNDS[2:]), rng.choice(pool), fixed()))
                if rng.random() < 0.05:
                    step.append((BOUNDS[3] if step[-1][0] == BOUNDS[2] else BOUNDS[2], rng.choice(pool), False))
            elif k == 'totalDigits':
                step.append((k, str(rng.choice([1, 2, 2, 3, 4])), fixed()))
            elif k == 'fractionDigits':
                step.append((k, str(rng.choice([0, 1, 2]) if prim == 'decimal' else 0), fixed()))
            elif k == 'enumeration':
                for v in rng.sample(pool, rng.randint(1, 4)):
                    step.append((k, v, False))
            else:
                step.append((k, rng.choice(['collapse', 'collapse', 'replace', 'preserve']), fixed()))
    else:
        kinds = rng.sample(['length', 'minLength', 'maxLength', 'enumeration', 'whiteSpace'], n)
        for k in kinds:
            if k in LENS:
                step.append((k, str(rng.choice([0, 1, 2, 3, 3, 4])), fixed()))
            elif k == 'enumeration':
                for v in rng.sample(STR_ENUM, rng.randint(1, 4)):
                    step.append((k, v, False))
            else:
                step.append((k, rng.choice(['collapse', 'replace', 'preserve']), fixed()))
    return step


def tighten(rng, prim: str, prev: list[tuple]) -> list[tuple]:
    """a step that is (mostly) a legal restriction of the previous one: same kinds, moved inwards"""
    out = []
    for k, v, fx in prev:
        if k in BOUNDS and rng.random() < 0.8:
            d = Decimal(v) + (Decimal(rng.choice([0, 1, 1, 2])) * (1 if k.startswith('min') else -1))
            k2 = k
            if rng.random() < 0.3:
                k2 = {'minInclusive': 'minExclusive', 'minExclusive': 'minInclusive',
                      'maxInclusive': 'maxExclusive', 'maxExclusive': 'maxInclusive'}[k]
            out.append((k2, str(d), rng.random() < 0.1))
        elif k in ('minLength',):
            out.append((k, str(int(v) + rng.choice([0, 1])), False))
        elif k in ('maxLength', 'totalDigits', 'fractionDigits'):
            out.append((k, str(max(0 if k != 'totalDigits' else 1, int(v) - rng.choice([0, 1]))), False))
        elif k == 'length':
            out.append((k, v if rng.random() < 0.8 else str(int(v) + 1), False))
        elif k == 'enumeration':
            if rng.random() < 0.7:
                out.append((k, v, False))
        elif k == 'whiteSpace':
            out.append((k, rng.choice(['collapse', v]), False))
    seen: set = set()
    out = [o for o in out if o[0] == 'enumeration' or not (o[0] in seen or seen.add(o[0]))]
    if not out:
        return gen_step(rng, prim, 1)
    if rng.random() < 0.3:
        extra = [e for e in gen_step(rng, prim, 1) if e[0] not in {o[0] for o in out}]
        out += extra[:2]
    return out


def random_chain(rng) -> tuple[str, list[list[tuple]]]:
    prim = rng.choice(['integer', 'integer', 'decimal', 'decimal', 'short', 'nonNegativeInteger',
                       'string', 'string', 'string', 'normalizedString', 'token'])
    steps = [gen_step(rng, prim, 0)]
    for _ in range(rng.choice([1, 1, 2])):
        steps.append(tighten(rng, prim, steps[-1]) if rng.random() < 0.6 else gen_step(rng, prim, 1))
    return prim, steps


def systematic_pairs() -> list[tuple[str, list[list[tuple]]]]:
    """every pair of bound kinds over boundary values on xs:integer; every pair of length kinds on xs:string;
    digits pairs on xs:decimal (the exhaustive small-scope family of the property text)"""
    out = []
    for fb, fd in itertools.product(BOUNDS, repeat=2):
        for vb, vd in itertools.product(['-1', '0', '1', '2', '5'], repeat=2):
            out.append(('integer', [[(fb, vb, False)], [(fd, vd, False)]]))
    for fb, fd in itertools.product(LENS, repeat=2):
        for vb, vd in itertools.product(['0', '1', '2', '3'], repeat=2):
            out.append(('string', [[(fb, vb, False)], [(fd, vd, False)]]))
    for fb, fd in itertools.product(('totalDigits', 'fractionDigits'), repeat=2):
        for vb, vd in itertools.product(['1', '2', '3'], repeat=2):
            out.append(('decimal', [[(fb, vb, False)], [(fd, vd, False)]]))
    for wb, wd in itertools.product(('preserve', 'replace', 'collapse'), repeat=2):
        for fx in (False, True):
            out.append(('string', [[('whiteSpace', wb, fx), ('maxLength', '3', False)], [('whiteSpace', wd, False)]]))
    return out


def esc(s: str) -> str:
    return (s.replace('&', '&amp;').replace('<', '&lt;').replace('"', '&quot;').replace('\t', '&#9;')
            .replace('\n', '&#10;'))


def schema_text(chains: list[tuple[str, list[list[tuple]]]]) -> str:
    body = []
    for c, (prim, steps) in enumerate(chains):
        base = 'xs:' + prim
        for i, step in enumerate(steps):
            fs = ''.join(f'<xs:{k} value="{esc(v)}"' + (' fixed="true"' if fx else '') + '/>' for k, v, fx in step)
            body.append(f'<xs:simpleType name="T{c}_{i}"><xs:restriction base="{base}">{fs}</xs:restriction>'
                        f'</xs:simpleType><xs:element name="e{c}_{i}" type="t:T{c}_{i}"/>')
            base = f't:T{c}_{i}'
    return HEAD + ''.join(body) + '</xs:schema>'


# ---------------------------------------------------------------------------------------------
# introspection of what was built

def prim_decode(prim_numeric: bool, text: str) -> Any:
    return Decimal(text.strip()) if prim_numeric else text


def ser_step(t: Any, numeric: bool, keys: Interner) -> tuple[dict, bool]:
    """the `facets` dict of one built type → JSON step; second component: it contains something the model
    does not cover (pattern, assertion, a validator function)"""
    from xmlschema.validators.facets import XsdFacet, XsdEnumerationFacets
    out: dict = {}
    extra = False
    val = (lambda v: num_val(v)) if numeric else (lambda v: str_val(v, keys))
    for k, f in t.facets.items():
        name = local(k) if k is not None else None
        if not isinstance(f, XsdFacet):
            continue                       # validator functions of the built-in types (range of xs:short …)
        if isinstance(f, XsdEnumerationFacets):
            vs = []
            for elem, v in zip(f, f.enumeration):
                if v is None:             # refused by the base type: the value it was given to validate
                    v = prim_decode(numeric, elem.get('value'))
                    if not numeric:           # every step down the chain normalises the text in turn
                        b = t.base_type
                        while b is not None:
                            v = b.normalize(v)
                            b = b.base_type
                vs.append(val(v))
            out['enum'] = vs
        elif name in BOUNDS:
            out[name] = [val(f.value), bool(f.fixed)]
        elif name in LENS or name in ('totalDigits', 'fractionDigits'):
            out[name] = [int(f.value), bool(f.fixed)]
        elif name == 'whiteSpace':
            out[name] = [f.value, bool(f.fixed)]
        else:
            extra = True
    return out, extra


def ser_chain(t: Any, numeric: bool, keys: Interner) -> tuple[list[dict], int]:
    """steps of the type, nearest first, down to the primitive type; number of user-defined steps"""
    steps = []
    user = 0
    while t is not None:
        s, _ = ser_step(t, numeric, keys)
        steps.append(s)
        if not t.is_global() or t.target_namespace == 'urn:t':
            user += 1
        t = t.base_type
    return steps, user


def step_errors(t: Any) -> list[str]:
    from xmlschema.validators.facets import XsdFacet
    codes = [classify(str(e.message), None) for e in t.errors]
    for k, f in t.facets.items():
        if isinstance(f, XsdFacet):
            codes += [classify(str(e.message), local(k)) for e in f.errors]
    return sorted(set(codes))


def type_valid(schema: Any, name: str, text: str) -> bool:
    """validity of a text for the simple type itself (no element-level rules)"""
    return schema.types[name].is_valid(text)


def instance_valid(schema: Any, name: str, text: str) -> bool:
    e = ET.Element('{urn:t}' + name)
    e.text = text
    return schema.elements[name].is_valid(e)
