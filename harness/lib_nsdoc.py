"""
Shared helpers for C17: a multi-namespace schema in which every generated document is valid, a generator of
documents that redeclare / shadow / multiply-bind prefixes, an independent resolver of decoded data
(XML Namespaces rules) for the converters that report xmlns declarations, and tracing converter subclasses.
"""
from __future__ import annotations

from typing import Any, Optional

URIS = ['u1', 'u2', 'u3']
WILD = 'u4'            # namespace without declarations: its names are matched by the lax wildcards only
PREFIXES = ['p', 'q', 'k']
LOCALS = ['a', 'b']
PRE = {'u1': 'p1', 'u2': 'p2', 'u3': 'p3'}


# ------------------------------------------------------------------------------------------------
# schema: elements a, b in no namespace and in u1..u3, all of one recursive type admitting any of them
# as children, the global attributes {ui}x and the unqualified local attribute y; plus a lax element wildcard
# for namespace u4 (undeclared names, decoded through xs:anyType) and a lax attribute wildcard for any
# namespace (undeclared attribute names, qualified or not).
def _schema_for(tns: str) -> str:
    imports = ''.join((f'<xs:import namespace="{o}"/>' if o else '<xs:import/>') for o in [''] + URIS if o != tns)
    decl = ''.join(f' xmlns:{PRE[o]}="{o}"' for o in URIS)
    refs = ''.join(f'<xs:element ref="{(PRE[o] + ":") if o else ""}{n}"/>' for o in [''] + URIS for n in LOCALS)
    arefs = ''.join(f'<xs:attribute ref="{PRE[o]}:x"/>' for o in URIS)
    t = f' targetNamespace="{tns}"' if tns else ''
    tp = (PRE[tns] + ':') if tns else ''
    return (f'<xs:schema xmlns:xs="http://www.w3.org/2001/XMLSchema"{t}{decl} elementFormDefault="qualified">'
            f'{imports}'
            + ''.join(f'<xs:element name="{n}" type="{tp}T"/>' for n in LOCALS)
            + ('<xs:attribute name="x" type="xs:string"/>' if tns else '')
            + f'<xs:complexType name="T"><xs:choice minOccurs="0" maxOccurs="unbounded">{refs}'
            f'<xs:any namespace="{WILD}" processContents="lax"/></xs:choice>'
            f'{arefs}<xs:attribute name="y" type="xs:string"/>'
            f'<xs:anyAttribute namespace="##any" processContents="lax"/></xs:complexType></xs:schema>')


_SCHEMA = None


def schema():
    global _SCHEMA
    if _SCHEMA is None:
        import xmlschema
        _SCHEMA = xmlschema.XMLSchema([_schema_for(t) for t in [''] + URIS])
    return _SCHEMA


# ------------------------------------------------------------------------------------------------
# documents.  A node is a dict {'tag': [ns, local], 'attrs': [[ns, local], ...], 'decl': [[prefix, uri], ...],
# 'ch': [...], 'pfx': prefix used to write the tag, 'apfx': prefixes used to write the attributes}
def declared(tag: list) -> bool:
    """the element name has a declaration (else it is matched by the lax wildcard and typed xs:anyType)"""
    return tag[0] != WILD and tag[1] in LOCALS


def unqualified_declared(tag: list) -> list:
    """unqualified attributes declared by the type of the element (the encoder's name table)"""
    return ['y'] if declared(tag) else []


def gen_doc(rng, max_depth: int = 5, max_nodes: int = 14, wild: float = 0.0) -> dict:
    budget = [max_nodes]
    uris = URIS + ([WILD] if wild else [])

    def scope_after(scope: dict, decl: list) -> dict:
        s = dict(scope)
        for p, u in decl:
            s[p] = u
        return s

    def node(scope: dict, depth: int) -> dict:
        budget[0] -= 1
        decl: list = []
        root = depth == 0
        nd = rng.choice([1, 2, 2, 3]) if root else rng.choice([0, 0, 0, 1, 1, 2, 3])
        pool = PREFIXES + ['']
        used: set = set()
        for _ in range(nd):
            p = rng.choice(pool)
            if p in used:
                continue
            used.add(p)
            if p == '':
                # unset the default namespace only where one is set (or rarely, redundantly)
                if scope.get('') and rng.random() < 0.4 or rng.random() < 0.03:
                    u = ''
                else:
                    u = rng.choice(uris)
            else:
                cur = scope.get(p)
                # favour rebinding to a different URI and binding several prefixes to one URI
                u = rng.choice([x for x in uris if x != cur] if cur and rng.random() < 0.7 else uris)
            decl.append([p, u])
        s = scope_after(scope, decl)
        # element name among those expressible in scope
        opts = []
        if not s.get(''):
            opts.append(('', ''))
        for p, u in s.items():
            if u:
                opts.append((u, p))
        if not opts:
            # nothing expressible: bind something
            p, u = rng.choice(PREFIXES), rng.choice(URIS)
            decl.append([p, u])
            s[p] = u
            opts.append((u, p))
        if root and any(o[0] != WILD for o in opts):
            opts = [o for o in opts if o[0] != WILD]         # the root needs a declaration
        elif root:
            p, u = rng.choice(PREFIXES), rng.choice(URIS)
            decl = [d for d in decl if d[0] != p] + [[p, u]]
            s[p] = u
            opts = [(u, p)]
        ns, pfx = rng.choice(opts)
        tag = [ns, 'w' if ns == WILD else rng.choice(LOCALS)]
        attrs, apfx = [], []
        if rng.random() < 0.45:
            aopts = [(u, p) for p, u in s.items() if p and u]
            rng.shuffle(aopts)
            seen = set()
            for u, p in aopts[:rng.choice([1, 1, 2])]:
                if u not in seen:
                    seen.add(u)
                    # undeclared attribute names (matched by the attribute wildcard) when wild
                    attrs.append([u, 'w' if wild and (u == WILD or rng.random() < wild) else 'x'])
                    apfx.append(p)
        if rng.random() < 0.25:
            attrs.append(['', 'y'])
            apfx.append('')
        if wild and rng.random() < wild:
            attrs.append(['', 'z'])                          # unqualified and undeclared
            apfx.append('')
        ch = []
        if depth < max_depth:
            n = rng.choice([0, 1, 1, 2, 2, 3]) if depth else rng.choice([1, 2, 3])
            for _ in range(n):
                if budget[0] <= 0:
                    break
                ch.append(node(s, depth + 1))
        return {'tag': tag, 'attrs': attrs, 'decl': decl, 'ch': ch, 'pfx': pfx, 'apfx': apfx}

    return node({}, 0)


def doc_xml(n: dict) -> str:
    def name(p, loc):
        return f'{p}:{loc}' if p else loc
    parts = [name(n['pfx'], n['tag'][1])]
    for p, u in n['decl']:
        parts.append(f'xmlns:{p}="{u}"' if p else f'xmlns="{u}"')
    for (u, loc), p in zip(n['attrs'], n['apfx']):
        parts.append(f'{name(p, loc)}="v"')
    head = ' '.join(parts)
    if not n['ch']:
        return f'<{head}/>'
    return f'<{head}>' + ''.join(doc_xml(c) for c in n['ch']) + f'</{name(n["pfx"], n["tag"][1])}>'


def assign_ids(n: dict, start: int = 0) -> int:
    """pre-order identifiers (document order of Element.iter())"""
    n['id'] = start
    nxt = start + 1
    for c in n['ch']:
        nxt = assign_ids(c, nxt)
    return nxt


def doc_nodes(n: dict):
    yield n
    for c in n['ch']:
        yield from doc_nodes(c)


def driver_tree(n: dict) -> dict:
    return {'id': n['id'], 'tag': n['tag'], 'attrs': n['attrs'], 'decl': n['decl'],
            'ch': [driver_tree(c) for c in n['ch']]}


def qn(ns: str, loc: str) -> str:
    return '{%s}%s' % (ns, loc) if ns else loc


def canon_doc(n: dict) -> Any:
    """order-insensitive canonical form: (tag, sorted attribute names, sorted children)"""
    return [qn(*n['tag']), sorted(qn(*a) for a in n['attrs']), sorted((canon_doc(c) for c in n['ch']), key=repr)]


def canon_elem(e) -> Any:
    return [e.tag, sorted(e.attrib), sorted((canon_elem(c) for c in e), key=repr)]


# ------------------------------------------------------------------------------------------------
# independent reading of decoded data (XML Namespaces: unprefixed element names take the default namespace,
# unprefixed attribute names never do).  A "view" gives (own xmlns, attribute keys, [(child key, child item)]).
def view_default(item: Any):
    if not isinstance(item, dict):
        return [], [], []
    xmlns, attrs, ch = [], [], []
    for k, v in item.items():
        if k == '@xmlns':
            xmlns.append(('', v))
        elif k.startswith('@xmlns:'):
            xmlns.append((k[7:], v))
        elif k.startswith('@'):
            attrs.append(k[1:])
        elif k == '$':
            continue
        else:
            for it in (v if isinstance(v, list) else [v]):
                ch.append((k, it))
    return xmlns, attrs, ch


def view_badgerfish(item: Any):
    if not isinstance(item, dict):
        return [], [], []
    xmlns, attrs, ch = [], [], []
    for k, v in item.items():
        if k == '@xmlns':
            xmlns.extend((('' if p == '$' else p), u) for p, u in v.items())
        elif k.startswith('@'):
            attrs.append(k[1:])
        elif k.startswith('$'):
            continue
        else:
            for it in (v if isinstance(v, list) else [v]):
                ch.append((k, it))
    return xmlns, attrs, ch


def view_jsonml(item: Any):
    # item = [tag, {attrs}?, children...]
    xmlns, attrs, ch = [], [], []
    rest = item[1:]
    if rest and isinstance(rest[0], dict):
        for k, v in rest[0].items():
            if k == 'xmlns':
                xmlns.append(('', v))
            elif k.startswith('xmlns:'):
                xmlns.append((k[6:], v))
            else:
                attrs.append(k)
        rest = rest[1:]
    for c in rest:
        if isinstance(c, list):
            ch.append((c[0], c))
    return xmlns, attrs, ch


def view_gdata(item: Any):
    # attributes are the non-structured values; prefixes are written with '$'
    if not isinstance(item, dict):
        return [], [], []
    xmlns, attrs, ch = [], [], []
    for k, v in item.items():
        if k == 'xmlns':
            xmlns.append(('', v))
        elif k.startswith('xmlns$'):
            xmlns.append((k[6:], v))
        elif k == '$t' or (k[:1] == '$' and k[1:].isdigit()):
            continue
        elif not isinstance(v, (dict, list)):
            attrs.append(k if k[:1] == '{' else k.replace('$', ':'))
        else:
            for it in (v if isinstance(v, list) else [v]):
                ch.append((k if k[:1] == '{' else k.replace('$', ':'), it))
    return xmlns, attrs, ch


def view_dataelement(item: Any):
    # DataElement objects keep expanded tags; attribute names are mapped; xmlns per element
    return ([tuple(x) for x in (item.xmlns or [])], list(item.attrib), [(c.tag, c) for c in item])


class Unresolved(Exception):
    pass


def resolve(key: str, scope: dict, attribute: bool) -> str:
    if key[:1] == '{':
        return key
    if ':' in key:
        p, loc = key.split(':', 1)
        u = scope.get(p)
        if not u:
            raise Unresolved(key)
        return qn(u, loc)
    if attribute:
        return key
    return qn(scope.get('') or '', key)


def read_item(view, key: Optional[str], item: Any, scope: dict, out_fail: list, path: str) -> Any:
    """canonical form of a decoded item as an XML-Namespaces reader sees it; unresolvable names are
    reported in out_fail and kept as '?key'."""
    xmlns, attrs, ch = view(item)
    s = dict(scope)
    for p, u in xmlns:
        s[p] = u
    if key is None:
        tag = None
    else:
        try:
            tag = resolve(key, s, False)
        except Unresolved:
            out_fail.append((path, key))
            tag = '?' + key
    ra = []
    for a in attrs:
        try:
            ra.append(resolve(a, s, True))
        except Unresolved:
            out_fail.append((path + '/@' + a, a))
            ra.append('?' + a)
    rc = [read_item(view, k, it, s, out_fail, path + '/' + k) for k, it in ch]
    return [tag, sorted(ra), sorted(rc, key=repr)]


def first_diff(a: Any, b: Any, path: str = '') -> Optional[dict]:
    """first difference between two canonical trees [tag, attrs, children] (a = document, b = data)"""
    if a[0] != b[0] and b[0] is not None:
        return {'at': path, 'kind': 'element', 'document': a[0], 'data': b[0]}
    here = f'{path}/{a[0]}'
    if a[1] != b[1]:
        return {'at': here, 'kind': 'attribute', 'document': a[1], 'data': b[1]}
    ca, cb = sorted(a[2], key=repr), sorted(b[2], key=repr)
    if len(ca) != len(cb):
        return {'at': here, 'kind': 'children', 'document': [c[0] for c in ca], 'data': [c[0] for c in cb]}
    for x, y in zip(ca, cb):
        if x != y:
            d = first_diff(x, y, here)
            if d:
                return d
    if [c[0] for c in ca] != [c[0] for c in cb]:
        return {'at': here, 'kind': 'children', 'document': [c[0] for c in ca], 'data': [c[0] for c in cb]}
    return None


# ------------------------------------------------------------------------------------------------
# tracing converters
TRACE: dict = {'calls': [], 'elems': {}, 'attrs': {}, 'ids': {}, 'last': None, 'init': None}


def reset_trace(ids: dict) -> None:
    TRACE['calls'] = []
    TRACE['elems'] = {}
    TRACE['attrs'] = {}
    TRACE['ids'] = ids
    TRACE['last'] = None
    TRACE['init'] = None


def _mk_traced(base):
    class Traced(base):  # type: ignore[misc,valid-type]
        __slots__ = ()

        def __init__(self, *args, **kwargs):
            super().__init__(*args, **kwargs)
            # state after __init__ (user map + declarations read from the source)
            TRACE['init'] = {'ns': [[k, v] for k, v in self.namespaces.items()],
                             'rev': [[k, (v[:-1] if v else v)] for k, v in self._reverse.items()]}

        def set_xmlns_context(self, obj, level):
            ret = super().set_xmlns_context(obj, level)
            oid = TRACE['ids'].get(id(obj))
            TRACE['last'] = oid
            TRACE['calls'].append({
                'obj': oid, 'level': level,
                'ns': [[k, v] for k, v in self.namespaces.items()],
                'rev': [[k, (v[:-1] if v else v)] for k, v in self._reverse.items()],
                'stack': [[TRACE['ids'].get(id(c.obj)), c.level] for c in reversed(self._xmlns_contexts)],
                'ret': None if ret is None else [list(x) for x in ret],
            })
            return ret

        def map_attributes(self, attributes):
            out = list(super().map_attributes(attributes))
            if TRACE['last'] is not None:
                TRACE['attrs'][TRACE['last']] = [k[len(self.attr_prefix or ''):] for k, _ in out]
            return iter(out)

    Traced.__name__ = 'Traced' + base.__name__
    return Traced


_TRACED: dict = {}


def traced(base):
    if base not in _TRACED:
        _TRACED[base] = _mk_traced(base)
    return _TRACED[base]
