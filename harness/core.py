"""
Common machinery of the verification harness (see DESIGN.md §2).

  * builds the Lean project (theorems + native driver of the property),
  * audits axioms / forbidden tokens,
  * gives the property modules a line-protocol client for the Lean driver,
  * implements the decision rule (exit 0 / VIOLATION with replay / no-failing-input-found),
  * writes /verif/evidence/<id>.json.

Run with /venv/bin/python (the interpreter that has /repo installed).
"""
from __future__ import annotations

import fcntl
import hashlib
import json
import os
import random
import re
import subprocess
import sys
import time
import traceback
from pathlib import Path
from typing import Any, Callable, Iterable, Optional

VERIF = Path(__file__).resolve().parent.parent
LEAN = VERIF / 'lean'
REPO = Path(os.environ.get('XMLSCHEMA_REPO', '/repo'))
# the implementation under check is whatever `import xmlschema` finds first: /repo by default, a scratch
# worktree when XMLSCHEMA_REPO is set (used only for trying the checks against seeded changes)
sys.path.insert(0, str(REPO))
os.environ['PYTHONPATH'] = str(REPO) + (os.pathsep + os.environ['PYTHONPATH'] if os.environ.get('PYTHONPATH') else '')
EVIDENCE = VERIF / 'evidence'
REPLAYS = VERIF / 'replays'
KNOWN_FINDINGS = VERIF / 'known_findings.json'

ALLOWED_AXIOMS = {'propext', 'Classical.choice', 'Quot.sound'}
FORBIDDEN = re.compile(
    r'\bsorry\b|\badmit\b|^\s*axiom\s|native_decide|bv_decide|implemented_by|\bunsafe\s|maxHeartbeats\s+0\b|'
    r'Lean\.ofReduceBool|reduceBool', re.M)

TRUSTED_BASE = [
    'Lean 4.33.0 kernel (lake build; thorough tier re-checks with leanchecker)',
    'axioms admitted: propext, Classical.choice, Quot.sound (audited with #print axioms on every run)',
    'hand-written Lean model tied to /repo by the correspondence run of this check (differential testing)',
    'harness serialisation/canonicalisation (harness/*.py)',
    'CPython, expat/ElementTree/lxml, elementpath: modelled, not verified',
]


class Timeout(Exception):
    pass


def strip_lean_comments(text: str) -> str:
    """Remove /- ... -/ (nested) and -- comments so that the forbidden-token grep only sees code."""
    out = []
    i, n, depth = 0, len(text), 0
    while i < n:
        if text.startswith('/-', i):
            depth += 1
            i += 2
        elif depth and text.startswith('-/', i):
            depth -= 1
            i += 2
        elif depth:
            if text[i] == '\n':
                out.append('\n')
            i += 1
        elif text.startswith('--', i):
            while i < n and text[i] != '\n':
                i += 1
        else:
            out.append(text[i])
            i += 1
    return ''.join(out)


def import_closure(module: str) -> list[Path]:
    """Source files of the project reachable from `module` (e.g. XsVerif.Props.C16)."""
    seen: dict[str, Path] = {}
    todo = [module]
    while todo:
        m = todo.pop()
        if m in seen or not m.startswith('XsVerif'):
            continue
        p = LEAN / (m.replace('.', '/') + '.lean')
        if not p.exists():
            continue
        seen[m] = p
        for line in p.read_text().splitlines():
            mm = re.match(r'\s*(?:public\s+)?import\s+([\w.]+)', line)
            if mm:
                todo.append(mm.group(1))
    return sorted(seen.values())


class LeanLock:
    def __enter__(self):
        self.f = open(LEAN / '.verif-lake.lock', 'w')
        fcntl.flock(self.f, fcntl.LOCK_EX)
        return self

    def __exit__(self, *a):
        fcntl.flock(self.f, fcntl.LOCK_UN)
        self.f.close()


def run_cmd(cmd: list[str], cwd: Path, timeout: int) -> tuple[int, str]:
    try:
        p = subprocess.run(cmd, cwd=cwd, stdout=subprocess.PIPE, stderr=subprocess.STDOUT,
                           text=True, timeout=timeout)
        return p.returncode, p.stdout
    except subprocess.TimeoutExpired as e:
        return 124, (e.stdout or '') + '\nTIMEOUT'


class Driver:
    """Client of a native Lean driver (`lake exe`-built binary), batch oriented."""

    def __init__(self, exe: str):
        self.path = LEAN / '.lake' / 'build' / 'bin' / exe
        self.lines = 0

    def query(self, reqs: list[Any], timeout: int = 1800) -> list[Any]:
        if not reqs:
            return []
        data = '\n'.join(json.dumps(r, separators=(',', ':')) for r in reqs) + '\n'
        p = subprocess.run([str(self.path)], input=data, stdout=subprocess.PIPE,
                           stderr=subprocess.PIPE, text=True, timeout=timeout)
        if p.returncode != 0:
            raise RuntimeError(f'driver {self.path.name} failed: rc={p.returncode} {p.stderr[:2000]}')
        out = [json.loads(line) for line in p.stdout.splitlines() if line.strip()]
        if len(out) != len(reqs):
            raise RuntimeError(f'driver {self.path.name}: {len(reqs)} requests, {len(out)} answers')
        self.lines += len(reqs)
        return out


class Ctx:
    def __init__(self, prop: str, tier: str, seed: int):
        self.prop = prop
        self.tier = tier
        self.seed = seed
        self.rng = random.Random((seed, prop, tier).__repr__())
        self.t0 = time.time()
        self.budget_s = {'quick': 900, 'thorough': 3300}[tier]
        # lean side
        self.lean_ok = True
        self.lean_log = ''
        self.obligations: list[str] = []
        self.discharged: list[str] = []
        self.broken: list[str] = []          # names of theorems / correspondences that no longer check
        # exploration side
        self.evaluations = 0
        self.nontrivial: set[str] = set()
        self.samples: list[Any] = []
        self.traces = 0                      # cases compared model vs implementation
        self.hist: dict[str, int] = {}
        self.failures: list[dict] = []       # property failures on the real code (with input)
        self.mismatches: list[dict] = []     # implementation != model
        self.known_hits: dict[str, int] = {}
        self.notes: list[str] = []
        self.extra: dict[str, Any] = {}
        self.rule = ''
        self.assumptions: list[str] = []
        self.known = load_known(prop)
        self._finding_status = all_finding_status()

    # ---- bookkeeping -------------------------------------------------------------------
    def quick(self) -> bool:
        return self.tier == 'quick'

    def pick(self, quick: Any, thorough: Any) -> Any:
        return quick if self.tier == 'quick' else thorough

    def elapsed(self) -> float:
        return time.time() - self.t0

    def time_left(self) -> float:
        return self.budget_s - self.elapsed()

    def count(self, key: str, n: int = 1) -> None:
        self.hist[key] = self.hist.get(key, 0) + n

    def case(self, case: Any, nontrivial: bool = True, tag: Optional[str] = None) -> None:
        """Register an explored case (for the evidence statistics)."""
        self.evaluations += 1
        if nontrivial:
            h = hashlib.sha1(json.dumps(case, sort_keys=True, default=str).encode()).hexdigest()
            self.nontrivial.add(h)
        if tag:
            self.count(tag)
        if len(self.samples) < 5 or (len(self.samples) < 12 and self.rng.random() < 0.002):
            self.samples.append(case)

    def mismatch(self, what: str, case: Any, impl: Any, model: Any) -> None:
        """Implementation and Lean model disagree (the tie is broken; not yet a violation)."""
        self.mismatches.append({'correspondence': what, 'case': case, 'impl': impl, 'model': model})

    def failure(self, what: str, case: Any, detail: Any = None) -> None:
        """The real code violates the property on `case` (a concrete failing input)."""
        self.failures.append({'what': what, 'case': case, 'detail': detail})

    def known_hit(self, fid: str, case: Any = None, detail: Any = None) -> None:
        """A failing input matched the rule of listed finding `fid`.  Only findings with status `known` in
        the committed file suppress; a match with a `fixed` (or unlisted) finding is the defect coming back
        and is reported as a violation."""
        status = self._finding_status.get(fid)
        if status is None:
            for e in self.known:            # entries appended by a property module from notes/findings
                if e.get('id') == fid:
                    status = e.get('status')
        if status == 'known':
            self.known_hits[fid] = self.known_hits.get(fid, 0) + 1
        else:
            if case is None:
                # most call sites pass only the id: recover the input the caller was judging from its frame
                # (a local named `case`, else `c`), so that the replay names a concrete failing input
                fr = sys._getframe(1)
                for _ in range(4):
                    if fr is None:
                        break
                    loc = fr.f_locals
                    cand = loc.get('case', loc.get('case0'))
                    if isinstance(cand, dict):
                        case = dict(cand, finding=fid)
                        if detail is None:
                            detail = loc.get('detail')
                        break
                    fr = fr.f_back
            self.failure(f'input matching finding {fid} (status {status or "unlisted"}: not a known finding) fails again',
                         case if case is not None else {'finding': fid}, detail)

    # ---- lean ---------------------------------------------------------------------------
    def lean_build(self, targets: list[str], timeout: int = 1500) -> bool:
        with LeanLock():
            rc, out = run_cmd(['lake', 'build', *targets], LEAN, timeout)
        self.lean_log += out[-6000:]
        if rc != 0:
            self.lean_ok = False
            names = sorted(set(re.findall(r"error: (?:.*?)(XsVerif[\w.']+)", out)))
            files = sorted(set(re.findall(r'(XsVerif/[\w/]+\.lean):\d+', out)))
            self.broken.append('lake build failed: ' + ', '.join(files or names or ['(see log)']))
        return rc == 0

    def lean_audit(self, audit_module: str) -> None:
        """#print axioms for every property theorem; fills obligations/discharged."""
        path = LEAN / (audit_module.replace('.', '/') + '.lean')
        wanted = re.findall(r'^#print axioms\s+([\w.\']+)', path.read_text(), re.M)
        self.obligations = wanted
        with LeanLock():
            rc, out = run_cmd(['lake', 'env', 'lean', str(path.relative_to(LEAN))], LEAN, 900)
        got: dict[str, set[str]] = {}
        for m in re.finditer(r"'([\w.']+)' depends on axioms: \[([^\]]*)\]", out):
            got[m.group(1).split('.')[-1]] = {a.strip() for a in m.group(2).split(',') if a.strip()}
        for m in re.finditer(r"'([\w.']+)' does not depend on any axioms", out):
            got[m.group(1).split('.')[-1]] = set()
        for name in wanted:
            key = name.split('.')[-1]
            if key in got and got[key] <= ALLOWED_AXIOMS:
                self.discharged.append(name)
            else:
                self.lean_ok = False
                self.broken.append(f'theorem {name}: ' + (
                    f'inadmissible axioms {sorted(got[key] - ALLOWED_AXIOMS)}' if key in got
                    else 'not checked (missing or failed to elaborate)'))
        if rc != 0 and not self.broken:
            self.lean_ok = False
            self.broken.append(f'audit {audit_module} failed: {out[-500:]}')

    def lean_grep(self, module: str) -> None:
        for p in import_closure(module):
            code = strip_lean_comments(p.read_text())
            m = FORBIDDEN.search(code)
            if m:
                self.lean_ok = False
                self.broken.append(f'forbidden token {m.group(0).strip()!r} in {p.relative_to(LEAN)}')

    def leanchecker(self, modules: list[str]) -> None:
        with LeanLock():
            rc, out = run_cmd(['lake', 'env', 'leanchecker', *modules], LEAN, 1800)
        self.extra['leanchecker'] = {'modules': modules, 'rc': rc, 'tail': out[-300:]}
        if rc != 0:
            self.lean_ok = False
            self.broken.append(f'leanchecker rejected {modules}: {out[-300:]}')


def load_known(prop: str) -> list[dict]:
    """committed known-findings file (never written at run time)"""
    if not KNOWN_FINDINGS.exists():
        return []
    data = json.loads(KNOWN_FINDINGS.read_text())
    return [e for e in data.get('findings', []) if e.get('property') == prop]


def all_finding_status() -> dict:
    if not KNOWN_FINDINGS.exists():
        return {}
    return {e['id']: e.get('status') for e in json.loads(KNOWN_FINDINGS.read_text()).get('findings', [])}


def write_replay(ctx: Ctx, obj: dict) -> Path:
    REPLAYS.mkdir(exist_ok=True)
    p = REPLAYS / f'{ctx.prop}-{ctx.tier}-{ctx.seed}-{int(time.time())}-{os.getpid()}.json'
    p.write_text(json.dumps(obj, indent=1, default=str))
    return p


def write_evidence(ctx: Ctx, mod: Any, violations: int) -> None:
    EVIDENCE.mkdir(exist_ok=True)
    n_nontrivial = len(ctx.nontrivial)
    cov: dict[str, Any] = {
        'obligations': len(ctx.obligations),
        'discharged': len(ctx.discharged),
        'theorems': ctx.discharged,
        'checker_cmd': f'cd /verif/lean && lake build {" ".join(getattr(mod, "LEAN_TARGETS", []))} && '
                       f'lake env lean {getattr(mod, "AUDIT", "").replace(".", "/")}.lean',
        'trusted_base': TRUSTED_BASE + list(getattr(mod, 'TRUSTED', [])),
        'evaluations': ctx.evaluations,
        'distinct_nontrivial': n_nontrivial,
        'rule': ctx.rule or getattr(mod, 'RULE', ''),
        'samples': ctx.samples[:12],
        'traces_validated_against_impl': ctx.traces,
        'histogram': dict(sorted(ctx.hist.items())),
        'model_vs_impl_mismatches': len(ctx.mismatches),
        'property_failures_on_impl': len(ctx.failures),
        'known_findings_reconfirmed': ctx.known_hits,
        'broken_obligations': ctx.broken,
        'exhaustive': bool(ctx.extra.get('exhaustive', False)),
    }
    cov.update({k: v for k, v in ctx.extra.items() if k != 'exhaustive'})
    ev = {
        'property_id': ctx.prop,
        'tier': ctx.tier,
        'seed': ctx.seed,
        'level': 'proof',
        'coverage': cov,
        'assumptions': list(getattr(mod, 'ASSUMPTIONS', [])) + ctx.assumptions + ctx.notes,
        'wall_s': round(ctx.elapsed(), 2),
        'violations': violations,
    }
    (EVIDENCE / f'{ctx.prop}.json').write_text(json.dumps(ev, indent=1, default=str) + '\n')


def decide(ctx: Ctx, mod: Any) -> int:
    """The decision rule of DESIGN.md §0."""
    # known findings re-confirmed on this run
    seen_ids = set()
    for e in ctx.known:
        if e['id'] in seen_ids:
            continue
        seen_ids.add(e['id'])
        if e.get('status') == 'known' and ctx.known_hits.get(e['id']):
            print(f"KNOWN-FINDING: property={ctx.prop} {e['id']} {e['what']} "
                  f"[{ctx.known_hits[e['id']]} matching case(s) on this run]")
    rc = 0
    if ctx.failures:
        f = ctx.failures[0]
        p = write_replay(ctx, {'property': ctx.prop, 'kind': 'failing-input', 'what': f['what'],
                               'input': f['case'], 'detail': f['detail'],
                               'more': len(ctx.failures) - 1,
                               'broken': ctx.broken, 'seed': ctx.seed, 'tier': ctx.tier})
        print(f'VIOLATION property={ctx.prop} replay={p}')
        rc = 1
    elif ctx.mismatches or not ctx.lean_ok:
        # a proof obligation or the correspondence broke; the search has already run (the
        # property modules evaluate the property on the real code for every explored case and
        # `search` widens the exploration); nothing failed on the implementation.
        broken = list(ctx.broken)
        if ctx.mismatches:
            kinds = sorted({m['correspondence'] for m in ctx.mismatches})
            broken.append('correspondence (implementation vs Lean model) no longer holds: ' + ', '.join(kinds))
        p = write_replay(ctx, {'property': ctx.prop, 'kind': 'broken-obligation', 'broken': broken,
                               'first_mismatches': ctx.mismatches[:5], 'lean_log_tail': ctx.lean_log[-3000:],
                               'seed': ctx.seed, 'tier': ctx.tier})
        print(f'VIOLATION property={ctx.prop} replay={p} no-failing-input-found')
        rc = 1
    return rc


def main_check(prop: str, tier: str, seed: int, replay: Optional[str]) -> int:
    import importlib
    sys.path.insert(0, str(VERIF))
    mod = importlib.import_module(f'harness.props.{prop.lower()}')
    ctx = Ctx(prop, tier, seed)
    if replay:
        obj = json.loads(Path(replay).read_text())
        return mod.replay(ctx, obj)
    try:
        # 1. translator: regenerate tables from /repo (no-op for properties without tables)
        if hasattr(mod, 'translate'):
            mod.translate(ctx)
        # 2. Lean: build theorems + driver, audit
        built = ctx.lean_build(mod.LEAN_TARGETS)
        for _m in ([mod.PROPS] if isinstance(mod.PROPS, str) else list(mod.PROPS)):
            ctx.lean_grep(_m)
        if built:
            ctx.lean_audit(mod.AUDIT)
            if tier == 'thorough' and getattr(mod, 'LEANCHECK', None):
                ctx.leanchecker(mod.LEANCHECK)
        else:
            ctx.obligations = re.findall(r'^#print axioms\s+([\w.\']+)',
                                         (LEAN / (mod.AUDIT.replace('.', '/') + '.lean')).read_text(), re.M)
        # 3. correspondence + property evaluation on the real code
        driver_ok = built and all((LEAN / '.lake/build/bin' / t).exists()
                                   for t in mod.LEAN_TARGETS if t.startswith('drv_'))
        mod.run(ctx, driver_ok)
        # 4. a broken obligation/correspondence without a failing input: widen the search
        if (ctx.mismatches or not ctx.lean_ok) and not ctx.failures and hasattr(mod, 'search'):
            # time-boxed for every property (the modules have their own caps, this is the backstop): the widened
            # search may not turn a quick check into a 20-minute run
            import signal

            class _SearchTimeout(BaseException):
                pass

            def _alarm(signum, frame):
                raise _SearchTimeout()
            cap = int(os.environ.get('VERIF_SEARCH_CAP', '150' if tier == 'quick' else '900'))
            old_handler = signal.signal(signal.SIGALRM, _alarm)
            signal.alarm(cap)
            try:
                mod.search(ctx)
            except _SearchTimeout:
                ctx.notes.append(f'widened search stopped at its time box ({cap} s)')
            finally:
                signal.alarm(0)
                signal.signal(signal.SIGALRM, old_handler)
    except Timeout:
        print(f'TIMEOUT property={prop} after {ctx.elapsed():.0f}s', file=sys.stderr)
        write_evidence(ctx, mod, 0)
        return 2
    except Exception as exc:
        # An exception that is NOT of the library's hierarchy and was raised INSIDE the library under test while a
        # check was driving it is itself a failing input of the run (no property admits a raw AttributeError/TypeError
        # ... escaping from the public calls the harnesses make); anything else is a crash of the harness (exit 2).
        tb = traceback.extract_tb(exc.__traceback__)
        lib_root = os.path.join(os.environ.get('XMLSCHEMA_REPO') or '/repo', 'xmlschema') + os.sep
        in_lib = bool(tb) and tb[-1].filename.startswith(lib_root)
        is_lib_exc = any(c.__module__.startswith('xmlschema') for c in type(exc).__mro__)
        if in_lib and not is_lib_exc and not isinstance(exc, (MemoryError, RecursionError)):
            frames = [f'{f.filename}:{f.lineno} {f.name}' for f in tb[-12:]]
            ctx.failure('an exception outside the library hierarchy escaped from the library while the check was '
                        'driving it (the run stopped there)',
                        {'exception': type(exc).__name__, 'message': str(exc)[:300]}, {'traceback': frames})
        else:
            traceback.print_exc()
            ctx.notes.append('harness crashed: ' + traceback.format_exc()[-800:])
            write_evidence(ctx, mod, 0)
            return 2
    rc = decide(ctx, mod)
    write_evidence(ctx, mod, 1 if rc == 1 else 0)
    tag = 'ok' if rc == 0 else 'VIOLATION'
    print(f'[{prop}] {tag}: {len(ctx.discharged)}/{len(ctx.obligations)} theorems, '
          f'{ctx.evaluations} cases ({len(ctx.nontrivial)} distinct non-trivial), '
          f'{ctx.traces} model-vs-impl comparisons, {len(ctx.mismatches)} mismatches, '
          f'{len(ctx.failures)} failures, {ctx.elapsed():.1f}s')
    return rc
