"""
C13 — the prolog grammar on the Python side: syntax trees (the JSON form the Lean driver `drv_c13`
op `prolog` reads, see lean/XsVerif/Driver/C13.lean namespace P), their generators, a plain Python
printer (used only when the Lean driver is unavailable, and compared byte for byte with the Lean
`Prolog.render` otherwise) and the DIRECT reading of the property on the tree.

  prolog  = {bom, xmldecl: null | {encoding, standalone}, misc1: [misc], doctype: null | {name, ext, subset}, misc2}
  misc    = ["comment", s] | ["pi", target, data] | ["space", s]
  extid   = ["system", lit] | ["public", lit, lit]          lit = ["dq" | "sq", s]
  decl    = ["entity", param?, name, ["value", lit] | ["ext", extid] | ["ndata", extid, notation]]
          | ["notation", name, extid] | ["element", name, spec] | ["attlist", elem, [[name, type, default]]]
          | ["comment", s] | ["pi", target, data] | ["peref", name] | ["space", s]
  default = ["kw", s] | ["lit", lit] | ["fixed", lit]
"""
from __future__ import annotations

import copy
import itertools
import json
import random
from typing import Any, Iterator, Optional


def lit(s: str, q: str = 'dq') -> list:
    return [q, s]


def prolog(xmldecl: Optional[dict] = None, misc1: Optional[list] = None, doctype: Optional[dict] = None,
           misc2: Optional[list] = None, bom: bool = False) -> dict:
    return {'bom': bom, 'xmldecl': xmldecl, 'misc1': misc1 or [], 'doctype': doctype, 'misc2': misc2 or []}


def doctype(name: str = '{root}', ext: Optional[list] = None, subset: Optional[list] = None) -> dict:
    return {'name': name, 'ext': ext, 'subset': subset}


def with_root(ast: dict, rootname: str) -> dict:
    return json.loads(json.dumps(ast).replace('{root}', rootname))


# ----------------------------------------------------------------------------------------------
# plain printer (fallback + cross-check of Prolog.render)
# ----------------------------------------------------------------------------------------------
def _lit(l: list) -> str:
    q = '"' if l[0] == 'dq' else "'"
    return q + l[1] + q


def _ext(e: list) -> str:
    return 'SYSTEM ' + _lit(e[1]) if e[0] == 'system' else 'PUBLIC ' + _lit(e[1]) + ' ' + _lit(e[2])


def _misc(m: list) -> str:
    if m[0] == 'comment':
        return '<!--' + m[1] + '-->'
    if m[0] == 'pi':
        return '<?' + m[1] + ' ' + m[2] + '?>'
    return m[1]


def _decl(d: list) -> str:
    k = d[0]
    if k == 'entity':
        df = d[3]
        body = _lit(df[1]) if df[0] == 'value' else _ext(df[1]) if df[0] == 'ext' else _ext(df[1]) + ' NDATA ' + df[2]
        return '<!ENTITY ' + ('% ' if d[1] else '') + d[2] + ' ' + body + '>'
    if k == 'notation':
        return '<!NOTATION ' + d[1] + ' ' + _ext(d[2]) + '>'
    if k == 'element':
        return '<!ELEMENT ' + d[1] + ' ' + d[2] + '>'
    if k == 'attlist':
        s = '<!ATTLIST ' + d[1]
        for a in d[2]:
            df = a[2]
            s += ' ' + a[0] + ' ' + a[1] + ' ' + (df[1] if df[0] == 'kw' else _lit(df[1]) if df[0] == 'lit'
                                                  else '#FIXED ' + _lit(df[1]))
        return s + '>'
    if k == 'peref':
        return '%' + d[1] + ';'
    return _misc(d)


def py_render(ast: dict) -> bytes:
    s = ''
    x = ast['xmldecl']
    if x is not None:
        s += '<?xml version="1.0"'
        if x.get('encoding') is not None:
            s += ' encoding="' + x['encoding'] + '"'
        if x.get('standalone') is not None:
            s += ' standalone="' + ('yes' if x['standalone'] else 'no') + '"'
        s += '?>'
    s += ''.join(_misc(m) for m in ast['misc1'])
    d = ast['doctype']
    if d is not None:
        s += '<!DOCTYPE ' + d['name']
        if d.get('ext') is not None:
            s += ' ' + _ext(d['ext'])
        if d.get('subset') is not None:
            s += ' [' + ''.join(_decl(x) for x in d['subset']) + ']'
        s += '>'
    s += ''.join(_misc(m) for m in ast['misc2'])
    return (b'\xef\xbb\xbf' if ast['bom'] else b'') + s.encode('utf-8')


# ----------------------------------------------------------------------------------------------
# the direct reading of the property on the tree
# ----------------------------------------------------------------------------------------------
def must_refuse(ast: dict) -> bool:
    """the document "declares an internal, external, parameter or unparsed entity, or references an
    external DTD subset" """
    d = ast['doctype']
    if d is None:
        return False
    return d.get('ext') is not None or any(x[0] == 'entity' for x in (d.get('subset') or []))


def standalone(ast: dict) -> bool:
    return bool(ast['xmldecl'] and ast['xmldecl'].get('standalone') is True)


def irregular_kind(ast: dict) -> Optional[str]:
    """Which of the two known deviations (findings C13-F4 / C13-F5) a must-refuse prolog falls under, if any:
    only used to recognise the known findings, never to compute an expectation."""
    d = ast['doctype']
    if d is None or not must_refuse(ast):
        return None
    sa = standalone(ast)
    subset = d.get('subset') or []
    ents = [i for i, x in enumerate(subset) if x[0] == 'entity']
    perefs = [i for i, x in enumerate(subset) if x[0] == 'peref']
    entity_before_any_peref = bool(ents) and (not perefs or ents[0] < perefs[0])
    if entity_before_any_peref:
        return None
    if sa:
        # declarations stay processed in a standalone document: any entity declaration is reached
        return None if ents else ('standalone-external' if d.get('ext') is not None else None)
    if d.get('ext') is not None:
        return None                                   # the external identifier is reached when the DOCTYPE closes
    return 'peref' if ents else None


# ----------------------------------------------------------------------------------------------
# generators
# ----------------------------------------------------------------------------------------------
def items(mark: str, secret: str, ext: str) -> dict[str, list]:
    """the alphabet of the exhaustive small-scope family"""
    return {
        'E': ['entity', False, 'e', ['value', lit(mark)]],
        'X': ['entity', False, 'x', ['ext', ['system', lit(secret)]]],
        'Q': ['entity', True, 'q', ['value', lit('<!ELEMENT y ANY>')]],
        'R': ['entity', True, 'r2', ['ext', ['public', lit('-//X//Y'), lit(ext, 'sq')]]],
        'U': ['entity', False, 'u', ['ndata', ['system', lit('u.gif')], 'n']],
        'P': ['peref', 'p'],
        'L': ['element', 'x', '(#PCDATA)'],
        'A': ['attlist', 'x', [['a', 'CDATA', ['lit', lit('a>b]>')]], ['b', 'CDATA', ['kw', '#IMPLIED']],
                               ['c', '(u|v)', ['fixed', lit('u', 'sq')]]]],
        'N': ['notation', 'n', ['system', lit("<!ENTITY e 'x'>")]],
        'C': ['comment', ' <!ENTITY e "x"> ]> - '],
        'I': ['pi', 'p', '<!ENTITY e "x"> ]> ?'],
        'S': ['space', '\n\t '],
    }


def small_scope(mark: str, secret: str, ext: str, maxlen: int) -> Iterator[tuple[str, dict]]:
    """standalone x external identifier x internal subset (absent / every sequence of at most `maxlen` items)"""
    it = items(mark, secret, ext)
    exts = {'-': None, 'S': ['system', lit(ext)], 'P': ['public', lit('-//X//Y'), lit(secret, 'sq')]}
    seqs: list[Optional[str]] = [None]
    for n in range(maxlen + 1):
        seqs += [''.join(t) for t in itertools.product(sorted(it), repeat=n)]
    for sa in (None, True, False):
        for en, e in exts.items():
            for seq in seqs:
                subset = None if seq is None else [copy.deepcopy(it[c]) for c in seq]
                x = None if sa is None else {'encoding': None, 'standalone': sa}
                name = f'sa={sa},ext={en},subset={"-" if seq is None else "[" + seq + "]"}'
                yield name, prolog(xmldecl=x, doctype=doctype('{root}', e, subset))
    # prologs without DOCTYPE
    yield 'no-doctype', prolog(xmldecl={'encoding': 'UTF-8', 'standalone': None},
                               misc1=[['comment', ' c '], ['pi', 'p', 'd'], ['space', '\n']])


NAME_START = 'abcdefghijklmnopqrstuvwxyzABCDEFGHIJKLMNOPQRSTUVWXYZ_'
NAME_CHAR = NAME_START + '0123456789-.'
TEXT = ['a', 'b', ' ', '<', '>', ']', '[', '%', '&', ';', '!', 'ENTITY', '<!ENTITY e "x">', ']>', '--', '-', '?', '?>',
        '"', "'", 'SYSTEM', 'N', '\n', 'é', '€', '<!--', '-->']


def rname(rng: random.Random, avoid: tuple = ('xml',)) -> str:
    while True:
        n = rng.choice(NAME_START) + ''.join(rng.choice(NAME_CHAR) for _ in range(rng.randint(0, 5)))
        if n.lower() not in avoid and not n.lower().startswith('xml'):
            return n


def rtext(rng: random.Random, forbid: tuple, maxn: int = 6) -> str:
    s = ''.join(rng.choice(TEXT) for _ in range(rng.randint(0, maxn)))
    for f in forbid:
        s = s.replace(f, '')
        while f in s:
            s = s.replace(f, '')
    return s


def rlit(rng: random.Random, extra_forbid: tuple = ()) -> list:
    q = rng.choice(['dq', 'sq'])
    return [q, rtext(rng, ('"' if q == 'dq' else "'",) + extra_forbid)]


def rcomment(rng: random.Random) -> str:
    s = rtext(rng, ('--',))
    while s.endswith('-') or '--' in s:
        s = s.replace('--', '-').rstrip('-')
    return s


def rextid(rng: random.Random) -> list:
    if rng.random() < 0.5:
        return ['system', rlit(rng)]
    q = rng.choice(['dq', 'sq'])
    pub = ''.join(rng.choice("abc-//()+,.:=?;!*#@$_% 0123456789" + ("'" if q == 'dq' else '')) for _ in range(rng.randint(0, 8)))
    return ['public', [q, pub], rlit(rng)]


def rdecl(rng: random.Random) -> list:
    r = rng.random()
    if r < 0.30:
        param = rng.random() < 0.3
        k = rng.random()
        if k < 0.5:
            # entity values: '%' and '&' start references inside a literal entity value, '<' is allowed
            df = ['value', rlit(rng, ('%', '&'))]
        elif k < 0.8 or param:
            df = ['ext', rextid(rng)]
        else:
            df = ['ndata', rextid(rng), rname(rng)]
        return ['entity', param, rname(rng), df]
    if r < 0.40:
        return ['notation', rname(rng), rextid(rng)]
    if r < 0.52:
        return ['element', rname(rng), rng.choice(['ANY', 'EMPTY', '(#PCDATA)', '(a,b?)*', '(#PCDATA|a)*'])]
    if r < 0.64:
        atts = []
        for _ in range(rng.randint(0, 3)):
            k = rng.random()
            # attribute defaults: no '<', no '&' (references), any other text
            df = (['kw', rng.choice(['#IMPLIED', '#REQUIRED'])] if k < 0.4 else
                  ['lit', rlit(rng, ('<', '&'))] if k < 0.8 else ['fixed', rlit(rng, ('<', '&'))])
            atts.append([rname(rng), rng.choice(['CDATA', 'ID', 'NMTOKENS', '(u|v)']), df])
        return ['attlist', rname(rng), atts]
    if r < 0.76:
        return ['comment', rcomment(rng)]
    if r < 0.86:
        return ['pi', rname(rng), rtext(rng, ('?>',))]
    if r < 0.92:
        return ['peref', rname(rng)]
    return ['space', ''.join(rng.choice(' \t\n\r') for _ in range(rng.randint(0, 3)))]


def rmisc(rng: random.Random) -> list:
    r = rng.random()
    if r < 0.4:
        return ['comment', rcomment(rng)]
    if r < 0.7:
        return ['pi', rname(rng), rtext(rng, ('?>',))]
    return ['space', ''.join(rng.choice(' \t\n\r') for _ in range(rng.randint(1, 3)))]


def random_prolog(rng: random.Random) -> dict:
    x = None
    if rng.random() < 0.6:
        x = {'encoding': rng.choice([None, 'UTF-8', 'utf-8']), 'standalone': rng.choice([None, None, True, False])}
    d = None
    if rng.random() < 0.85:
        d = doctype('{root}', rextid(rng) if rng.random() < 0.3 else None,
                    [rdecl(rng) for _ in range(rng.randint(0, 6))] if rng.random() < 0.85 else None)
    return prolog(xmldecl=x, misc1=[rmisc(rng) for _ in range(rng.randint(0, 2))], doctype=d,
                  misc2=[rmisc(rng) for _ in range(rng.randint(0, 2))], bom=rng.random() < 0.15)


def verdict_str(v: Any) -> str:
    if not isinstance(v, dict):
        return str(v)
    return v['v'] + (':' + v['name'] if 'name' in v else '')
