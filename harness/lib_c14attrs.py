"""
C14, attribute uses: generated (base complex type, restriction) pairs that differ in their attribute
declarations and attribute wildcards.

Per pair the real schema is built (lax); the base group, the declarations made by the restriction and the
attribute group the derived type ended up with are *introspected* and sent to drv_c14 (`op: attrs`):
  correspondence   restriction errors of the build vs `AttrRestr.check`; the derived type's attribute group vs
                   `AttrRestr.merged`; validity of a catalogue of attribute sets for both elements vs
                   `Attributes.errors … = []` (C03 model) on the merged / base group
  property         accepted schema ⇒ every attribute set valid for the derived element is valid for the base
                   element (evaluated on the real code)
Simple-type facts (validity of a lexical value, value equality, derivation, normalisation of fixed values) are
recorded from the real types: they are parameters of the theorems (C02's business).
"""
from __future__ import annotations

import re
from typing import Any, Optional
from xml.etree import ElementTree as ET

XSD = 'http://www.w3.org/2001/XMLSchema'
T, O = 'urn:t', 'urn:o'
VALUES = ['3', '5', '7', 'x', ' 3', '03']
TYPES = ['xs:int', 'xs:decimal', 'xs:string', 'xs:token', 't:small', None]       # None = no type attribute
USES = ['optional', 'required', 'prohibited']
WILD_NS = ['##any', '##other', '##local', 'urn:o', '##targetNamespace', '##local urn:t']
PCS = ['lax', 'strict', 'skip']

O_SCHEMA = (f'<xs:schema xmlns:xs="{XSD}" targetNamespace="{O}"><xs:attribute name="z" type="xs:int"/></xs:schema>')

# attribute sets of the instances: (name, value) lists
NAMES = ['a', 'b', '{%s}w' % T, '{%s}z' % O, 'q', '{%s}u' % T]


def catalogue(rng, n_extra: int) -> list[list[tuple[str, str]]]:
    cat: list[list[tuple[str, str]]] = [[]]
    for n in NAMES:
        for v in ('3', 'x'):
            cat.append([(n, v)])
    cat += [[('a', '5')], [('a', '7')], [('a', ' 3')], [('a', '03')], [('a', '3'), ('b', '3')], [('a', '3'), ('b', 'x')],
            [('a', '3'), ('{%s}z' % O, '3')], [('b', '5'), ('q', '1')], [('{%s}w' % T, '5'), ('a', 'x')]]
    for _ in range(n_extra):
        k = rng.randint(1, 3)
        cat.append([(n, rng.choice(VALUES)) for n in rng.sample(NAMES, k)])
    return cat


# ---------------------------------------------------------------------------------------------
# specs: {'decls': [(name, use, fixed, type, default)], 'any': None | (ns, pc, notQName)}
# name 'w' = a local declaration with form="qualified" ({urn:t}w); 'W' = a reference to the global t:w

def decl_xml(d: tuple) -> str:
    name, use, fixed, typ, default = d
    if name == 'W':
        s = '<xs:attribute ref="t:w"'
    else:
        s = f'<xs:attribute name="{name}"' + (' form="qualified"' if name == 'w' else '')
        if typ is not None:
            s += f' type="{typ}"'
    if use != 'optional' or name == 'b':
        s += f' use="{use}"'
    if fixed is not None:
        s += f' fixed="{fixed}"'
    if default is not None:
        s += f' default="{default}"'
    return s + '/>'


def group_xml(g: dict, v11: bool) -> str:
    out = ''.join(decl_xml(d) for d in g['decls'])
    if g['any'] is not None:
        ns, pc, notq = g['any']
        out += f'<xs:anyAttribute namespace="{ns}" processContents="{pc}"' + \
               (f' notQName="{notq}"' if notq and v11 else '') + '/>'
    return out


def schema_text(b: dict, d: dict, v11: bool) -> str:
    return (f'<xs:schema xmlns:xs="{XSD}" targetNamespace="{T}" xmlns:t="{T}" xmlns:o="{O}" '
            'elementFormDefault="qualified">'
            f'<xs:import namespace="{O}"/>'
            '<xs:simpleType name="small"><xs:restriction base="xs:int"><xs:maxInclusive value="5"/></xs:restriction>'
            '</xs:simpleType><xs:attribute name="w" type="xs:int"/>'
            f'<xs:complexType name="B">{group_xml(b, v11)}</xs:complexType>'
            f'<xs:complexType name="D"><xs:complexContent><xs:restriction base="t:B">{group_xml(d, v11)}'
            '</xs:restriction></xs:complexContent></xs:complexType>'
            '<xs:element name="eb" type="t:B"/><xs:element name="ed" type="t:D"/></xs:schema>')


def build(b: dict, d: dict, v11: bool) -> Any:
    import xmlschema
    cls = xmlschema.XMLSchema11 if v11 else xmlschema.XMLSchema10
    return cls([schema_text(b, d, v11), O_SCHEMA], validation='lax')


def gen_decl(rng, name: str) -> tuple:
    use = rng.choice(['optional', 'optional', 'required', 'prohibited'])
    typ = rng.choice(TYPES)
    fixed = default = None
    if use != 'prohibited':
        r = rng.random()
        if r < 0.2:
            fixed = rng.choice(['3', '5', ' 3'])
        elif r < 0.3 and use == 'optional':
            default = rng.choice(['3', '5'])
    if name == 'W':
        typ = None
    return (name, use, fixed, typ, default)


def gen_any(rng, v11: bool) -> Optional[tuple]:
    if rng.random() < 0.45:
        return None
    return (rng.choice(WILD_NS), rng.choice(PCS + ['lax']), rng.choice([None, None, 'a', 't:w']) if v11 else None)


def gen_base(rng, v11: bool) -> dict:
    names = rng.sample(['a', 'b', 'w', 'W'], rng.randint(0, 3))
    if 'w' in names and 'W' in names:
        names.remove('W')
    return {'decls': [gen_decl(rng, n) for n in names], 'any': gen_any(rng, v11)}


NARROW_TYPE = {'xs:decimal': ['xs:int', 't:small'], 'xs:int': ['t:small'], 'xs:string': ['xs:token'], None: TYPES}


def gen_derived(rng, b: dict, v11: bool) -> dict:
    decls = []
    for d in b['decls']:
        name, use, fixed, typ, default = d
        r = rng.random()
        if r < 0.3:
            decls.append(d)
        elif r < 0.45:
            continue
        elif r < 0.65:
            decls.append((name, rng.choice(USES), fixed, typ, None))
        elif r < 0.8:
            t2 = rng.choice(NARROW_TYPE.get(typ, TYPES)) if rng.random() < 0.6 else rng.choice(TYPES)
            decls.append((name, use, fixed, None if name == 'W' else t2, default))
        elif r < 0.9:
            decls.append((name, use if use != 'prohibited' else 'optional', rng.choice([None, '3', '5', ' 3', '03']), typ, None))
        else:
            decls.append(gen_decl(rng, name))
    have = {d[0] for d in decls} | ({'w', 'W'} if any(d[0] in 'wW' for d in decls) else set())
    if rng.random() < 0.3:
        new = [n for n in ['a', 'b', 'w', 'W'] if n not in have and n not in {d[0] for d in b['decls']}]
        if new:
            decls.append(gen_decl(rng, rng.choice(new)))
    r = rng.random()
    if r < 0.45:
        anyw = b['any']
    elif r < 0.65:
        anyw = None
    elif r < 0.8 and b['any'] is not None:
        anyw = (b['any'][0], rng.choice(PCS), b['any'][2])
    else:
        anyw = gen_any(rng, v11)
    return {'decls': decls, 'any': anyw}


def systematic_pairs() -> list[tuple[dict, dict]]:
    """the single-attribute family of the property text: use × fixed × type × wildcard, base × derived"""
    specs = [(u, f, t, n) for u in (None, 'optional', 'required', 'prohibited') for f in (None, '3', '5')
             for t in ('xs:int', 'xs:string') for n in (None, '##any', '##other', '##local', 'urn:o')
             if not (u is None and (f is not None or t != 'xs:int')) and not (u == 'prohibited' and f is not None)]

    def grp(s):
        u, f, t, n = s
        return {'decls': [] if u is None else [('a', u, f, t, None)], 'any': None if n is None else (n, 'lax', None)}
    return [(grp(b), grp(d)) for b in specs for d in specs]


# ---------------------------------------------------------------------------------------------
# introspection

def qn(name: str) -> list[str]:
    if name[:1] == '{':
        ns, loc = name[1:].split('}')
        return [ns, loc]
    return ['', name]


class Types:
    """identities of the simple types met, with the recorded facts the rules and the validator use"""

    def __init__(self) -> None:
        self.objs: list[Any] = []

    def tid(self, t: Any) -> int:
        for i, o in enumerate(self.objs):
            if o is t:
                return i
        self.objs.append(t)
        return len(self.objs) - 1

    def tables(self, values: list[str], fixed_values: list[str]) -> dict:
        derived = [[i, j] for i, x in enumerate(self.objs) for j, y in enumerate(self.objs)
                   if x.is_derived(y, 'restriction')]
        any_simple = [i for i, x in enumerate(self.objs) if x.name == '{%s}anySimpleType' % XSD]
        valid, cls, norm = [], [], []
        for i, x in enumerate(self.objs):
            classes: list[Any] = []
            for v in values:
                if x.is_valid(v):
                    valid.append([i, v])
                try:
                    val = x.decode(v, validation='skip')
                except Exception:
                    val = None
                if val is None or not x.is_valid(v) and isinstance(val, str) and x.name != '{%s}string' % XSD \
                        and not isinstance(x.decode('3', validation='skip'), str):
                    continue
                for k, c in enumerate(classes):
                    if type(c) is type(val) and c == val:
                        cls.append([i, v, k])
                        break
                else:
                    classes.append(val)
                    cls.append([i, v, len(classes) - 1])
            for f in fixed_values:
                norm.append([i, f, x.normalize(f)])
        return {'derived': derived, 'anySimple': any_simple, 'valid': valid, 'cls': cls, 'norm': norm}


def intro_decl(a: Any, types: Types, schema: Any) -> dict:
    return {'n': qn(a.name), 'use': a.use or 'optional', 'fixed': a.fixed, 'default': a.default,
            'ty': types.tid(a.type), 'same': bool(a.schema is schema)}


def intro_wild(w: Any) -> dict:
    from harness.props.c16 import introspect
    return {'wc': introspect(w), 'pc': w.process_contents}


def intro_group(items: list, types: Types, schema: Any) -> dict:
    decls, anyw = [], None
    for k, a in items:
        if k is None:
            anyw = intro_wild(a)
        else:
            decls.append(intro_decl(a, types, schema))
    return {'decls': decls, 'any': anyw}


def introspect(schema: Any) -> dict:
    types = Types()
    B = schema.types['B'].attributes
    D = schema.types['D'].attributes
    base = dict(B._attribute_group.items())
    mitems = list(D._attribute_group.items())
    declared = []
    for k, a in mitems:
        if k is None:
            bw = base.get(None)
            if bw is None or a.elem is not bw.elem:
                declared.append((k, a))
        elif base.get(k) is not a:
            declared.append((k, a))
    ms = schema.maps
    globs = [intro_decl(a, types, schema) for k, a in ms.attributes.items()
             if k.startswith('{%s}' % T) or k.startswith('{%s}' % O)]
    return {'B': intro_group(list(base.items()), types, schema), 'D': intro_group(declared, types, schema),
            'M': intro_group(mitems, types, schema), 'globals': globs, 'loaded': sorted(ms.namespaces), 'types': types}


ERRS = [
    (re.compile(r"Unexpected attribute (None|'[^']*') in restriction"), 'unexpected'),
    (re.compile(r'Attribute wildcard is not a restriction of the base wildcard'), 'wildcard'),
    (re.compile(r'Attribute type is not a restriction of the base attribute type'), 'type'),
    (re.compile(r"Attribute ('[^']*'): unmatched attribute use in restriction"), 'use'),
    (re.compile(r"Attribute ('[^']*'): derived attribute has a different fixed value"), 'fixed'),
]


def restriction_errors(schema: Any) -> tuple[list, list[str]]:
    """(classified restriction errors of the derived type, other error messages of the schema)"""
    out, other = [], []
    for e in schema.all_errors:
        msg = str(e.message)
        for rx, kind in ERRS:
            m = rx.search(msg)
            if m:
                if kind in ('wildcard', 'type'):
                    out.append([kind])
                elif m.group(1) == 'None':
                    out.append([kind, '', 'None'])
                else:
                    out.append([kind] + qn(m.group(1)[1:-1]))
                break
        else:
            other.append(msg[:100])
    return sorted(out), other


def canon_model_errs(errs: list) -> list:
    return sorted([[e[0]] if e[0] in ('wildcard', 'type') else list(e) for e in errs])


def canon_group(g: dict) -> dict:
    from harness.props.c16 import canon
    # the order of the dict entries is immaterial here (lookups by name); C03 owns the decoding order
    return {'decls': sorted(({k: d[k] for k in ('n', 'use', 'fixed', 'ty')} for d in g['decls']), key=lambda d: d['n']),
            'any': None if g['any'] is None else {'wc': canon(g['any']['wc']), 'pc': g['any']['pc']}}


def valid_instance(schema: Any, name: str, attrs: list[tuple[str, str]]) -> bool:
    return schema.elements[name].is_valid(ET.Element('{%s}%s' % (T, name), dict(attrs)))
