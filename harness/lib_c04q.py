"""
Schema family Q of the C04 check: IDENTITY CONSTRAINTS OVER PREFIX-DEPENDENT FIELDS in documents with
NESTED NAMESPACE DECLARATIONS, and a meaning-preserving re-declaration transform for every family.

All documents of the other families declare their namespaces on the root element only, so the
prefix map in force when something is resolved late in an element (identity fields are collected
after the children were processed, elements.py `collect_key_fields`) is trivially the right one.
Family Q has

    xs:unique  codes   item/@code            xs:QName attribute
    xs:keyref  refs    ref/@to   -> codes    xs:QName attribute
    xs:key     subkey  item/sub/@code        xs:QName attribute, one level deeper
    xs:unique  quniq   item/q                xs:QName element content
    xs:unique  lists   item/@codes           list of xs:QName
    xs:unique  nums    item/@n               xs:int (control: not prefix-dependent)

and documents in which the prefix used by a field value is re-bound
    on the LAST child / a middle child / the last descendant chain of the selected element,
    on the selected element itself, on a following / preceding sibling, on the root only,
to the same or to another namespace, so that two values are / are not the same expanded name.
The expected verdict of the identity constraints is computed from the XML Namespaces scoping rules
(lxml) only to balance the generator — the check itself is the agreement of the entry points.

Everything is derived from the `random.Random` instance passed in.
"""
from __future__ import annotations

import re
from typing import Any, Optional

XSD_Q = '''<xs:schema xmlns:xs="http://www.w3.org/2001/XMLSchema">
 <xs:simpleType name="qnames"><xs:list itemType="xs:QName"/></xs:simpleType>
 <xs:element name="root"><xs:complexType><xs:sequence>
   <xs:element name="item" minOccurs="0" maxOccurs="unbounded"><xs:complexType><xs:sequence>
      <xs:element name="q" type="xs:QName" minOccurs="0"/>
      <xs:element name="note" type="xs:string" minOccurs="0" maxOccurs="unbounded"/>
      <xs:element name="sub" minOccurs="0"><xs:complexType><xs:sequence>
         <xs:element name="note" type="xs:string" minOccurs="0" maxOccurs="unbounded"/></xs:sequence>
         <xs:attribute name="code" type="xs:QName" use="required"/></xs:complexType></xs:element>
      <xs:element name="tail" type="xs:string" minOccurs="0"/>
     </xs:sequence>
     <xs:attribute name="code" type="xs:QName"/>
     <xs:attribute name="codes" type="qnames"/>
     <xs:attribute name="n" type="xs:int"/>
   </xs:complexType></xs:element>
   <xs:element name="ref" minOccurs="0" maxOccurs="unbounded"><xs:complexType>
      <xs:sequence><xs:element name="note" type="xs:string" minOccurs="0"/></xs:sequence>
      <xs:attribute name="to" type="xs:QName"/></xs:complexType></xs:element>
  </xs:sequence></xs:complexType>
  <xs:unique name="codes"><xs:selector xpath="item"/><xs:field xpath="@code"/></xs:unique>
  <xs:keyref name="refs" refer="codes"><xs:selector xpath="ref"/><xs:field xpath="@to"/></xs:keyref>
  <xs:key name="subkey"><xs:selector xpath="item/sub"/><xs:field xpath="@code"/></xs:key>
  <xs:unique name="quniq"><xs:selector xpath="item"/><xs:field xpath="q"/></xs:unique>
  <xs:unique name="lists"><xs:selector xpath="item"/><xs:field xpath="@codes"/></xs:unique>
  <xs:unique name="nums"><xs:selector xpath="item"/><xs:field xpath="@n"/></xs:unique>
 </xs:element>
</xs:schema>'''

URIS = ['urn:a', 'urn:b', 'urn:c']
FIELDS = ['code', 'q', 'sub', 'codes', 'n']          # which identity field of the two items is exercised
REBIND_AT = ['none', 'last-child', 'middle-child', 'last-descendant', 'self', 'following-sibling',
             'preceding-sibling', 'both-last-children']


def xsd_text(v11: bool) -> str:
    return XSD_Q


def _decl(prefix: str, uri: Optional[str]) -> str:
    return ' xmlns:%s="%s"' % (prefix, uri) if uri else ''


def gen_case_Q(rng, v11: bool, field: Optional[str] = None, where: Optional[str] = None,
               same_local: Optional[bool] = None, with_ref: Optional[bool] = None) -> dict:
    """Two (or three) items whose identity-field values use the prefix p; p is bound to urn:a on the root and re-bound
    to `other` somewhere (see REBIND_AT); the second item may use another prefix for urn:a / `other`."""
    field = field or rng.choice(FIELDS)
    where = where or rng.choice(REBIND_AT)
    other = rng.choice(['urn:b', 'urn:b', 'urn:a'])          # re-binding to the same URI changes nothing
    same_local = rng.random() < 0.6 if same_local is None else same_local
    loc1 = rng.choice(['x', 'y', 'name'])
    loc2 = loc1 if same_local else loc1 + '2'
    # prefix of the second value: p (root binding unless re-bound in its scope), or q bound to urn:a / `other`
    second = rng.choice(['p', 'p', 'q=urn:a', 'q=other'])
    pfx2 = 'p'
    decl2 = ''
    if second != 'p':
        pfx2 = 'q'
        decl2 = _decl('q', 'urn:a' if second == 'q=urn:a' else other)

    def value(pfx: str, loc: str) -> str:
        return '%s:%s' % (pfx, loc)

    def item(pfx: str, loc: str, own_decl: str, children_decl: dict, n: int) -> str:
        attrs = own_decl
        kids = []
        if field == 'code':
            attrs += ' code="%s"' % value(pfx, loc)
        elif field == 'codes':
            attrs += ' codes="%s %s"' % (value(pfx, loc), value(pfx, 'z'))
        elif field == 'n':
            attrs += ' n="%d"' % (7 if same_local else n)
            attrs += ' code="%s"' % value(pfx, loc + str(n))
        if field == 'q':
            kids.append('<q>%s</q>' % value(pfx, loc))
        kids.append('<note%s>first</note>' % children_decl.get('first', ''))
        kids.append('<note%s>mid</note>' % children_decl.get('middle', ''))
        if field == 'sub' or children_decl.get('deep'):
            sub_attr = ' code="%s"' % value(pfx, loc if field == 'sub' else 's%d' % n)
            kids.append('<sub%s><note>s</note><note%s>deep</note></sub>' % (sub_attr, children_decl.get('deep', '')))
        if children_decl.get('last') is not None:
            kids.append('<tail%s>t</tail>' % children_decl['last'])
        return '<item%s>%s</item>' % (attrs, ''.join(kids))

    rebind = _decl('p', other)
    c1: dict = {}
    c2: dict = {}
    own1 = ''
    own2 = decl2
    pre = post = ''
    if where == 'last-child':
        c1['last'] = rebind
    elif where == 'middle-child':
        c1['middle'] = rebind
        c1['last'] = ''
    elif where == 'last-descendant':
        c1['deep'] = rebind
    elif where == 'self':
        own1 = rebind
    elif where == 'following-sibling':
        own2 += rebind if pfx2 != 'p' or rng.random() < 0.5 else ''
        post = '<item%s n="99"><note>x</note></item>' % rebind if field != 'n' else ''
    elif where == 'preceding-sibling':
        pre = '<item%s><note>x</note><tail%s>t</tail></item>' % ('' if field == 'n' else ' n="98"', rebind)
    elif where == 'both-last-children':
        c1['last'] = rebind
        c2['last'] = rebind
    body = pre + item('p', loc1, own1, c1, 1) + item(pfx2, loc2, own2, c2, 2) + post
    with_ref = rng.random() < 0.4 if with_ref is None else with_ref
    if with_ref and field == 'code':
        # a key reference resolved inside / outside a re-binding scope
        rdecl = rng.choice(['', rebind])
        body += '<ref%s to="p:%s"><note%s>r</note></ref>' % (rdecl, loc1, rng.choice(['', rebind]))
    xml = '<root xmlns:p="urn:a">%s</root>' % body
    dims = ['field:' + field, 'rebind-at:' + where, 'rebind-to:' + ('same-uri' if other == 'urn:a' else 'other-uri'),
            'second-prefix:' + second, 'locals:' + ('same' if same_local else 'different')]
    return {'family': 'Q', 'style': 'prefix', 'v': '1.1' if v11 else '1.0', 'xml': xml, 'faults': [],
            'prefix_dependent': True, 'qdims': dims}


def small_scope_Q(rng) -> list[dict]:
    """every field x every place of the re-binding, same local names (the verdict hinges on the prefix map)"""
    out = []
    i = 0
    for f in FIELDS:
        for w in REBIND_AT:
            i += 1
            out.append(gen_case_Q(rng, bool(i % 2), field=f, where=w, same_local=True))
    return out


# ------------------------------------------------------------------------------------------------
# meaning-preserving re-declaration of prefixes inside any document

START_TAG = re.compile(r'<([A-Za-z_][\w.\-]*(?::[A-Za-z_][\w.\-]*)?)((?:\s+[^<>"\']+=\s*(?:"[^"]*"|\'[^\']*\'))*)\s*(/?)>')
REBOUND_PREFIXES = ['p', 'o', 'k', 't', 'xs', 'z']


def redeclare(rng, xml: str, n: int = 2) -> tuple[str, list[str]]:
    """Adds up to n declarations `xmlns:X="urn:rebound:i"` to elements whose subtree does not use the prefix X
    (neither in names nor in values): under the XML Namespaces scoping rules the document means the same.
    Returns the new text and a description of what was added."""
    import lxml.etree as LE
    try:
        root = LE.fromstring(xml.encode('utf-8'))
    except LE.XMLSyntaxError:
        return xml, []
    elems = [e for e in root.iter() if isinstance(e.tag, str)]
    tags = list(START_TAG.finditer(xml))
    if len(tags) != len(elems):
        return xml, []
    added: list[str] = []
    inserts: list[tuple[int, str]] = []
    used_idx: set[int] = set()
    for _ in range(n * 4):
        if len(inserts) >= n:
            break
        i = rng.randrange(1, len(elems)) if len(elems) > 1 else 0
        if i in used_idx or i == 0:
            continue
        el = elems[i]
        x = rng.choice(REBOUND_PREFIXES)
        text = LE.tostring(el, with_tail=False).decode('utf-8')
        # the subtree as serialised by lxml carries the in-scope declarations it needs: drop them before the test
        body = re.sub(r'\sxmlns(:[\w.\-]+)?="[^"]*"', '', text)
        if (x + ':') in body:
            continue
        used_idx.add(i)
        m = tags[i]
        pos = m.end(2)
        inserts.append((pos, ' xmlns:%s="urn:rebound:%d"' % (x, len(inserts))))
        parent = el.getparent()
        last = parent is not None and parent[-1] is el
        depth = len(list(el.iterancestors()))
        added.append('%s@depth%d%s%s' % (x if x in root.nsmap else 'new-prefix', min(depth, 3),
                                          ':last-child' if last else '', ':leaf' if not len(el) else ''))
    for pos, s in sorted(inserts, reverse=True):
        xml = xml[:pos] + s + xml[pos:]
    return xml, added
