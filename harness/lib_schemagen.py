"""
Seeded generator of small, legal, reference-rich XSD schemas (one target namespace + two imported
namespaces) with instance documents, used by C09 (arrangement independence) and C18 (threads).

Every global declaration is kept as a separate text snippet so that the harness can permute the
declarations, move them to included documents and re-spell locations.  References go from a
declaration to declarations created earlier (acyclic), but the *document order* is shuffled, so
forward references are everywhere.
"""
from __future__ import annotations

import random
from typing import Any, Optional

XS = 'http://www.w3.org/2001/XMLSchema'
TNS = 'urn:t'
NSA = 'urn:a'
NSB = 'urn:b'

HEAD = ('<xs:schema xmlns:xs="http://www.w3.org/2001/XMLSchema" targetNamespace="urn:t" xmlns:t="urn:t" '
        'xmlns:a="urn:a" xmlns:b="urn:b" elementFormDefault="qualified">\n')
TAIL = '</xs:schema>\n'

ENUM_WORDS = ['red', 'green', 'blue', 'cyan', 'plum', 'teal']
OCCURS = [(1, 1), (1, 1), (0, 1), (1, 2), (0, 3)]


def occ_attrs(lo: int, hi: int) -> str:
    s = ''
    if lo != 1:
        s += f' minOccurs="{lo}"'
    if hi != 1:
        s += f' maxOccurs="{hi}"'
    return s


class Schema:
    """Generated schema: `decls` = list of (kind, name, xml) of the urn:t document; helper documents for
    urn:a / urn:b; structures for instance generation."""

    def __init__(self, rng: random.Random, size: int, with_imports: bool = True):
        self.rng = rng
        self.decls: list[tuple[str, str, str]] = []
        self.st: dict[str, dict] = {}        # prefixed simple type name -> {'valid': [...], 'bad': [...]}
        self.at: dict[str, str] = {}         # global attribute -> simple type
        self.ag: dict[str, list] = {}        # attribute group -> [(attr qname-local, required, stype)]
        self.gr: dict[str, dict] = {}        # group -> {'model', 'particles'}
        self.ct: dict[str, dict] = {}        # complex type -> {'particles', 'attrs', 'simple'}
        self.el: dict[str, dict] = {}        # global element -> {'type', 'subst': [members]}
        self.with_imports = with_imports
        self.import_docs: dict[str, str] = {}
        self.used_refs: set[str] = set()
        self._builtin()
        if with_imports:
            self._imports()
        self._generate(size)

    # ---- simple type universe -----------------------------------------------------------------
    def _builtin(self) -> None:
        self.st['xs:int'] = {'valid': ['0', '7', '-3'], 'bad': ['x.y', '1.5']}
        self.st['xs:string'] = {'valid': ['abc', 'x.y'], 'bad': []}
        self.st['xs:boolean'] = {'valid': ['true', '0'], 'bad': ['x.y', 'yes']}

    def _imports(self) -> None:
        for pfx, ns in (('a', NSA), ('b', NSB)):
            lo = self.rng.randint(0, 5)
            hi = lo + self.rng.randint(1, 20)
            words = self.rng.sample(ENUM_WORDS, 3)
            body = (f'<xs:simpleType name="R"><xs:restriction base="xs:int"><xs:minInclusive value="{lo}"/>'
                    f'<xs:maxInclusive value="{hi}"/></xs:restriction></xs:simpleType>\n'
                    f'<xs:simpleType name="W"><xs:restriction base="xs:string">'
                    + ''.join(f'<xs:enumeration value="{w}"/>' for w in words)
                    + '</xs:restriction></xs:simpleType>\n'
                    f'<xs:element name="leaf" type="{pfx}:R"/>\n')
            self.import_docs[ns] = (f'<xs:schema xmlns:xs="{XS}" targetNamespace="{ns}" xmlns:{pfx}="{ns}" '
                                    f'elementFormDefault="qualified">\n{body}</xs:schema>\n')
            self.st[f'{pfx}:R'] = {'valid': [str(lo), str(hi)], 'bad': [str(hi + 1), 'x.y']}
            self.st[f'{pfx}:W'] = {'valid': words[:2], 'bad': ['x.y', 'mauve']}
            self.el[f'{pfx}:leaf'] = {'type': f'{pfx}:R', 'subst': []}

    def _int_types(self) -> list[str]:
        return [n for n, v in self.st.items() if v.get('int')]

    def _new_simple(self, i: int) -> None:
        rng = self.rng
        name = f'S{i}'
        ints = self._int_types()
        kind = rng.choice(['range', 'range', 'enum', 'derived', 'list', 'union'])
        if kind == 'derived' and not ints:
            kind = 'range'
        if kind in ('list', 'union') and len(self.st) < 5:
            kind = 'enum'
        if kind == 'range':
            lo = rng.randint(-5, 5)
            hi = lo + rng.randint(1, 30)
            base = rng.choice(['xs:int'] + ([f'a:R'] if self.with_imports and rng.random() < 0.3 else []))
            if base == 'a:R':
                blo, bhi = int(self.st['a:R']['valid'][0]), int(self.st['a:R']['valid'][1])
                lo, hi = blo, max(blo, bhi - 1)
            xml = (f'<xs:simpleType name="{name}"><xs:restriction base="{base}"><xs:minInclusive value="{lo}"/>'
                   f'<xs:maxInclusive value="{hi}"/></xs:restriction></xs:simpleType>')
            self.st['t:' + name] = {'valid': [str(lo), str(hi)], 'bad': [str(hi + 1), 'x.y'], 'int': (lo, hi)}
        elif kind == 'derived':
            base = rng.choice(ints)
            lo, hi = self.st[base]['int']
            nhi = rng.randint(lo, hi)
            xml = (f'<xs:simpleType name="{name}"><xs:restriction base="{base}">'
                   f'<xs:maxInclusive value="{nhi}"/></xs:restriction></xs:simpleType>')
            self.st['t:' + name] = {'valid': [str(lo), str(nhi)], 'bad': [str(nhi + 1), 'x.y'], 'int': (lo, nhi)}
        elif kind == 'enum':
            words = rng.sample(ENUM_WORDS, rng.randint(2, 4))
            xml = (f'<xs:simpleType name="{name}"><xs:restriction base="xs:string">'
                   + ''.join(f'<xs:enumeration value="{w}"/>' for w in words)
                   + '</xs:restriction></xs:simpleType>')
            self.st['t:' + name] = {'valid': words[:2], 'bad': ['x.y', 'mauve']}
        elif kind == 'list':
            item = rng.choice([n for n in self.st if n != 'xs:string' and not self.st[n].get('list')])
            xml = f'<xs:simpleType name="{name}"><xs:list itemType="{item}"/></xs:simpleType>'
            v = self.st[item]['valid']
            self.st['t:' + name] = {'valid': [' '.join(v), v[0]], 'bad': ['x.y ' + v[0], v[0] + ' x.y'], 'list': True}
        else:
            m = rng.sample([n for n in self.st if n != 'xs:string' and not self.st[n].get('list')], 2)
            xml = f'<xs:simpleType name="{name}"><xs:union memberTypes="{m[0]} {m[1]}"/></xs:simpleType>'
            self.st['t:' + name] = {'valid': [self.st[m[0]]['valid'][0], self.st[m[1]]['valid'][0]], 'bad': ['x.y']}
        self.decls.append(('simpleType', name, xml))

    def _pick_stype(self) -> str:
        return self.rng.choice(list(self.st))

    def _new_attribute(self, i: int) -> None:
        name = f'a{i}'
        ty = self._pick_stype()
        self.at['t:' + name] = ty
        self.decls.append(('attribute', name, f'<xs:attribute name="{name}" type="{ty}"/>'))

    def _new_attr_group(self, i: int) -> None:
        rng = self.rng
        name = f'AG{i}'
        have: dict[str, tuple] = {}
        parts = []
        for g in rng.sample(list(self.ag), min(len(self.ag), rng.randint(0, 1))):
            if not any(a[0] in have for a in self.ag[g]):
                parts.append(f'<xs:attributeGroup ref="{g}"/>')
                for a in self.ag[g]:
                    have[a[0]] = a
        for a in rng.sample(list(self.at), min(len(self.at), rng.randint(1, 2))):
            if a not in have:
                req = rng.random() < 0.4
                have[a] = (a, req, self.at[a])
                parts.append(f'<xs:attribute ref="{a}"' + (' use="required"' if req else '') + '/>')
        # xs:attribute particles must precede nothing in particular but attributeGroup refs may be mixed
        self.ag['t:' + name] = list(have.values())
        self.decls.append(('attributeGroup', name, f'<xs:attributeGroup name="{name}">' + ''.join(parts)
                           + '</xs:attributeGroup>'))

    def _particles(self, owner: str, n: int) -> tuple[list, str]:
        rng = self.rng
        parts, xml = [], ''
        for k in range(n):
            lo, hi = rng.choice(OCCURS)
            choice = rng.random()
            free_refs = [e for e in self.el if e not in self.used_refs]
            if choice < 0.25 and free_refs:
                e = rng.choice(free_refs)
                self.used_refs.add(e)
                self.used_refs.update(self.el[e]['subst'])
                parts.append(('ref', e, lo, hi))
                xml += f'<xs:element ref="{e}"{occ_attrs(lo, hi)}/>'
            elif choice < 0.4 and self.gr:
                g = rng.choice(list(self.gr))
                if g not in self.used_refs:
                    self.used_refs.add(g)
                    lo, hi = (lo, 1) if self.gr[g]['model'] != 'choice' else (1, 1)
                    parts.append(('group', g, lo, hi))
                    xml += f'<xs:group ref="{g}"{occ_attrs(lo, hi)}/>'
                    continue
            else:
                ty = rng.choice(list(self.st) + list(self.ct)) if self.ct and rng.random() < 0.5 else self._pick_stype()
                nm = f'{owner}_c{k}'
                parts.append(('local', nm, ty, lo, hi))
                xml += f'<xs:element name="{nm}" type="{ty}"{occ_attrs(lo, hi)}/>'
        return parts, xml

    def _new_group(self, i: int) -> None:
        name = f'G{i}'
        model = self.rng.choice(['sequence', 'sequence', 'choice'])
        parts, xml = self._particles(name, self.rng.randint(1, 3))
        if model == 'choice':
            parts = [(p[0], *p[1:-2], 1, 1) for p in parts]
            xml2 = ''
            for p in parts:
                if p[0] == 'ref':
                    xml2 += f'<xs:element ref="{p[1]}"/>'
                elif p[0] == 'group':
                    xml2 += f'<xs:group ref="{p[1]}"/>'
                else:
                    xml2 += f'<xs:element name="{p[1]}" type="{p[2]}"/>'
            xml = xml2
        self.gr['t:' + name] = {'model': model, 'particles': parts}
        self.decls.append(('group', name, f'<xs:group name="{name}"><xs:{model}>{xml}</xs:{model}></xs:group>'))

    def _attr_uses(self) -> tuple[list, str]:
        rng = self.rng
        have: dict[str, tuple] = {}
        xml = ''
        if self.ag and rng.random() < 0.6:
            g = rng.choice(list(self.ag))
            xml += f'<xs:attributeGroup ref="{g}"/>'
            for a in self.ag[g]:
                have[a[0]] = a
        if self.at and rng.random() < 0.5:
            a = rng.choice(list(self.at))
            if a not in have:
                req = rng.random() < 0.3
                have[a] = (a, req, self.at[a])
                xml = f'<xs:attribute ref="{a}"' + (' use="required"' if req else '') + '/>' + xml
        if rng.random() < 0.4:
            ty = self._pick_stype()
            have['loc'] = ('loc', False, ty)
            xml = f'<xs:attribute name="loc" type="{ty}"/>' + xml
        return list(have.values()), xml

    def _new_complex(self, i: int) -> None:
        rng = self.rng
        name = f'T{i}'
        r = rng.random()
        bases = [c for c, v in self.ct.items() if v['simple'] is None and c.startswith('t:')]
        if r < 0.25 and bases:
            base = rng.choice(bases)
            parts, pxml = self._particles(name, rng.randint(1, 2))
            battrs = {a[0] for a in self.ct[base]['attrs']}
            attrs, axml = self._attr_uses()
            if any(a[0] in battrs for a in attrs):
                attrs, axml = [], ''
            xml = (f'<xs:complexType name="{name}"><xs:complexContent><xs:extension base="{base}">'
                   f'<xs:sequence>{pxml}</xs:sequence>{axml}</xs:extension></xs:complexContent></xs:complexType>')
            self.ct['t:' + name] = {'particles': self.ct[base]['particles'] + parts,
                                    'attrs': self.ct[base]['attrs'] + attrs, 'simple': None, 'base': base}
        elif r < 0.4:
            base = self._pick_stype()
            attrs, axml = self._attr_uses()
            xml = (f'<xs:complexType name="{name}"><xs:simpleContent><xs:extension base="{base}">{axml}'
                   f'</xs:extension></xs:simpleContent></xs:complexType>')
            self.ct['t:' + name] = {'particles': [], 'attrs': attrs, 'simple': base}
        else:
            parts, pxml = self._particles(name, rng.randint(1, 4))
            attrs, axml = self._attr_uses()
            xml = f'<xs:complexType name="{name}"><xs:sequence>{pxml}</xs:sequence>{axml}</xs:complexType>'
            self.ct['t:' + name] = {'particles': parts, 'attrs': attrs, 'simple': None}
        self.decls.append(('complexType', name, xml))

    def _new_element(self, i: int) -> None:
        rng = self.rng
        name = f'e{i}'
        heads = [e for e, v in self.el.items() if e.startswith('t:') and e not in self.used_refs]
        if heads and rng.random() < 0.25:
            h = rng.choice(heads)
            ty = self.el[h]['type']
            derived = [c for c, v in self.ct.items() if v.get('base') == ty]
            if derived and rng.random() < 0.5:
                ty = rng.choice(derived)
            self.el[h]['subst'].append('t:' + name)
            self.el['t:' + name] = {'type': ty, 'subst': []}
            self.used_refs.add('t:' + name)     # a member is not referenced on its own (UPA with its head)
            xml = f'<xs:element name="{name}" type="{ty}" substitutionGroup="{h}"/>'
        else:
            ty = rng.choice(list(self.ct)) if self.ct and rng.random() < 0.7 else self._pick_stype()
            self.el['t:' + name] = {'type': ty, 'subst': []}
            xml = f'<xs:element name="{name}" type="{ty}"/>'
        self.decls.append(('element', name, xml))

    def _generate(self, size: int) -> None:
        rng = self.rng
        n_s = max(2, size // 4)
        for i in range(n_s):
            self._new_simple(i)
        for i in range(max(1, size // 8)):
            self._new_attribute(i)
        for i in range(max(1, size // 10)):
            self._new_attr_group(i)
        rest = size - len(self.decls)
        for i in range(max(3, rest)):
            k = rng.random()
            if k < 0.4:
                self._new_complex(i)
            elif k < 0.55:
                self._new_group(i)
            else:
                self._new_element(i)
        if not any(e.startswith('t:') for e in self.el):
            self._new_element(999)
        self.creation = [d[1] + '/' + d[0] for d in self.decls]     # definitions before uses
        rng.shuffle(self.decls)

    # ---- instances ----------------------------------------------------------------------------
    def roots(self) -> list[str]:
        return [e for e in self.el if e.startswith('t:')]

    def _value(self, ty: str, bad: bool) -> str:
        v = self.st[ty]
        if bad and v['bad']:
            return self.rng.choice(v['bad'])
        return self.rng.choice(v['valid'])

    def instance(self, root: str, mutate: Optional[str] = None) -> str:
        """XML text of an instance of global element `root`.  mutate ∈ {None,'value','drop','extra','attr'}:
        one seeded deviation that usually (not necessarily) makes the document invalid."""
        self._mut = mutate
        self._mut_at = self.rng.randint(0, 6)
        self._mut_n = 0
        body = self._elem(root, self.el[root]['type'], 0, top=True)
        return body

    def _hit(self, kind: str) -> bool:
        if self._mut != kind:
            return False
        self._mut_n += 1
        return self._mut_n - 1 == self._mut_at or (self._mut_n == 1 and self._mut_at > 3)

    def _elem(self, qn: str, ty: str, depth: int, top: bool = False) -> str:
        nsdecl = ' xmlns:t="urn:t" xmlns:a="urn:a" xmlns:b="urn:b"' if top else ''
        if ty in self.st:
            return f'<{qn}{nsdecl}>{self._value(ty, self._hit("value"))}</{qn}>'
        c = self.ct[ty]
        attrs = ''
        for a, req, aty in c['attrs']:
            if req or self.rng.random() < 0.5:
                attrs += f' {a}="{self._value(aty, self._hit("value"))}"'
        if self._hit('attr'):
            attrs += ' t:unknown="1"'
        if c['simple'] is not None:
            return f'<{qn}{nsdecl}{attrs}>{self._value(c["simple"], self._hit("value"))}</{qn}>'
        inner = self._content(c['particles'], 'sequence', depth)
        if self._hit('extra'):
            inner += '<t:unexpected/>'
        return f'<{qn}{nsdecl}{attrs}>{inner}</{qn}>'

    def _content(self, parts: list, model: str, depth: int) -> str:
        rng = self.rng
        if model == 'choice':
            parts = [rng.choice(parts)] if parts else []
        out = ''
        for p in parts:
            lo, hi = p[-2], p[-1]
            n = rng.randint(lo, hi)
            if depth > 6:
                n = lo
            if n > 0 and self._hit('drop'):
                n = 0 if lo > 0 else n
            for _ in range(n):
                if p[0] == 'local':
                    out += self._elem('t:' + p[1], p[2], depth + 1)
                elif p[0] == 'ref':
                    e = p[1]
                    if self.el[e]['subst'] and rng.random() < 0.4:
                        e = rng.choice(self.el[e]['subst'])
                    out += self._elem(e, self.el[e]['type'], depth + 1)
                else:
                    g = self.gr[p[1]]
                    out += self._content(g['particles'], g['model'], depth + 1)
        return out

    def document(self, order: Optional[list[int]] = None) -> str:
        """single-document arrangement"""
        idx = order if order is not None else list(range(len(self.decls)))
        imports = ''.join(f'<xs:import namespace="{ns}" schemaLocation="{loc}"/>\n'
                          for ns, loc in self.import_list())
        return HEAD + imports + '\n'.join(self.decls[i][2] for i in idx) + '\n' + TAIL

    def defs_first(self) -> list[int]:
        """indices of `decls` in creation order: every declaration after everything it refers to"""
        pos = {k: i for i, k in enumerate(self.creation)}
        return sorted(range(len(self.decls)), key=lambda i: pos[self.decls[i][1] + '/' + self.decls[i][0]])

    def import_list(self) -> list[tuple[str, str]]:
        return [(NSA, 'ns_a.xsd'), (NSB, 'ns_b.xsd')] if self.with_imports else []
