"""
C09 — components that are resolved through a MAPS-LEVEL REGISTRY of XsdGlobals other than the six staged
global maps, added as a dimension of the generated schema space (harness/lib_schemagen.Schema is left
untouched: C18 uses it too):

  identities           xs:key / xs:unique registered in `maps.identities` while their element is parsed and
                       looked up there by an xs:keyref (or an XSD 1.1 `ref`) declared on ANOTHER element
  substitution_groups  members registered in `maps.substitution_groups[head]` by the member's constructor
  notations            the NotationsMap (xs:NOTATION enumerations are validated against it)
  types via xsi:type   `maps.types[...]` looked up at validation time (get_instance_type), type alternatives

and the introspection of those registries on the real objects (`registry_view`): every entry is tagged with
the GENERATION of the object (which build created it), so that an entry surviving `clear()` is visible even
when the surviving object happens to behave like the new one.
"""
from __future__ import annotations

import os
import random
from typing import Any, Optional

XSI = 'xmlns:xsi="http://www.w3.org/2001/XMLSchema-instance"'
NSD = ' xmlns:t="urn:t" ' + XSI
XSD_NS = '{http://www.w3.org/2001/XMLSchema'

XPATH_TYPINGS = ['xs:int', 'xs:string', 'xs:decimal', 'xs:double', 'xs:date']
XPATH_TEST_A = '@min le @max'
XPATH_TEST_B = 'not(t:lo) or t:lo le t:hi'
XPATH_TEST_V = "string($value) = '10'"

# every form of namespace constraint of a wildcard (attribute text); the 1.1 forms need XMLSchema11
ATTR_FORMS = ['namespace="##any"', 'namespace="##other"', 'namespace="##local"', 'namespace="##targetNamespace"',
              'namespace="##local urn:x"', 'namespace="##targetNamespace urn:y"', 'namespace="urn:x urn:y"',
              'namespace="##local ##targetNamespace urn:x"']
ATTR_FORMS_11 = ['notNamespace="urn:x"', 'notNamespace="##local urn:y"', 'notNamespace="##targetNamespace"',
                 'namespace="##any" notQName="a:foo t:foo"']
# element wildcards of the shared model groups never admit the target namespace (no UPA conflict with t:wtail)
ELEM_FORMS = ['namespace="##other"', 'namespace="##local"', 'namespace="urn:x urn:y"', 'namespace="##local urn:x"']
ELEM_FORMS_11 = ['notNamespace="##targetNamespace urn:x"', 'notNamespace="##targetNamespace ##local"']

HOLDERS = ['self', 'child', 'typed', 'group', 'ref']
# where the referenced key/unique is declared relative to the element that carries the keyref:
#   self   on the same element                       (resolved in the element's own list, identities.py:295-302)
#   child  on a nested local element (anonymous type)  \
#   typed  on a local element of a NAMED complex type   |  resolved through maps.identities (identities.py:305);
#   group  on a local element of a global model group   |  registered when a type / group / element of ANOTHER
#   ref    on a global element used by reference       /   staged map is built


class Features:
    """Extra global declarations (+ probe instances) appended to a generated schema."""

    def __init__(self, sc: Any, rng: random.Random, xsd11: bool, plan: Optional[list] = None):
        self.sc, self.rng, self.xsd11 = sc, rng, xsd11
        self.decls: list[tuple[str, str, str]] = []     # (kind, name, xml), definitions before uses
        self.probes: list[dict] = []                    # {'xml', 'tag', ...oracle data}
        self.tags: list[str] = []
        if plan is None:
            plan = []
            if rng.random() < 0.75:
                plan.append('identity')
                if rng.random() < 0.3:
                    plan.append('identity')
            if rng.random() < 0.5:
                plan.append('poly')
            if rng.random() < 0.4:
                plan.append('notation')
            if rng.random() < 0.5:
                plan.append('wild')
            if xsd11 and rng.random() < 0.8:
                plan.append('xpath')
        self.plan = plan
        for k, what in enumerate(plan):
            getattr(self, '_' + what)(k)
        if not plan:
            self.tags.append('registry:none')

    # ---- identity constraints -----------------------------------------------------------------
    def _values(self) -> tuple[str, list[str]]:
        """field type and four distinct valid values (the last one is never used as a key)"""
        rng, sc = self.rng, self.sc
        ints = [n for n, v in sc.st.items() if v.get('int') and v['int'][1] - v['int'][0] >= 3 and n.startswith('t:')]
        r = rng.random()
        if ints and r < 0.35:
            ty = rng.choice(ints)
            lo = sc.st[ty]['int'][0]
            return ty, [str(lo + i) for i in range(4)]
        if r < 0.65:
            return 'xs:int', ['1', '2', '3', '9']
        return 'xs:string', ['a', 'b', 'c', 'z']

    def _identity(self, k: int) -> None:
        rng = self.rng
        holder = rng.choice(HOLDERS)
        kind = rng.choice(['key', 'key', 'unique'])
        field = rng.choice(['attr', 'elem'])
        ref11 = self.xsd11 and rng.random() < 0.6
        ty, vals = self._values()
        n = f'{k}'
        fld, rfld = ('@id', '@ref') if field == 'attr' else ('t:id', 't:ref')
        if field == 'attr':
            def_t = f'<xs:complexType><xs:attribute name="id" type="{ty}" use="required"/></xs:complexType>'
            use_t = f'<xs:complexType><xs:attribute name="ref" type="{ty}" use="required"/></xs:complexType>'
        else:
            def_t = f'<xs:complexType><xs:sequence><xs:element name="id" type="{ty}"/></xs:sequence></xs:complexType>'
            use_t = f'<xs:complexType><xs:sequence><xs:element name="ref" type="{ty}"/></xs:sequence></xs:complexType>'
        kname, rname = f'defKey{n}', f'useRef{n}'
        key = f'<xs:{kind} name="{kname}"><xs:selector xpath="t:def"/><xs:field xpath="{fld}"/></xs:{kind}>'
        key_root = f'<xs:{kind} name="{kname}"><xs:selector xpath="t:defs{n}/t:def"/><xs:field xpath="{fld}"/></xs:{kind}>'
        defs_body = (f'<xs:complexType><xs:sequence><xs:element name="def" maxOccurs="unbounded">{def_t}</xs:element>'
                     f'</xs:sequence></xs:complexType>')
        uses = (f'<xs:element name="uses"><xs:complexType><xs:sequence><xs:element name="use" minOccurs="0" '
                f'maxOccurs="unbounded">{use_t}</xs:element></xs:sequence></xs:complexType></xs:element>')
        more = ''
        if ref11:
            # XSD 1.1: the same constraint applied to another element by reference (identities.py:186)
            more = (f'<xs:element name="more" minOccurs="0"><xs:complexType><xs:sequence><xs:element name="def" '
                    f'maxOccurs="unbounded">{def_t}</xs:element></xs:sequence></xs:complexType>'
                    f'<xs:{kind} ref="t:{kname}"/></xs:element>')
        keyref = (f'<xs:keyref name="{rname}" refer="t:{kname}"><xs:selector xpath="t:uses/t:use"/>'
                  f'<xs:field xpath="{rfld}"/></xs:keyref>')
        root, defs = f'idr{n}', f'defs{n}'
        if holder == 'self':
            self._add('element', root, f'<xs:element name="{root}"><xs:complexType><xs:sequence><xs:element name="{defs}">'
                      f'{defs_body}</xs:element>{uses}{more}</xs:sequence></xs:complexType>{key_root}{keyref}</xs:element>')
        elif holder == 'child':
            self._add('element', root, f'<xs:element name="{root}"><xs:complexType><xs:sequence><xs:element name="{defs}">'
                      f'{defs_body}{key}</xs:element>{uses}{more}</xs:sequence></xs:complexType>{keyref}</xs:element>')
        elif holder == 'typed':
            self._add('complexType', f'IdT{n}', f'<xs:complexType name="IdT{n}"><xs:sequence><xs:element name="{defs}">'
                      f'{defs_body}{key}</xs:element>{uses}{more}</xs:sequence></xs:complexType>')
            self._add('element', root, f'<xs:element name="{root}" type="t:IdT{n}">{keyref}</xs:element>')
        elif holder == 'group':
            self._add('group', f'IdG{n}', f'<xs:group name="IdG{n}"><xs:sequence><xs:element name="{defs}">'
                      f'{defs_body}{key}</xs:element>{uses}{more}</xs:sequence></xs:group>')
            self._add('element', root, f'<xs:element name="{root}"><xs:complexType><xs:group ref="t:IdG{n}"/>'
                      f'</xs:complexType>{keyref}</xs:element>')
        else:
            self._add('element', defs, f'<xs:element name="{defs}">{defs_body}{key}</xs:element>')
            self._add('element', root, f'<xs:element name="{root}"><xs:complexType><xs:sequence><xs:element ref="t:{defs}"/>'
                      f'{uses}{more}</xs:sequence></xs:complexType>{keyref}</xs:element>')
        self.tags += [f'registry:identity/{holder}', f'identity-kind:{kind}', f'identity-field:{field}',
                      'identity-field-type:' + ('generated' if ty.startswith('t:') else ty)]
        if ref11:
            self.tags.append('registry:identity/ref11')

        def inst(ids: list, refs: list, drop: bool = False, more_ids: Optional[list] = None) -> str:
            if field == 'attr':
                d = ''.join(f'<t:def id="{i}"/>' for i in ids)
                u = ''.join(f'<t:use ref="{r}"/>' for r in refs)
                m = ''.join(f'<t:def id="{i}"/>' for i in more_ids or [])
            else:
                d = ''.join(f'<t:def><t:id>{i}</t:id></t:def>' for i in ids)
                u = ''.join(f'<t:use><t:ref>{r}</t:ref></t:use>' for r in refs)
                m = ''.join(f'<t:def><t:id>{i}</t:id></t:def>' for i in more_ids or [])
            return (f'<t:{root}{NSD}>' + ('' if drop else f'<t:{defs}>{d}</t:{defs}>') + f'<t:uses>{u}</t:uses>'
                    + (f'<t:more>{m}</t:more>' if more_ids else '') + f'</t:{root}>')
        a, b, c, z = vals
        cases = [('all references resolve', [a, b], [a], False, None),
                 ('all references resolve', [a, b, c], [b, a, b], False, None),
                 ('dangling reference', [a, b], [a, z], False, None),
                 ('duplicate key', [a, a], [a], False, None),
                 ('no reference', [a, b], [], False, None),
                 ('key scope missing', [a], [a], True, None)]
        if ref11:
            cases.append(('constraint by reference: duplicate', [a, b], [a], False, [c, c]))
        for tag, ids, refs, drop, mi in cases:
            self.probes.append({'xml': inst(ids, refs, drop, mi), 'tag': 'identity: ' + tag, 'block': 'identity',
                                'keyref': '{urn:t}' + rname, 'refer': '{urn:t}' + kname, 'own': holder == 'self',
                                'keys': [] if drop else ids, 'refs': refs})

    # ---- substitution groups + xsi:type (+ XSD 1.1 type alternatives / assertions) ------------------------
    def _poly(self, k: int) -> None:
        rng = self.rng
        n = f'{k}'
        alt = self.xsd11 and rng.random() < 0.7
        blocked = rng.random() < 0.2
        self._add('simpleType', f'PS{n}', f'<xs:simpleType name="PS{n}"><xs:restriction base="xs:int">'
                  f'<xs:maxInclusive value="9"/></xs:restriction></xs:simpleType>')
        self._add('complexType', f'PB{n}', f'<xs:complexType name="PB{n}"><xs:sequence><xs:element name="a" type="xs:int" '
                  f'minOccurs="0"/></xs:sequence><xs:attribute name="kind" type="xs:string"/></xs:complexType>')
        asrt = '<xs:assert test="t:b le 7"/>' if alt else ''
        self._add('complexType', f'PE{n}', f'<xs:complexType name="PE{n}"><xs:complexContent><xs:extension base="t:PB{n}">'
                  f'<xs:sequence><xs:element name="b" type="t:PS{n}"/></xs:sequence>{asrt}</xs:extension></xs:complexContent>'
                  f'</xs:complexType>')
        self._add('element', f'ph{n}', f'<xs:element name="ph{n}" type="t:PB{n}" abstract="true"'
                  + (' block="substitution"' if blocked else '') + '/>')
        self._add('element', f'pm{n}', f'<xs:element name="pm{n}" type="t:PB{n}" substitutionGroup="t:ph{n}"/>')
        self._add('element', f'pn{n}', f'<xs:element name="pn{n}" type="t:PE{n}" substitutionGroup="t:pm{n}"/>')
        self._add('element', f'pv{n}', f'<xs:element name="pv{n}" type="xs:int"/>')
        self._add('element', f'px{n}', f'<xs:element name="px{n}" type="t:PB{n}"/>')
        altdecl = ''
        if alt:
            self._add('element', f'pa{n}', f'<xs:element name="pa{n}" type="t:PB{n}"><xs:alternative test="@kind=\'e\'" '
                      f'type="t:PE{n}"/><xs:alternative type="t:PB{n}"/></xs:element>')
            altdecl = f'<xs:element ref="t:pa{n}" minOccurs="0" maxOccurs="unbounded"/>'
        self._add('element', f'pdoc{n}', f'<xs:element name="pdoc{n}"><xs:complexType><xs:sequence><xs:element ref="t:ph{n}" '
                  f'minOccurs="0" maxOccurs="unbounded"/><xs:element ref="t:pv{n}" minOccurs="0"/><xs:element ref="t:px{n}" '
                  f'minOccurs="0" maxOccurs="unbounded"/>{altdecl}</xs:sequence>'
                  f'</xs:complexType></xs:element>')
        self.tags += ['registry:substitution-group' + ('/blocked' if blocked else ''), 'registry:types-by-xsi:type']
        if alt:
            self.tags.append('registry:types-by-alternative+assert')
        d, e = f'<t:pdoc{n}{NSD}>', f'</t:pdoc{n}>'
        ps = [('substitution: members and member of member', f'{d}<t:pm{n}><t:a>1</t:a></t:pm{n}><t:pn{n} kind="x"><t:b>2</t:b></t:pn{n}>{e}'),
              ('substitution: abstract head in the instance', f'{d}<t:ph{n}/>{e}'),
              ('substitution: element that is no member', f'{d}<t:pv{n}>1</t:pv{n}><t:pm{n}/>{e}'),
              ('xsi:type: derived complex and simple type', f'{d}<t:pv{n} xsi:type="t:PS{n}">5</t:pv{n}><t:px{n} xsi:type="t:PE{n}"><t:b>1</t:b></t:px{n}>{e}'),
              ('xsi:type: not derived / facet of the instance type', f'{d}<t:pv{n} xsi:type="t:PS{n}">15</t:pv{n}><t:px{n} xsi:type="t:PS{n}"/>{e}'),
              ('xsi:type: unknown type', f'{d}<t:px{n} xsi:type="t:Nope{n}"/>{e}'),
              ('xsi:type: on a substitution member', f'{d}<t:pm{n} xsi:type="t:PE{n}"><t:a>1</t:a><t:b>2</t:b></t:pm{n}>{e}'),
              ('xsi:type: content of the base type under the derived type', f'{d}<t:px{n} xsi:type="t:PE{n}"><t:a>1</t:a></t:px{n}>{e}')]
        if alt:
            ps += [('alternative: selected derived type', f'{d}<t:pa{n} kind="e"><t:b>3</t:b></t:pa{n}><t:pa{n}><t:a>1</t:a></t:pa{n}>{e}'),
                   ('alternative: assertion of the selected type fails', f'{d}<t:pa{n} kind="e"><t:b>8</t:b></t:pa{n}>{e}'),
                   ('alternative: default type refuses the extension content', f'{d}<t:pa{n} kind="x"><t:b>3</t:b></t:pa{n}>{e}')]
        for tag, xml in ps:
            self.probes.append({'xml': xml, 'tag': tag, 'block': 'poly'})

    # ---- notations -------------------------------------------------------------------------------
    def _notation(self, k: int) -> None:
        n = f'{k}'
        via_group = self.rng.random() < 0.5
        self._add('notation', f'ngif{n}', f'<xs:notation name="ngif{n}" public="image/gif"/>')
        self._add('notation', f'npng{n}', f'<xs:notation name="npng{n}" public="image/png" system="viewer"/>')
        self._add('simpleType', f'NFmt{n}', f'<xs:simpleType name="NFmt{n}"><xs:restriction base="xs:NOTATION">'
                  f'<xs:enumeration value="t:ngif{n}"/><xs:enumeration value="t:npng{n}"/></xs:restriction></xs:simpleType>')
        if via_group:
            self._add('attributeGroup', f'NAG{n}', f'<xs:attributeGroup name="NAG{n}"><xs:attribute name="fmt" type="t:NFmt{n}" '
                      f'use="required"/></xs:attributeGroup>')
            attrs = f'<xs:attributeGroup ref="t:NAG{n}"/>'
        else:
            attrs = f'<xs:attribute name="fmt" type="t:NFmt{n}" use="required"/>'
        self._add('element', f'npic{n}', f'<xs:element name="npic{n}"><xs:complexType>{attrs}</xs:complexType></xs:element>')
        self.tags.append('registry:notation' + ('/via-attribute-group' if via_group else ''))
        for tag, v in (('notation: declared', f't:npng{n}'), ('notation: not declared', f't:njpg{n}'),
                       ('notation: not a QName', '1 2')):
            self.probes.append({'xml': f'<t:npic{n}{NSD} fmt="{v}"/>', 'tag': tag, 'block': 'notation'})

    # ---- XSD 1.1: textually identical XPath tests over differently typed operands ------------------------
    def _xpath(self, k: int) -> None:
        """xs:assert on complex types, xs:assertion facets and type alternatives whose test is THE SAME TEXT in several
        components while the operands are typed differently (int / decimal / double / string / date): the outcome
        of `@min le @max` depends on the static types that the schema-bound parser of EACH component sees"""
        if not self.xsd11:
            self.tags.append('registry:identical-xpath-tests/skipped (XSD 1.0)')
            return
        rng = self.rng
        nt = rng.randint(3, 4)
        tys = [rng.choice(XPATH_TYPINGS) for _ in range(nt)]
        if len(set(tys)) == 1:
            tys[-1] = 'xs:string' if tys[0] != 'xs:string' else 'xs:int'
        if 'xs:string' not in tys:
            tys[rng.randrange(nt)] = 'xs:string'       # numeric vs string: "9" le "10" flips
        self.tags.append('registry:identical-xpath-tests')
        for j, ty in enumerate(tys):
            u = rng.choice(XPATH_TYPINGS)
            self.tags += ['xpath-operand-typing(attributes):' + ty, 'xpath-operand-typing(children):' + u]
            self._add('complexType', f'AT{k}_{j}', f'<xs:complexType name="AT{k}_{j}"><xs:sequence>'
                      f'<xs:element name="lo" type="{u}" minOccurs="0"/><xs:element name="hi" type="{u}" minOccurs="0"/>'
                      f'</xs:sequence><xs:attribute name="min" type="{ty}"/><xs:attribute name="max" type="{ty}"/>'
                      f'<xs:assert test="{XPATH_TEST_A}"/><xs:assert test="{XPATH_TEST_B}"/></xs:complexType>')
            self._add('element', f'ae{k}_{j}', f'<xs:element name="ae{k}_{j}" type="t:AT{k}_{j}"/>')
        # derived types: the assertion is inherited AND repeated with the same text
        for j, nm_ in ((0, 'AX'), (1, 'AY')):
            self._add('complexType', f'{nm_}{k}', f'<xs:complexType name="{nm_}{k}"><xs:complexContent><xs:extension '
                      f'base="t:AT{k}_{j}"><xs:attribute name="extra" type="xs:int"/><xs:assert test="{XPATH_TEST_A}"/>'
                      f'</xs:extension></xs:complexContent></xs:complexType>')
            # type alternatives with the same test text on elements of differently typed declared types
            self._add('element', f'aa{k}_{j}', f'<xs:element name="aa{k}_{j}" type="t:AT{k}_{j}"><xs:alternative '
                      f'test="{XPATH_TEST_A}" type="t:{nm_}{k}"/></xs:element>')
        self.tags.append('identical-xpath-tests:inherited+repeated, alternatives')
        # assertion facets: the same text, $value typed by the base type
        bases = rng.sample(['xs:decimal', 'xs:string', 'xs:int', 'xs:double'], rng.randint(2, 3))
        for j, b in enumerate(bases):
            self.tags.append('xpath-operand-typing($value):' + b)
            self._add('simpleType', f'AS{k}_{j}', f'<xs:simpleType name="AS{k}_{j}"><xs:restriction base="{b}">'
                      f'<xs:assertion test="{XPATH_TEST_V}"/></xs:restriction></xs:simpleType>')
            self._add('element', f'as{k}_{j}', f'<xs:element name="as{k}_{j}" type="t:AS{k}_{j}"/>')
        pairs = [('9', '10'), ('10', '9'), ('9.5', '10.0'), ('abc', 'abd'), ('2024-01-09', '2024-01-10')]
        for j in range(nt):
            for a, b in pairs[:3] + [rng.choice(pairs[3:])]:
                self.probes.append({'xml': f'<t:ae{k}_{j}{NSD} min="{a}" max="{b}"><t:lo>{a}</t:lo><t:hi>{b}</t:hi></t:ae{k}_{j}>',
                                    'tag': 'identical xpath tests: assert over attributes and children', 'block': 'xpath'})
        for j in (0, 1):
            for a, b in pairs[:2]:
                self.probes.append({'xml': f'<t:aa{k}_{j}{NSD} min="{a}" max="{b}" extra="1"/>',
                                    'tag': 'identical xpath tests: type alternative', 'block': 'xpath'})
        for j in range(len(bases)):
            for v in ('10', '10.0', '010'):
                self.probes.append({'xml': f'<t:as{k}_{j}{NSD}>{v}</t:as{k}_{j}>',
                                    'tag': 'identical xpath tests: assertion facet', 'block': 'xpath'})

    # ---- wildcards shared through referenced attribute groups / model groups ----------------------------
    def _wild(self, k: int) -> None:
        """several types whose complete attribute wildcard is COMPUTED from shared components: intersection of the
        wildcards of several referenced attribute groups (and of a local xs:anyAttribute), union with the wildcard of
        the base type under an extension; element wildcards in global model groups shared by several types"""
        for _ in range(4):
            decls, probes, tags = self._wild_try(k)
            if self._builds(decls):
                for d in decls:
                    self._add(*d)
                self.probes += probes
                self.tags += tags
                return
        self.tags.append('registry:shared-wildcards/dropped (combination refused by the processor)')

    def _builds(self, decls: list) -> bool:
        import xmlschema
        text = ('<xs:schema xmlns:xs="http://www.w3.org/2001/XMLSchema" targetNamespace="urn:t" xmlns:t="urn:t" '
                'xmlns:a="urn:a" elementFormDefault="qualified">' + ''.join(d[2] for d in decls) + '</xs:schema>')
        try:
            (xmlschema.XMLSchema11 if self.xsd11 else xmlschema.XMLSchema10)(text)
            return True
        except Exception:   # noqa
            return False

    def _wild_try(self, k: int) -> tuple[list, list, list]:
        rng = self.rng
        decls: list = []
        tags = ['registry:shared-wildcards']
        forms = ATTR_FORMS + (ATTR_FORMS_11 if self.xsd11 else [])
        eforms = ELEM_FORMS + (ELEM_FORMS_11 if self.xsd11 else [])

        def any_attr(f: str) -> str:
            tags.append('wildcard-form:' + f)
            return f'<xs:anyAttribute {f} processContents="{rng.choice(["lax", "skip"])}"/>'
        ng = rng.randint(3, 4)
        for i in range(ng):
            inner = ''
            if i and rng.random() < 0.3:
                inner = f'<xs:attributeGroup ref="t:WG{k}_{rng.randrange(i)}"/>'
                tags.append('wildcard-combination:group-nested-in-group')
            decls.append(('attributeGroup', f'WG{k}_{i}', f'<xs:attributeGroup name="WG{k}_{i}">{inner}'
                          f'{any_attr(rng.choice(forms))}</xs:attributeGroup>'))
        nm_ = 2
        f0 = rng.choice(eforms)
        tags.append('wildcard-form(element):' + f0)
        decls.append(('group', f'WM{k}_0', f'<xs:group name="WM{k}_0"><xs:sequence><xs:any {f0} processContents="lax" '
                      f'minOccurs="0" maxOccurs="2"/></xs:sequence></xs:group>'))
        decls.append(('group', f'WM{k}_1', f'<xs:group name="WM{k}_1"><xs:choice><xs:group ref="t:WM{k}_0"/>'
                      f'<xs:element name="wtail" type="xs:int"/></xs:choice></xs:group>'))
        nt = rng.randint(3, 5)
        has_group: dict = {}
        for j in range(nt):
            kind = rng.choice(['refs', 'refs', 'refs+local', 'ext', 'ext'] if j else ['refs', 'refs+local'])
            refs = rng.sample(range(ng), rng.randint(1, min(3, ng)) if kind != 'ext' else rng.randint(0, 2))
            body = ''.join(f'<xs:attributeGroup ref="t:WG{k}_{i}"/>' for i in refs)
            if len(refs) > 1:
                tags.append('wildcard-combination:intersection-of-%d-group-refs' % len(refs))
            if kind == 'refs+local' or (kind == 'ext' and rng.random() < 0.5):
                body += any_attr(rng.choice(forms))
                tags.append('wildcard-combination:' + ('intersection-with-local-anyAttribute' if refs else 'local-anyAttribute'))
            content = ''
            if kind == 'ext':
                base = rng.randrange(j)
                tags.append('wildcard-combination:union-by-extension')
                has_group[j] = has_group[base]
                xml = (f'<xs:complexType name="WT{k}_{j}"><xs:complexContent><xs:extension base="t:WT{k}_{base}">{body}'
                       f'</xs:extension></xs:complexContent></xs:complexType>')
            else:
                has_group[j] = rng.random() < 0.5
                if has_group[j]:
                    content = f'<xs:group ref="t:WM{k}_{rng.randrange(nm_)}"/>'
                    tags.append('wildcard-combination:shared-model-group')
                xml = f'<xs:complexType name="WT{k}_{j}">{content}{body}</xs:complexType>'
            decls.append(('complexType', f'WT{k}_{j}', xml))
        probes = []
        ns = ' xmlns:t="urn:t" xmlns:x="urn:x" xmlns:y="urn:y" xmlns:z="urn:z" xmlns:a="urn:a"'
        for j in range(nt):
            decls.append(('element', f'we{k}_{j}', f'<xs:element name="we{k}_{j}" type="t:WT{k}_{j}"/>'))
            kids = '<x:c/><c xmlns=""/>' if has_group[j] else ''
            probes.append({'xml': f'<t:we{k}_{j}{ns} foo="1" t:foo="1" x:foo="1" y:foo="1" z:foo="1" a:foo="1">{kids}</t:we{k}_{j}>',
                           'tag': 'wildcards: one attribute of every namespace region', 'block': 'wild'})
            if has_group[j]:
                probes.append({'xml': f'<t:we{k}_{j}{ns}><y:c/><t:unknown/></t:we{k}_{j}>',
                               'tag': 'wildcards: children of other regions', 'block': 'wild'})
        return decls, probes, tags

    def _add(self, kind: str, name: str, xml: str) -> None:
        self.decls.append((kind, name, xml))

    def install(self) -> None:
        """insert the declarations at random positions of the base document order (forward references) and
        in definition-before-use order in the creation list"""
        sc = self.sc
        for d in self.decls:
            sc.decls.insert(self.rng.randint(0, len(sc.decls)), d)
            sc.creation.append(d[1] + '/' + d[0])


# =============================================================================================
#  introspection of the registries of an XsdGlobals, with the generation of every object
# =============================================================================================
class Epochs:
    """Generation of real objects: objects first seen after build number g have generation g.  Strong
    references are kept so that an id is never reused while the history is alive."""

    def __init__(self) -> None:
        self.seen: dict[int, int] = {}
        self.keep: list = []
        self.step = -1

    def new_step(self) -> int:
        self.step += 1
        return self.step

    def gen(self, obj: Any) -> int:
        g = self.seen.get(id(obj))
        if g is None:
            g = self.seen[id(obj)] = self.step
            self.keep.append(obj)
        return g


def elem_key(schema: Any, elem: Any, cache: dict) -> str:
    """position of an XSD element node in its document (stable under rebuild, copy and pickle)"""
    root = schema.source.root
    k = cache.get(id(root))
    if k is None:
        k = cache[id(root)] = ({id(e): i for i, e in enumerate(root.iter())}, root)
    url = schema.source.url or ''
    return f'{os.path.basename(url)}#{k[0].get(id(elem), -1)}'


def registry_view(schema: Any, ep: Epochs, touch: bool = True) -> dict:
    """What the registries of `schema.maps` hold now, and the requests a build of these components issues.
    Call once per step of a history, after `ep.new_step()`."""
    from xmlschema.validators import XsdElement, XsdKeyref, XsdIdentity
    maps = schema.maps
    cache: dict = {}
    g = ep.gen
    own = [s for s in maps.schemas if s.maps is maps and s.meta_schema is not None]
    # --- the components of the current global maps first: they define the current generation
    store = []
    reqs: list = []
    keyrefs = []
    seen_ident: set = set()
    for c in maps.iter_globals():
        if c.schema.meta_schema is None or c.name.startswith('{urn:c09-extra}'):
            continue        # components of the meta-schema are shared, not built by this maps object
        store.append([type(c).__name__ + '|' + c.name, g(c)])
        reqs.append({'r': 'global', 'n': type(c).__name__ + '|' + c.name})
        if isinstance(c, XsdElement) and c.substitution_group:
            head = maps.elements.get(c.substitution_group)
            if head is not None and 'substitution' not in head.block:
                reqs.append({'r': 'subst', 'head': c.substitution_group, 'member': c.name})
        for e in c.iter_components(XsdElement):
            if e.ref is not None:
                continue
            for idn in e.identities:
                if id(idn) in seen_ident:
                    continue
                seen_ident.add(id(idn))
                g(idn)
                if idn.ref is None:
                    reqs.append({'r': 'ident', 'n': idn.name, 'elem': elem_key(idn.schema, idn.elem, cache)})
                if isinstance(idn, XsdKeyref):
                    refer = idn.refer
                    if isinstance(refer, XsdIdentity):
                        is_own = any(x is refer for x in e.identities)
                        keyrefs.append({'n': idn.name, 'refer': refer.name, 'own': is_own, 'gen': g(refer),
                                        'registered': maps.identities.get(refer.name) is refer})
                    else:
                        keyrefs.append({'n': idn.name, 'refer': str(refer), 'own': False, 'gen': None, 'registered': False})
    idents = sorted([n, elem_key(i.schema, i.elem, cache), g(i)] for n, i in maps.identities.items()
                    if not n.startswith(XSD_NS))
    subst = sorted([h, sorted([m.name, g(m)] for m in ms)] for h, ms in maps.substitution_groups.items()
                   if not h.startswith(XSD_NS))
    # --- schema-level cached views of the components (schemas.py:718-758): what a caller of the API gets
    views = []
    if touch:
        for s in own:
            for attr in ('root_elements', 'simple_types', 'complex_types'):
                try:
                    views += [g(x) for x in getattr(s, attr)]
                except Exception:   # noqa
                    pass
            try:
                views += [g(x) for x in s.components.values() if not isinstance(x, type(s))]
            except Exception:   # noqa
                pass
    # --- entries inherited from the ancestors (the meta-schema is the parent of every schema): copied in by every
    #     build (xsd_globals.py:551-555), they must be there, and be the ancestors' own objects, after every step
    inherited = []
    anc = [a.maps for a in maps.iter_ancestors()]
    for n, i in maps.identities.items():
        if n.startswith(XSD_NS):
            inherited.append(['identity', n, any(a.identities.get(n) is i for a in anc)])
    for h, ms in maps.substitution_groups.items():
        if h.startswith(XSD_NS):
            inherited.append(['substitution-group', h, any(a.substitution_groups.get(h) is ms for a in anc)])
    # --- cached properties of the maps object itself (xsd_globals.py:171-186, 316-355): dropped whenever `_built`
    #     changes; what they hand out must be what the maps hold now
    memo = []
    try:
        memo.append(['any_simple_type is types[xs:anySimpleType]', maps.any_simple_type is maps.types[XSD_NS + '}anySimpleType']])
        memo.append(['any_atomic_type is types[xs:anyAtomicType]', maps.any_atomic_type is maps.types[XSD_NS + '}anyAtomicType']])
        memo.append(['validation_attempted', maps.validation_attempted])
        memo.append(['xpath_constructors are the atomic types of the store',
                     sorted(maps.xpath_constructors) == sorted(
                         n for n, t in maps.types.items()
                         if type(t).__name__ in ('XsdAtomicRestriction', 'Xsd11AtomicRestriction')
                         and n not in (XSD_NS + '}anyAtomicType', XSD_NS + '}NOTATION'))])
    except Exception as e:   # noqa
        memo.append(['raised', type(e).__name__])
    expected = sorted([['identity', n, True] for a in anc for n in a.identities if n.startswith(XSD_NS)]
                      + [['substitution-group', h, True] for a in anc for h in a.substitution_groups if h.startswith(XSD_NS)])
    return {'memo': memo, 'inherited': sorted(inherited), 'inherited_expected': expected, 'store': sorted(store), 'idents': idents, 'subst': subst,
            'keyrefs': sorted(keyrefs, key=lambda k: k['n']), 'views': sorted(set(views)), 'reqs': reqs}


# =============================================================================================
#  purity monitor: a structural fingerprint of a built component and of what is reachable from it
# =============================================================================================
def _occ(c: Any) -> list:
    return [getattr(c, 'min_occurs', None), getattr(c, 'max_occurs', None)]


def _sset(x: Any) -> Any:
    if x is None:
        return None
    if isinstance(x, (set, frozenset, list, tuple)):
        return sorted(str(i) for i in x)
    return str(x)


def fingerprint(c: Any, deep: bool, depth: int = 0, top: bool = True) -> Any:
    """Canonical JSON-able description of the declared content of component `c`: what an instance is validated
    against, not caches or back links.  A reference to another GLOBAL component is its name (that component has a
    fingerprint of its own); anonymous components are described in place.  deep=False is the description that is
    already final when the constructor of a global returns (local element declarations are completed later by
    XsdGroup.build, so only their name and occurrence are taken); deep=True describes everything."""
    from xmlschema.validators import XsdElement, XsdGroup, XsdAttributeGroup, XsdAttribute, XsdComplexType, \
        XsdAnyElement, XsdAnyAttribute, XsdSimpleType, XsdNotation, XsdIdentity
    if c is None:
        return None
    if depth > 40:
        return 'too-deep'
    cn = type(c).__name__
    try:
        if isinstance(c, (XsdAnyElement, XsdAnyAttribute)):
            return [cn, _sset(c.namespace), _sset(getattr(c, 'not_namespace', None)), _sset(getattr(c, 'not_qname', None)),
                    c.process_contents] + (_occ(c) if isinstance(c, XsdAnyElement) else [])
        if isinstance(c, XsdNotation):
            return [cn, c.name, c.elem.get('public'), c.elem.get('system')]
        if isinstance(c, XsdAttribute):
            if not top and c.parent is None or (c.ref is not None and not top):
                return ['attribute-ref', c.name, c.use, c.default, c.fixed]
            t = c.type
            return [cn, c.name, c.use, c.default, c.fixed,
                    ['ref', t.name] if (t is not None and t.parent is None and t.name) else fingerprint(t, deep, depth + 1, False)]
        if isinstance(c, XsdAttributeGroup):
            if not top and c.parent is None and c.name:
                return ['attributeGroup-ref', c.name]
            # the VALUES are described in place even when they are shared with a referenced group: what this
            # holder validates against is what the shared object says
            return [cn, c.name, [[k, fingerprint(v, deep, depth + 1, False)] for k, v in
                                 sorted(c.items(), key=lambda kv: kv[0] or '')]]
        if isinstance(c, XsdElement):
            if c.ref is not None or (not top and c.elem.get('ref') is not None):
                return ['element-ref', c.elem.get('ref'), _occ(c)]
            if not top and c.parent is None:
                return ['element-ref', c.name, _occ(c)]
            if not deep and not top:
                return ['local-element', c.elem.get('name'), _occ(c)]
            t = getattr(c, 'type', None)
            return [cn, c.name, _occ(c), getattr(c, 'nillable', None), getattr(c, 'abstract', None),
                    getattr(c, 'default', None), getattr(c, 'fixed', None), _sset(getattr(c, 'block', None)),
                    _sset(getattr(c, 'final', None)), getattr(c, 'substitution_group', None),
                    ['ref', t.name] if (t is not None and t.parent is None and t.name) else fingerprint(t, deep, depth + 1, False),
                    [[i.name, type(i).__name__, getattr(getattr(i, 'selector', None), 'path', None),
                      [getattr(f, 'path', None) for f in (getattr(i, 'fields', None) or [])]]
                     for i in (getattr(c, 'identities', None) or [])],
                    [[getattr(a, 'path', None), getattr(getattr(a, 'type', None), 'name', None)]
                     for a in (getattr(c, 'alternatives', None) or [])]]
        if isinstance(c, XsdGroup):
            if not top and c.parent is None and c.name:
                return ['group-ref', c.name, _occ(c)]
            if getattr(c, 'ref', None) is not None and not top:
                return ['group-ref', c.name, _occ(c)]
            return [cn, c.name, c.model, _occ(c), getattr(c, 'mixed', None),
                    [fingerprint(x, deep, depth + 1, False) for x in c]]
        if isinstance(c, XsdComplexType):
            if not top and c.parent is None and c.name:
                return ['ref', c.name]
            b = c.base_type
            oc = getattr(c, 'open_content', None)
            content = c.content
            return [cn, c.name, c.derivation, getattr(b, 'name', None) if b is not None else None, c.mixed,
                    getattr(c, 'abstract', None), _sset(c.block), _sset(c.final),
                    fingerprint(c.attributes, deep, depth + 1, False) if c.attributes.parent is not None or not c.attributes.name
                    else fingerprint(c.attributes, deep, depth + 1, True),
                    (['ref', content.name] if (isinstance(content, XsdSimpleType) and content.parent is None and content.name)
                     else fingerprint(content, deep, depth + 1, False)),
                    None if oc is None else [oc.mode, fingerprint(oc.any_element, deep, depth + 1, False)],
                    [[getattr(a, 'path', None), getattr(a, 'xpath_default_namespace', None)]
                     + ([_bound_to_self(a)] if deep else []) for a in (getattr(c, 'assertions', None) or [])]]
        if isinstance(c, XsdSimpleType):
            if not top and c.parent is None and c.name:
                return ['ref', c.name]
            b = getattr(c, 'base_type', None)
            facets = []
            for k, f in (getattr(c, 'facets', None) or {}).items():
                v = getattr(f, 'value', None)
                if v is None:
                    v = getattr(f, 'enumeration', None) or getattr(f, 'regexps', None)
                facets.append([str(k), _sset(v) if isinstance(v, (list, set, tuple)) else str(v)])
            members = getattr(c, 'member_types', None)
            return [cn, c.name, (['ref', b.name] if (b is not None and b.parent is None and b.name) else fingerprint(b, deep, depth + 1, False)),
                    sorted(facets), getattr(c, 'white_space', None),
                    None if members is None else [(['ref', m.name] if (m.parent is None and m.name) else fingerprint(m, deep, depth + 1, False))
                                                  for m in members]]
        if isinstance(c, XsdIdentity):
            return [cn, c.name]
        return [cn, getattr(c, 'name', None)]
    except Exception as e:   # noqa  (a half-built component: described by the failure, which must be stable too)
        return [cn, 'fingerprint-raised', type(e).__name__]


def _bound_to_self(a: Any) -> Any:
    """is the schema-bound XPath parser of assertion `a` bound to `a` itself (proxy base element) and to a's schema?"""
    p = getattr(a, 'parser', None)
    if p is None:
        return None
    px = getattr(p, 'schema', None)
    if px is None:
        return 'unbound'
    return [getattr(px, '_base_element', None) is a, getattr(px, '_schema', None) is a.schema]


def xpath_bindings(components: list) -> list:
    """XPath machinery of the components reachable from the given globals: every parser / parsed token belongs to ONE
    component, and a schema-bound parser is bound to its own component (assertions.py:91-97: namespaces, $value type,
    default namespace and the schema proxy whose base element is the assertion of THAT complex type).  Returns the
    faults: [{'what', 'components'}]."""
    from xmlschema.validators import XsdAssert, XsdComplexType, XsdElement, XsdSimpleType
    owners: dict = {}       # id(object) -> (kind, object, {id(owner): description})
    faults = []
    seen: set = set()

    def note(kind: str, obj: Any, owner: Any, desc: str) -> None:
        if obj is None:
            return
        e = owners.setdefault(id(obj), (kind, obj, {}))
        e[2][id(owner)] = desc

    def visit(owner: Any, desc: str) -> None:
        if id(owner) in seen:
            return
        seen.add(id(owner))
        note('parser', getattr(owner, 'parser', None), owner, desc)
        note('token', getattr(owner, 'token', None), owner, desc)
        if isinstance(owner, XsdAssert):
            b = _bound_to_self(owner)
            if isinstance(b, list) and not all(b):
                faults.append({'what': 'the schema-bound XPath parser of an assertion is bound to another component '
                                       '(proxy base element is the assertion itself, proxy schema is its schema: %r)' % b,
                               'components': [desc]})
    for g in components:
        gname = getattr(g, 'name', None)
        try:
            subs = list(g.iter_components())
        except Exception:   # noqa
            continue
        for c in subs:
            if isinstance(c, XsdComplexType):
                for a in getattr(c, 'assertions', None) or []:
                    visit(a, f'assert {getattr(a, "path", None)!r} of complex type {c.name or "(anonymous in " + str(gname) + ")"}')
            elif isinstance(c, XsdElement):
                for k, alt in enumerate(getattr(c, 'alternatives', None) or []):
                    visit(alt, f'alternative #{k} {getattr(alt, "path", None)!r} of element {c.name}')
                for idn in getattr(c, 'identities', None) or []:
                    sel = getattr(idn, 'selector', None)
                    if sel is not None:
                        visit(sel, f'selector {getattr(sel, "path", None)!r} of {idn.name}')
                    for f in getattr(idn, 'fields', None) or []:
                        visit(f, f'field {getattr(f, "path", None)!r} of {idn.name}')
            elif isinstance(c, XsdSimpleType):
                for fk, f in (getattr(c, 'facets', None) or {}).items():
                    if hasattr(f, 'token'):
                        visit(f, f'assertion facet {getattr(f, "path", None)!r} of simple type {c.name or "(anonymous in " + str(gname) + ")"}')
    for kind, obj, who in owners.values():
        if len(who) > 1:
            faults.append({'what': f'one XPath {kind} object serves {len(who)} components', 'components': sorted(who.values())})
    return faults


def diff_fp(a: Any, b: Any, path: str = '') -> Optional[str]:
    """first position where two fingerprints differ"""
    if type(a) is not type(b):
        return f'{path}: {a!r} -> {b!r}'[:400]
    if isinstance(a, list):
        if len(a) != len(b):
            return f'{path}: {a!r} -> {b!r}'[:400]
        for i, (x, y) in enumerate(zip(a, b)):
            d = diff_fp(x, y, f'{path}[{i}]')
            if d:
                return d
        return None
    return None if a == b else f'{path}: {a!r} -> {b!r}'[:400]
