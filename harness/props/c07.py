"""
C07 — dynamic typing (xsi:type), substitution groups and xsi:nil obey derivation, block and abstract rules.

Families (all seeded from ctx.rng, XSD 1.0 and 1.1):
  A. random type hierarchies (complex extension/restriction chains, a simple restriction chain, simple-content
     complex types; abstract flags; block/final on types, blockDefault/finalDefault on the schema) x global
     element declarations (type, block, abstract, nillable, fixed, substitution groups up to two levels) x
     instance variants (EVERY type name as xsi:type + an unknown name + none, nil flag variants, content
     variants); every (head, member) pair; every substitute x every xsi:type derived from the member's type
     (+ one underived, + an unknown name): substitution COMBINED with xsi:type;
  B. "kinds" schemas: builtin types (xs:short..xs:decimal, xs:boolean), xs:anyType / xs:anySimpleType as
     declared types, list types and their restrictions, unions (random members, nested), restricted unions,
     simple-content types over simple types and unions (extension and restriction), a complex chain;
     elements of 11 declared types x 2 random block values; every named type as xsi:type of every element;
     is_derived on all named pairs x {None, extension, restriction}; get_instance_type on all pairs;
  C. XSD 1.1 type alternatives: 4 fixed tables, and random tables of random test expressions
     (@a = 'v', @a != 'v', @a, not(), and, or) evaluated by the Lean model (`evalTest`), by an independent
     Python reading and by the library (elementpath) on every attribute setting.

For each built schema the type hierarchy and the global elements are introspected (object identity ->
index; base, content, item and member types before the type that uses them) and
  (1) `is_derived(t, u, d)`, `is_blocked(t, e)`, `get_instance_type` are compared with the Lean model
      (XsVerif/Model/Derivation.lean) run with the behaviours of the findings that are still `known`
      switched on (`quirks`); the model's repaired answer is returned too and counted when it differs,
  (2) every instance is validated by the library; the error kinds are compared with the model's
      `elementErrs` / `substVerdict` / `substXsiErrs` / `selectAlt` / `selectAltT`,
  (3) the property itself is evaluated on the real code against an independent reading computed from the
      generator's AST (chains over the *declared* bases and union members, effective block = attribute or
      schema default); deviations are failures unless an exact matcher of a known finding applies.
"""
from __future__ import annotations

import json
import re
from typing import Any, Optional
from xml.etree import ElementTree as ET

from harness.core import Ctx, Driver, VERIF

PROPS = 'XsVerif.Props.C07'
AUDIT = 'XsVerif.Audit.C07'
LEAN_TARGETS = ['XsVerif.Props.C07', 'drv_c07']
LEANCHECK = ['XsVerif.Model.Derivation', 'XsVerif.Props.C07']
RULE = ('a case is one (XSD version, schema, element declaration, xsi:type choice, nil variant, content variant) or '
        'one (schema, head, member[, xsi:type]) substitution case or one (kinds schema, type pair) / (kinds schema, '
        'element, xsi:type) or one (alternative table, attribute setting[, content]); '
        'non-trivial = xsi:type present, or xsi:nil present, or the element has a fixed value, or a substitution / '
        'alternative case; distinct by canonical JSON of (version, built hierarchy, built element, instance)')
TRUSTED = ['content validity per (governing type, content variant) and fixed-value agreement are parameters of the '
           'theorems (CSem.contentOk / fixedOk); in the correspondence they come from the harness\'s own reading of '
           'the generated content models (optional element sequences, integer ranges); in the kinds family only the '
           'typing errors (unknown / not derived / blocked / abstract) are compared',
           'the chain theorems about is_derived/is_blocked/xsi:type/substitution (+ xsi:type) are proved for '
           'hierarchies of complex types with complex content; for simple types, lists, unions, builtin types, '
           'simple-content types and the ur-types the model is tied by the correspondence run, with theorems on '
           'the union clause of get_instance_type, on the simple variants and the requested derivation mode, and '
           'decide-proved pinned/repaired witnesses of the five recorded defects, replayed on the real code',
           'XPath tests of type alternatives: the subset {@a = v, @a != v, @a, not, and, or} is modelled and '
           'evaluated in Lean; other XPath is outside']
ASSUMPTIONS = ['for substitution groups the block set is that of the head element and the head\'s type (as for '
               'xsi:type); blocks of intermediate types of the chain are not consulted by the library (XSD '
               'Substitution Group OK (Transitive) clause 2.3 counts them): modelled as the code is, not judged',
               'the block of the HEAD element applied to the xsi:type of a substitute is an extra rule of the '
               'library (groups.py:908-915): modelled and proved as it is, not judged by the property evaluation',
               'a step from a union to one of its member types carries no derivation method; cases where such a '
               'step meets a non-empty block are compared with the model but not judged',
               'no inherited attributes in type alternatives; no identity-constraint widening for xsi types']

T = 'urn:t'
XSD = 'http://www.w3.org/2001/XMLSchema'
XSI = 'http://www.w3.org/2001/XMLSchema-instance'
XSI_TYPE, XSI_NIL = '{%s}type' % XSI, '{%s}nil' % XSI
NS = {'t': T, 'xsi': XSI}
METHS = ('extension', 'restriction')
BLOCKS_T = [None, None, '', 'extension', 'restriction', '#all']
BLOCKS_E = [None, None, '', 'extension', 'restriction', 'substitution', '#all', 'extension substitution',
            'restriction substitution']


# ---------------------------------------------------------------- generator (AST)
def gen_schema(rng) -> dict:
    n_c = rng.randint(3, 7)
    types: list[dict] = []
    for i in range(n_c):
        if i == 0 or rng.random() < 0.12:
            base, meth = None, None
        else:
            base = rng.randrange(i)
            meth = rng.choice(METHS)
        types.append({'name': f'C{i}', 'kind': 'complex', 'base': f'C{base}' if base is not None else None,
                      'meth': meth, 'abstract': rng.random() < 0.2, 'block': rng.choice(BLOCKS_T), 'final': None})
    smax = [100, 50, 10]
    for i, mx in enumerate(smax):
        types.append({'name': f'S{i}', 'kind': 'simple', 'base': f'S{i - 1}' if i else 'xs:int', 'meth': 'restriction',
                      'max': mx, 'abstract': False, 'block': None, 'final': None})
    types.append({'name': 'SC0', 'kind': 'sc', 'base': 'S0', 'meth': 'extension', 'abstract': False,
                  'block': rng.choice(BLOCKS_T), 'final': None})
    types.append({'name': 'SC1', 'kind': 'sc', 'base': 'SC0', 'meth': 'extension', 'abstract': rng.random() < 0.2,
                  'block': rng.choice(BLOCKS_T), 'final': None})
    byname = {t['name']: t for t in types}
    final_default = rng.choice(['', '', '', 'extension', 'restriction'])
    used = {t['name']: set() for t in types}
    for t in types:
        if t['base'] in used:
            used[t['base']].add(t['meth'])
    for t in types:
        if t['kind'] == 'simple':
            continue
        # a `final` that the hierarchy respects
        free = [m for m in METHS if m not in used[t['name']]]
        if any(m in final_default.split() for m in used[t['name']]):
            t['final'] = ' '.join(m for m in final_default.split() if m not in used[t['name']])
        elif free and rng.random() < 0.25:
            t['final'] = rng.choice(free)
    elems: list[dict] = []
    heads = []
    n_e = rng.randint(3, 5)
    names = [t['name'] for t in types]
    for i in range(n_e):
        ty = rng.choice(names)
        simple = byname[ty]['kind'] in ('simple', 'sc')
        e = {'name': f'e{i}', 'type': ty, 'block': rng.choice(BLOCKS_E), 'abstract': rng.random() < 0.15,
             'nillable': rng.random() < 0.5, 'fixed': '5' if simple and rng.random() < 0.35 else None,
             'subst': None, 'final': ''}
        elems.append(e)
        heads.append(e)
    # substitution groups, up to two levels: member types are derived from (or equal to) the head's type
    def descendants(name: str) -> list[str]:
        out = [name]
        for t in types:
            if t['base'] in out and t['name'] not in out:
                out.append(t['name'])
        return out
    k = 0
    for level in range(2):
        for h in list(heads):
            if rng.random() < (0.6 if level == 0 else 0.35):
                ty = rng.choice(descendants(h['type']))
                m = {'name': f'm{k}', 'type': ty, 'block': rng.choice(BLOCKS_E), 'abstract': rng.random() < 0.2,
                     'nillable': False, 'fixed': None, 'subst': h['name'], 'final': ''}
                k += 1
                elems.append(m)
                if level == 0:
                    heads.append(m)
        heads = [e for e in elems if e['subst'] is not None]
    return {'types': types, 'elems': elems, 'blockDefault': rng.choice(['', '', 'extension', 'restriction',
                                                                         'substitution', '#all',
                                                                         'extension substitution']),
            'finalDefault': final_default}


def chain_elems(byname: dict, name: str) -> list[str]:
    """child element names (all optional, in order) of a generated complex type"""
    t = byname[name]
    base = chain_elems(byname, t['base']) if t['base'] else ['x']
    return base + (['y' + name] if t['meth'] == 'extension' else [])


def xsd_text(s: dict) -> str:
    byname = {t['name']: t for t in s['types']}
    out = [f'<xs:schema xmlns:xs="{XSD}" targetNamespace="{T}" xmlns:t="{T}" elementFormDefault="qualified" '
           f'blockDefault="{s["blockDefault"]}" finalDefault="{s["finalDefault"]}">']

    def attrs(t: dict) -> str:
        a = ''
        if t.get('abstract'):
            a += ' abstract="true"'
        if t.get('block') is not None:
            a += f' block="{t["block"]}"'
        if t.get('final') is not None:
            a += f' final="{t["final"]}"'
        return a
    for t in s['types']:
        if t['kind'] == 'complex':
            seq = ''.join(f'<xs:element name="{n}" type="xs:int" minOccurs="0"/>' for n in chain_elems(byname, t['name']))
            if t['base'] is None:
                out.append(f'<xs:complexType name="{t["name"]}"{attrs(t)}><xs:sequence>{seq}</xs:sequence></xs:complexType>')
            elif t['meth'] == 'extension':
                own = f'<xs:element name="y{t["name"]}" type="xs:int" minOccurs="0"/>'
                out.append(f'<xs:complexType name="{t["name"]}"{attrs(t)}><xs:complexContent><xs:extension '
                           f'base="t:{t["base"]}"><xs:sequence>{own}</xs:sequence></xs:extension></xs:complexContent>'
                           f'</xs:complexType>')
            else:
                out.append(f'<xs:complexType name="{t["name"]}"{attrs(t)}><xs:complexContent><xs:restriction '
                           f'base="t:{t["base"]}"><xs:sequence>{seq}</xs:sequence></xs:restriction></xs:complexContent>'
                           f'</xs:complexType>')
        elif t['kind'] == 'simple':
            b = t['base'] if t['base'].startswith('xs:') else 't:' + t['base']
            fin = ' final=""' if s['finalDefault'] else ''
            out.append(f'<xs:simpleType name="{t["name"]}"{fin}><xs:restriction base="{b}"><xs:maxInclusive '
                       f'value="{t["max"]}"/></xs:restriction></xs:simpleType>')
        else:
            out.append(f'<xs:complexType name="{t["name"]}"{attrs(t)}><xs:simpleContent><xs:extension '
                       f'base="t:{t["base"]}"><xs:attribute name="k{t["name"]}" type="xs:string"/></xs:extension>'
                       f'</xs:simpleContent></xs:complexType>')
    for e in s['elems']:
        a = f' type="t:{e["type"]}" final=""'
        if e['block'] is not None:
            a += f' block="{e["block"]}"'
        if e['abstract']:
            a += ' abstract="true"'
        if e['nillable']:
            a += ' nillable="true"'
        if e['fixed'] is not None:
            a += f' fixed="{e["fixed"]}"'
        if e['subst']:
            a += f' substitutionGroup="t:{e["subst"]}"'
        out.append(f'<xs:element name="{e["name"]}"{a}/>')
    for e in s['elems']:
        out.append(f'<xs:element name="r_{e["name"]}"><xs:complexType><xs:sequence><xs:element ref="t:{e["name"]}" '
                   f'minOccurs="0" maxOccurs="unbounded"/></xs:sequence></xs:complexType></xs:element>')
    out.append('</xs:schema>')
    return '\n'.join(out)


# ---------------------------------------------------------------- independent reading (from the AST)
def eff_block(s: dict, x: dict) -> set:
    b = x['block'] if x.get('block') is not None else s['blockDefault']
    if b == '#all':
        return {'extension', 'restriction', 'substitution'}
    return set(b.split())


def chain_methods(byname: dict, t: str, u: str) -> Optional[list[str]]:
    ms: list[str] = []
    cur = t
    while cur != u:
        d = byname.get(cur)
        if d is None or d['base'] is None:
            return None
        ms.append(d['meth'])
        cur = d['base']
    return ms


CONTENTS = [  # (id, text, children)
    (0, None, []), (1, '5', []), (2, '05', []), (3, '30', []), (4, '70', []), (5, 'zz', []), (6, None, ['x']),
    (7, None, ['x', 'LAST']), (8, None, ['LAST', 'x']), (9, ' ', []),
]


def content_ok(byname: dict, ty: str, cv: tuple, fixed: Optional[str]) -> bool:
    """is the (concrete) content variant valid for the governing type (element fixed value applied to empty
    text)"""
    _, text, children = cv
    t = byname[ty]
    if t['kind'] == 'complex':
        if text is not None and text.strip():
            return False
        names = chain_elems(byname, ty)
        kids = list(children)
        pos = -1
        for c in kids:
            if c not in names or names.index(c) <= pos:
                return False
            pos = names.index(c)
        return True
    if children:
        return False
    mx = byname['S0']['max'] if t['kind'] == 'sc' else t['max']
    txt = text if text else (fixed if fixed is not None else text)
    if txt is None or not re.fullmatch(r'\s*[+-]?[0-9]+\s*', txt):
        return False
    return int(txt) <= mx


def fixed_ok(byname: dict, ty: str, cv: tuple, fixed: Optional[str]) -> bool:
    _, text, children = cv
    if fixed is None:
        return True
    if byname[ty]['kind'] == 'complex':
        return not children          # never generated: fixed only on simple / simple-content elements
    if children:
        return True                  # reported as content error
    if not text:
        return True
    if re.fullmatch(r'\s*[+-]?[0-9]+\s*', text):
        return int(text) == int(fixed)
    return False


def spec_element(s: dict, e: dict, xsi: Optional[str], nil: Optional[str], cv: tuple) -> bool:
    byname = {t['name']: t for t in s['types']}
    D = byname[e['type']]
    gov = e['type']
    if xsi is not None:
        if xsi not in byname:
            return False
        ms = chain_methods(byname, xsi, e['type'])
        if ms is None:
            return False
        if set(ms) & (eff_block(s, e) | (eff_block(s, D) if D['kind'] != 'simple' else set())):
            return False
        gov = xsi
    if byname[gov].get('abstract'):
        return False
    nilled = False
    if nil is not None:
        v = nil.strip()
        if not e['nillable'] or v not in ('0', '1', 'true', 'false'):
            return False
        if v in ('1', 'true'):
            if e['fixed'] is not None or cv[1] is not None or cv[2]:
                return False
            nilled = True
    if nilled:
        return True
    return content_ok(byname, gov, cv, e['fixed']) and fixed_ok(byname, gov, cv, e['fixed'])


def spec_subst(s: dict, head: dict, m: dict) -> str:
    byname = {t['name']: t for t in s['types']}
    ebyname = {e['name']: e for e in s['elems']}
    cur, reach = m, False
    while cur['subst'] is not None:
        p = ebyname[cur['subst']]
        if 'substitution' in eff_block(s, p):
            break
        if p is head:
            reach = True
            break
        cur = p
    if not reach or m['abstract']:
        return 'notSubstitute'
    ms = chain_methods(byname, m['type'], head['type'])
    D = byname[head['type']]
    blk = eff_block(s, head) | (eff_block(s, D) if D['kind'] != 'simple' else set())
    if 'substitution' in eff_block(s, head) or ms is None or set(ms) & blk:
        return 'blocked'
    return 'accepted'


# ---------------------------------------------------------------- real code: build + introspect
def introspect(schema: Any, extra: Any = ()) -> Optional[dict]:
    from xmlschema.validators import XsdComplexType, XsdSimpleType, XsdUnion
    objs: list[Any] = []

    def visit(t: Any) -> None:
        if t is None or any(t is o for o in objs):
            return
        if t.base_type is not None:
            visit(t.base_type)
        c = getattr(t, 'content', None)
        if isinstance(t, XsdComplexType) and isinstance(c, XsdSimpleType):
            visit(c)
        if isinstance(t, XsdUnion):
            for m in t.member_types:
                visit(m)
        if getattr(t, 'item_type', None) is not None and not isinstance(t, XsdComplexType):
            visit(t.item_type)
        pt = getattr(t, 'primitive_type', None)
        if isinstance(pt, XsdUnion) and pt is not t:
            visit(pt)
        objs.append(t)
    for t in schema.types.values():
        visit(t)
    for e in schema.elements.values():
        visit(e.type)
    for t in extra:
        visit(t)
    idx = {id(o): i for i, o in enumerate(objs)}
    types = []
    from xmlschema.validators import XsdList, XsdAtomic, XsdAtomicRestriction
    for o in objs:
        cx = isinstance(o, XsdComplexType)
        c = getattr(o, 'content', None)
        types.append({
            'base': idx[id(o.base_type)] if o.base_type is not None else None,
            'deriv': o.derivation if o.derivation in METHS else None,
            'complex': cx, 'anyType': o.name == '{%s}anyType' % XSD, 'anySimple': o.name == '{%s}anySimpleType' % XSD,
            'simpleContent': bool(cx and o.has_simple_content()),
            'content': idx[id(c)] if cx and isinstance(c, XsdSimpleType) else None,
            'abstract': bool(getattr(o, 'abstract', False)),
            'block': [m for m in (getattr(o, 'block', '') or '').split() if m in METHS],
            'anyAtomic': o.name == '{%s}anyAtomicType' % XSD, 'atomicCls': isinstance(o, XsdAtomic),
            'isList': isinstance(o, XsdList),
            'item': idx[id(o.item_type)] if isinstance(o, XsdList) else None,
            'isUnion': isinstance(o, XsdUnion),
            'members': [idx[id(m)] for m in o.member_types] if isinstance(o, XsdUnion) else [],
            'unionLike': bool(not cx and o.is_union()), 'facets': bool(not cx and o.facets),
            'primUnion': idx[id(o.primitive_type)] if isinstance(o, XsdAtomicRestriction)
            and isinstance(o.primitive_type, XsdUnion) else None})
    names = {o.local_name: idx[id(o)] for o in objs if o.name and o.name.startswith('{%s}' % T)}
    elems, eidx = [], {}
    order = [e for e in schema.elements.values() if not e.local_name.startswith('r_')]
    order.sort(key=lambda e: (0 if e.substitution_group is None else
                              1 if schema.maps.elements[e.substitution_group].substitution_group is None else 2))
    for i, e in enumerate(order):
        eidx[e.name] = i
    for e in order:
        blk = (e.block or '').split()
        elems.append({'ty': idx[id(e.type)], 'block': [m for m in blk if m in METHS],
                      'blockSubst': 'substitution' in blk, 'abstract': bool(e.abstract), 'nillable': bool(e.nillable),
                      'fixed': e.fixed is not None,
                      'subst': eidx[e.substitution_group] if e.substitution_group else None})
    return {'types': types, 'elems': elems, 'names': names, 'objs': objs, 'eorder': order, 'idx': idx,
            'eidx': {e.local_name: i for i, e in enumerate(order)}}


ERRS = [
    (re.compile(r'not found'), 'unknownType'),
    (re.compile(r'cannot substitute'), 'notDerived'),
    (re.compile(r'^usage of .* is blocked$'), 'blocked'),
    (re.compile(r'^Xsd\w+\(.*\) is abstract$'), 'abstractType'),
    (re.compile(r'^element is not nillable$'), 'notNillable'),
    (re.compile(r'^xsi:nil attribute must have a boolean value$'), 'nilNotBoolean'),
    (re.compile(r"^xsi:nil='true' but the element has a fixed value$"), 'nilFixed'),
    (re.compile(r"^xsi:nil='true' but the element is not empty$"), 'nilNotEmpty'),
    (re.compile(r'^must have the fixed value'), 'fixedValue'),
    (re.compile(r"^can't use an abstract"), 'abstractElement'),
    (re.compile(r'^substitution of .* is blocked$'), 'substBlocked'),
    (re.compile(r'blocked by head element'), 'headBlocked'),
]


def kinds_of(errs: list) -> list[str]:
    from xmlschema.validators import XsdElement, XMLSchemaChildrenValidationError
    out = set()
    for e in errs:
        r = e.reason or ''
        k = 'content'
        if isinstance(e, XMLSchemaChildrenValidationError):
            k = 'children'
        elif isinstance(e.validator, XsdElement) or 'substitution of' in r or 'blocked by head' in r \
                or ' cannot substitute ' in r or re.search(r"global component .* not found", r):
            for rx, kind in ERRS:
                if rx.search(r):
                    k = kind
                    break
        out.add(k)
    return sorted(out)


def concrete(cv: tuple, last: str) -> tuple:
    return (cv[0], cv[1], [last if c == 'LAST' else c for c in cv[2]])


def make_elem(name: str, xsi: Optional[str], nil: Optional[str], cv: tuple, last: str) -> Any:
    attrib = {}
    if xsi is not None:
        attrib[XSI_TYPE] = 't:' + xsi
    if nil is not None:
        attrib[XSI_NIL] = nil
    el = ET.Element('{%s}%s' % (T, name), attrib)
    el.text = cv[1]
    for c in cv[2]:
        k = ET.SubElement(el, '{%s}%s' % (T, last if c == 'LAST' else c))
        k.text = '1'
    return el


def run_schema(ctx: Ctx, drv: Optional[Driver], s: dict, v11: bool, light: bool = False) -> None:
    import xmlschema
    from xmlschema import XMLSchemaException
    ver = '1.1' if v11 else '1.0'
    xsd = xsd_text(s)
    case0 = {'v': ver, 'schema': s}
    try:
        schema = (xmlschema.XMLSchema11 if v11 else xmlschema.XMLSchema10)(xsd)
    except XMLSchemaException as ex:
        ctx.count('schema-refused')
        ctx.failure('generated schema refused by the library', case0, {'message': str(ex)[:400], 'xsd': xsd})
        return
    g = introspect(schema)
    if g is None:
        ctx.failure('built hierarchy cannot be expressed in the model', case0)
        return
    byname = {t['name']: t for t in s['types']}
    ebyname = {e['name']: e for e in s['elems']}
    ctx.count(f'{ver}/schemas')
    ctx.count('types:%d' % len(s['types']))
    queries: list = []
    pend: list = []
    objs = g['objs']
    # ---- (1) unit level: is_derived on all pairs, is_blocked on all type x element pairs
    for i, a in enumerate(objs):
        for j, b in enumerate(objs):
            for d in (None, 'extension', 'restriction'):
                real = bool(a.is_derived(b, d))
                queries.append({'op': 'derived', 't': i, 'u': j, 'd': d})
                pend.append(('derived', {'v': ver, 'schema': s, 't': a.name, 'u': b.name, 'd': d}, real))
                if a.name and b.name and a.local_name in byname and b.local_name in byname \
                        and a.name.startswith('{%s}' % T) and b.name.startswith('{%s}' % T):
                    ms = chain_methods(byname, a.local_name, b.local_name)
                    want = ms is not None and (d is None or d in ms or a is b)
                    if byname[a.local_name]['kind'] == 'simple' and d == 'extension' and a is not b:
                        want = False
                    if real != want and not (d is not None and a is b):
                        ucase = {'v': ver, 'schema': s, 't': a.local_name, 'u': b.local_name, 'd': d}
                        fid = known_match(ucase, {'is_derived': real})
                        if fid:
                            ctx.known_hit(fid)
                            continue
                        ctx.failure('is_derived differs from reachability over the declared base types '
                                    '(with the requested derivation method on the chain)',
                                    {'v': ver, 'schema': s, 't': a.local_name, 'u': b.local_name, 'd': d},
                                    {'is_derived': real, 'chain_methods': ms})
                    ctx.count('derived:' + str(real))
    for i, a in enumerate(objs):
        for e in g['eorder']:
            real = bool(a.is_blocked(e))
            queries.append({'op': 'blocked', 't': i, 'e': g['eidx'][e.local_name]})
            pend.append(('blocked', {'v': ver, 'schema': s, 't': a.name, 'e': e.local_name}, real))
            ctx.count('is_blocked:' + str(real))
    # ---- (2)+(3) element level
    tnames = [t['name'] for t in s['types']]
    contents = CONTENTS
    variants: dict = {}
    for e in s['elems']:
        xe = schema.elements[e['name']]
        ei = g['eidx'][e['name']]
        last = chain_elems(byname, e['type'])[-1] if byname[e['type']]['kind'] == 'complex' else 'x'
        for xsi in [None, 'Nope'] + tnames:
            if xsi in byname and byname[xsi]['kind'] == 'complex':
                last_x = chain_elems(byname, xsi)[-1]
            else:
                last_x = last
            for nil in ((None, 'true') if light else (None, 'true', 'false', ' 1 ', 'x')):
                for cv0 in contents:
                    if light and cv0[0] not in (0, 6):
                        continue
                    if ctx.quick() and nil is not None and cv0[0] not in (0, 1, 6, 9):
                        continue
                    cv = concrete(cv0, last_x)
                    vkey = (cv[1], tuple(cv[2]))
                    vid = variants.setdefault(vkey, len(variants))
                    el = make_elem(e['name'], xsi, nil, cv, last_x)
                    kinds = kinds_of(list(schema.iter_errors(el, namespaces=NS)))
                    real_valid = not kinds
                    case = {'v': ver, 'schema': s, 'element': e['name'], 'xsi': xsi, 'nil': nil, 'content': list(cv)}
                    if e['abstract']:
                        # abstract element used directly: always invalid (property: abstract rules)
                        if real_valid:
                            ctx.failure('abstract element accepted in an instance', case)
                        ctx.case({'v': ver, 'e': g['elems'][ei], 'xsi': xsi, 'nil': nil, 'cv': cv[0]}, True,
                                 tag=f'{ver}/abstract-element')
                        continue
                    want = spec_element(s, e, xsi, nil, cv)
                    if real_valid != want:
                        fid = known_match(case, {'error_kinds': kinds, 'expected_valid': want})
                        if fid:
                            ctx.known_hit(fid)
                        else:
                            ctx.failure('element %s by the library but %s by the property' % (
                                ('accepted', 'invalid') if real_valid else ('rejected', 'valid')), case,
                                {'error_kinds': kinds})
                    xq: Any = None if xsi is None else (g['names'][xsi] if xsi in g['names'] else 'unknown')
                    queries.append({'op': 'elem', 'e': ei, 'declTy': g['elems'][ei]['ty'], 'xsi': xq,
                                    'nil': nil.strip() if nil is not None else None, 'text': cv[1] is not None,
                                    'children': bool(cv[2]), 'variant': vid * 2 + (1 if e['fixed'] else 0)})
                    pend.append(('elem', case, kinds))
                    ctx.case({'v': ver, 'types': g['types'], 'e': g['elems'][ei], 'xsi': xq, 'nil': nil, 'cv': cv[0]},
                             xsi is not None or nil is not None or e['fixed'] is not None, tag=f'{ver}/element')
                    for k in kinds:
                        ctx.count('err:' + k)
                    if not kinds:
                        ctx.count('valid')
    # ---- substitution pairs
    for h in s['elems']:
        for m in s['elems']:
            if m is h:
                continue
            root = ET.Element('{%s}r_%s' % (T, h['name']))
            kid = ET.SubElement(root, '{%s}%s' % (T, m['name']))
            if byname[m['type']]['kind'] != 'complex':
                kid.text = '5'
            kinds = kinds_of(list(schema.iter_errors(root, namespaces=NS)))
            real = ('blocked' if 'substBlocked' in kinds else
                    'notSubstitute' if 'children' in kinds or 'abstractElement' in kinds else 'accepted')
            case = {'v': ver, 'schema': s, 'head': h['name'], 'member': m['name']}
            want = spec_subst(s, h, m)
            if (real == 'accepted') != (want == 'accepted') and known_match(case, {'real': real, 'want': want}):
                ctx.known_hit('C07-F1')
            elif (real == 'accepted') != (want == 'accepted'):
                ctx.failure('substitution %s by the library but the property says %s' % (real, want), case,
                            {'error_kinds': kinds})
            queries.append({'op': 'subst', 'head': g['eidx'][h['name']], 'm': g['eidx'][m['name']]})
            pend.append(('subst', case, real))
            ctx.case({'v': ver, 'types': g['types'], 'elems': g['elems'], 'h': h['name'], 'm': m['name']}, True,
                     tag=f'{ver}/substitution')
            ctx.count('subst:' + real)
    # ---- a substitute that carries xsi:type (check_dynamic_context + the member's own raw_decode)
    for h in s['elems']:
        for m in s['elems']:
            if m is h or spec_subst(s, h, m) == 'notSubstitute':
                continue
            cands = [t for t in tnames if chain_methods(byname, t, m['type']) is not None]
            others = [t for t in tnames if t not in cands]
            picks = cands
            for xsi in picks + (ctx.rng.sample(others, 1) if others else []) + ['Nope']:
                gk = byname[xsi]['kind'] if xsi in byname else byname[m['type']]['kind']
                text = None if gk == 'complex' else '5'
                root = ET.Element('{%s}r_%s' % (T, h['name']))
                kid = ET.SubElement(root, '{%s}%s' % (T, m['name']), {XSI_TYPE: 't:' + xsi})
                kid.text = text
                kinds = kinds_of(list(schema.iter_errors(root, namespaces=NS)))
                case = {'v': ver, 'schema': s, 'head': h['name'], 'member': m['name'], 'xsi': xsi}
                cv = (0, text, [])
                ms_h = chain_methods(byname, xsi, h['type']) if xsi in byname else None
                head_rule = ms_h is not None and xsi != h['type'] and bool(set(ms_h) & eff_block(s, h))
                want = spec_subst(s, h, m) == 'accepted' and spec_element(s, m, xsi, None, cv)
                if not head_rule and want != (not kinds):
                    # the head's block applied to the xsi type is the library's own extra rule: not judged
                    f1_head = (xsi in byname and byname[xsi]['kind'] == 'sc' and byname[h['type']]['kind'] == 'simple'
                               and kinds == ['headBlocked'] and 'restriction' in eff_block(s, h)
                               and 'extension' not in eff_block(s, h) and ms_h is not None
                               and set(ms_h) == {'extension'} and len(ms_h) >= 2
                               and any(e['id'] == 'C07-F1' and e.get('status') == 'known' for e in load_findings()))
                    if f1_head or known_match({'schema': s, 'element': m['name'], 'xsi': xsi},
                                   {'error_kinds': kinds, 'expected_valid': want}) \
                            or known_match({'schema': s, 'head': h['name'], 'member': m['name']},
                                           {'real': 'blocked' if 'substBlocked' in kinds else 'accepted',
                                            'want': spec_subst(s, h, m)}):
                        ctx.known_hit('C07-F1')
                    else:
                        ctx.failure('substitute with xsi:type %s by the library but %s by the property' % (
                            ('accepted', 'invalid') if not kinds else ('rejected', 'valid')), case,
                            {'error_kinds': kinds})
                vid = variants.setdefault((text, ()), len(variants))
                xq: Any = g['names'][xsi] if xsi in g['names'] else 'unknown'
                queries.append({'op': 'substx', 'head': g['eidx'][h['name']], 'm': g['eidx'][m['name']], 'xsi': xq,
                                'nil': None, 'text': text is not None, 'children': False, 'variant': vid * 2})
                pend.append(('substx', case, kinds))
                ctx.case({'v': ver, 'types': g['types'], 'elems': g['elems'], 'h': h['name'], 'm': m['name'],
                          'xsi': xq}, True, tag=f'{ver}/substitution+xsi')
                for kk in kinds:
                    ctx.count('substx:' + kk)
                if not kinds:
                    ctx.count('substx:accepted')
    # ---- (2) compare with the Lean model
    if drv is not None:
        cok, fok = [], []
        for ti, o in enumerate(objs):
            if not (o.name and o.name.startswith('{%s}' % T)) or o.local_name not in byname:
                continue
            for (text, kids), vid in variants.items():
                cv = (vid, text, list(kids))
                for fx in (0, 1):
                    fixed = '5' if fx else None
                    if content_ok(byname, o.local_name, cv, fixed):
                        cok.append([ti, vid * 2 + fx])
                    if fixed_ok(byname, o.local_name, cv, fixed):
                        fok.append([ti, vid * 2 + fx])
        ans = drv.query([{'types': g['types'], 'elems': g['elems'], 'contentOk': cok, 'fixedOk': fok,
                          'quirks': active_quirks(), 'queries': queries}])[0]
        if 'err' in ans:
            ctx.mismatch('driver error', case0, None, ans)
            return
        for (op, case, real), m in zip(pend, ans['res']):
            ctx.traces += 1
            if op in ('derived', 'blocked'):
                if m['r'] is None:
                    ctx.count('fuel')
                    ctx.mismatch(op + ' (model undecided)', case, real, m)
                elif m['r'] != real:
                    ctx.mismatch('is_' + op, case, real, m['r'])
            elif op == 'elem':
                mk = sorted(set(m['errs']))
                if mk != [k for k in real if k != 'children'] + (['content'] if 'children' in real and 'content' not in real else []) \
                        and sorted(set(mk)) != sorted({('content' if k == 'children' else k) for k in real}):
                    ctx.mismatch('element checks', case, real, mk)
            elif op == 'substx':
                if m['errs'] is None:
                    if 'children' not in real and 'abstractElement' not in real:
                        ctx.mismatch('substitute with xsi:type (model: not a substitute)', case, real, None)
                elif sorted(set(m['errs'])) != sorted({('content' if k == 'children' else k) for k in real}):
                    ctx.mismatch('substitute with xsi:type', case, real, sorted(set(m['errs'])))
            elif op == 'subst':
                ebn = {e['name']: e for e in s['elems']}
                exact = not ebn[case['member']]['abstract'] and not ebn[case['head']]['abstract']
                # with an abstract head or member several rejection reasons apply at once and the library
                # reports whichever it meets first: only accepted/rejected is compared there
                if (m['v'] == 'accepted') != (real == 'accepted') or (exact and m['v'] != real):
                    ctx.mismatch('substitution verdict', case, real, m['v'])



# ---------------------------------------------------------------- simple kinds: builtins, lists, unions, ur-types
XS = '{%s}' % XSD
# name -> (base, method) by the XSD reading (primitive types derive from xs:anySimpleType by restriction,
# root complex types from xs:anyType by restriction; list and union types from xs:anySimpleType)
K_BASE = {
    'xs:anyType': (None, None), 'xs:anySimpleType': ('xs:anyType', 'restriction'),
    'xs:decimal': ('xs:anySimpleType', 'restriction'), 'xs:integer': ('xs:decimal', 'restriction'),
    'xs:long': ('xs:integer', 'restriction'), 'xs:int': ('xs:long', 'restriction'),
    'xs:short': ('xs:int', 'restriction'), 'xs:boolean': ('xs:anySimpleType', 'restriction'),
    'S0': ('xs:int', 'restriction'), 'S1': ('S0', 'restriction'), 'B0': ('xs:boolean', 'restriction'),
    'L0': ('xs:anySimpleType', 'restriction'), 'L1': ('L0', 'restriction'),
    'U0': ('xs:anySimpleType', 'restriction'), 'U1': ('U0', 'restriction'), 'U2': ('U1', 'restriction'),
    'UU': ('xs:anySimpleType', 'restriction'),
    'SC0': ('S0', 'extension'), 'SC1': ('SC0', 'extension'), 'SCU': ('U0', 'extension'),
    'SCR': ('SC1', 'restriction'), 'SCX': ('SCR', 'extension'),
    'C0': ('xs:anyType', 'restriction'), 'C1': ('C0', 'extension'), 'C2': ('C1', 'restriction'),
}
K_COMPLEX = {'xs:anyType', 'SC0', 'SC1', 'SCU', 'SCR', 'SCX', 'C0', 'C1', 'C2'}
K_NODERIV = {'xs:decimal', 'xs:integer', 'xs:long', 'xs:int', 'xs:short', 'xs:boolean', 'L0', 'U0', 'UU',
             'xs:anySimpleType'}          # library: `derivation` is None


def gen_kinds(rng) -> dict:
    u0 = rng.choice([['S0', 'B0'], ['S1', 'B0'], ['xs:int', 'B0'], ['B0', 'S0']])
    uu = rng.choice([['U0', 'L0'], ['L0', 'U0'], ['U0', 'L1']])
    decl = ['xs:anyType', 'xs:anySimpleType', 'xs:integer', 'xs:int', 'S0', 'L0', 'U0', 'U1', 'UU', 'SC0', 'C0']
    elems = []
    for i, ty in enumerate(decl):
        for b in rng.sample(['', 'extension', 'restriction', '#all'], 2):
            elems.append({'name': 'k%d%s' % (i, {'': 'n', '#all': 'a'}.get(b, b[:1])), 'type': ty, 'block': b})
    return {'kinds': True, 'members': {'U0': u0, 'UU': uu}, 'item': {'L0': 'S0'}, 'elems': elems,
            'tblock': {n: rng.choice(BLOCKS_T) for n in ('SC0', 'SC1', 'C0', 'C1', 'C2')}}


def kinds_xsd(k: dict) -> str:
    def q(n: str) -> str:
        return n if n.startswith('xs:') else 't:' + n

    def blk(n: str) -> str:
        b = k['tblock'].get(n)
        return '' if b is None else ' block="%s"' % b
    out = [f'<xs:schema xmlns:xs="{XSD}" targetNamespace="{T}" xmlns:t="{T}" elementFormDefault="qualified">',
           '<xs:simpleType name="S0"><xs:restriction base="xs:int"><xs:maxInclusive value="100"/></xs:restriction></xs:simpleType>',
           '<xs:simpleType name="S1"><xs:restriction base="t:S0"><xs:maxInclusive value="50"/></xs:restriction></xs:simpleType>',
           '<xs:simpleType name="B0"><xs:restriction base="xs:boolean"/></xs:simpleType>',
           '<xs:simpleType name="L0"><xs:list itemType="t:S0"/></xs:simpleType>',
           '<xs:simpleType name="L1"><xs:restriction base="t:L0"><xs:maxLength value="2"/></xs:restriction></xs:simpleType>',
           '<xs:simpleType name="U0"><xs:union memberTypes="%s"/></xs:simpleType>' % ' '.join(map(q, k['members']['U0'])),
           '<xs:simpleType name="U1"><xs:restriction base="t:U0"><xs:enumeration value="5"/><xs:enumeration value="true"/></xs:restriction></xs:simpleType>',
           '<xs:simpleType name="U2"><xs:restriction base="t:U1"><xs:enumeration value="5"/></xs:restriction></xs:simpleType>',
           '<xs:simpleType name="UU"><xs:union memberTypes="%s"/></xs:simpleType>' % ' '.join(map(q, k['members']['UU']))]
    for n, a in (('SC0', 'kSC0'), ('SC1', 'kSC1'), ('SCU', 'kSCU'), ('SCX', 'kSCX')):
        out.append(f'<xs:complexType name="{n}"{blk(n)}><xs:simpleContent><xs:extension base="{q(K_BASE[n][0])}">'
                   f'<xs:attribute name="{a}"/></xs:extension></xs:simpleContent></xs:complexType>')
        if n == 'SC1':
            out.append('<xs:complexType name="SCR"><xs:simpleContent><xs:restriction base="t:SC1"><xs:maxInclusive '
                       'value="60"/></xs:restriction></xs:simpleContent></xs:complexType>')
    out.append(f'<xs:complexType name="C0"{blk("C0")}><xs:sequence><xs:element name="x" type="xs:int" minOccurs="0"/>'
               '</xs:sequence></xs:complexType>')
    out.append(f'<xs:complexType name="C1"{blk("C1")}><xs:complexContent><xs:extension base="t:C0"><xs:sequence>'
               '<xs:element name="y" type="xs:int" minOccurs="0"/></xs:sequence></xs:extension></xs:complexContent>'
               '</xs:complexType>')
    out.append(f'<xs:complexType name="C2"{blk("C2")}><xs:complexContent><xs:restriction base="t:C1"><xs:sequence>'
               '<xs:element name="x" type="xs:int" minOccurs="0"/></xs:sequence></xs:restriction></xs:complexContent>'
               '</xs:complexType>')
    for e in k['elems']:
        out.append(f'<xs:element name="{e["name"]}" type="{q(e["type"])}" block="{e["block"]}"/>')
    out.append('</xs:schema>')
    return '\n'.join(out)


def k_paths(k: dict, t: str, u: str, seen: tuple = ()) -> list[tuple[list[str], bool]]:
    """all derivation paths from t to u by the XSD reading: (methods of the base-type steps, uses a union
    member step?).  A (facet-less, unrestricted) union admits what is derived from a member type."""
    out: list[tuple[list[str], bool]] = []
    ms: list[str] = []
    cur: Optional[str] = t
    while cur is not None:
        if cur == u:
            out.append((list(ms), False))
            break
        b, m = K_BASE[cur]
        if b is not None:
            ms.append(m)
        cur = b
    if u in k['members'] and u not in seen:
        for m in k['members'][u]:
            for pm, _ in k_paths(k, t, m, seen + (u,)):
                out.append((pm, True))
    return out


def k_block(k: dict, e: dict) -> set:
    b = set(METHS) if e['block'] == '#all' else set(e['block'].split())
    tb = k['tblock'].get(e['type'])
    if tb:
        b |= set(METHS) if tb == '#all' else set(tb.split()) & set(METHS)
    return b & set(METHS)


def kinds_known(k: dict, what: str, t: str, u: str, d: Optional[str], real: bool, blk: Optional[set] = None) -> Optional[str]:
    """exact matchers of C07-F1..F5 on the kinds family (see notes/findings/C07.json)"""
    st = {e['id']: e.get('status') for e in load_findings()}

    def on(fid: str) -> Optional[str]:
        return fid if st.get(fid) == 'known' else None

    def chain(x: str) -> list[str]:
        out = [x]
        while K_BASE[out[-1]][0] is not None:
            out.append(K_BASE[out[-1]][0])
        return out
    lists = [x for x in chain(t) if x in k['item']]
    if what == 'derived' and d is None:
        if real and lists and k['item'][lists[0]] == u:
            return on('C07-F2')                       # list "derived" from its item type
        if real and lists and not k_paths(k, t, u) and k_paths(k, k['item'][lists[0]], u):
            return on('C07-F2')                       # ... and so from what the item type derives from
        if not real and u in k['members']:
            # union target: the walk up the base types is cut, list receivers have no union branch
            if lists or any(x in ('U1', 'U2', 'L1') or x in k['members'] for x in chain(t)[1:]) or t in ('L0', 'L1'):
                return on('C07-F3')
        return None
    if what == 'blocked' and blk is not None:
        paths = k_paths(k, t, u)
        if real and t == u == 'xs:anyType' and 'restriction' in blk:
            return on('C07-F6')                       # two xs:anyType objects: the identity shortcut fails
        if real and 'extension' in blk and 'restriction' not in blk and t not in K_COMPLEX \
                and any(x in K_NODERIV for x in chain(t)):
            return on('C07-F4')                       # simple type reported as derived by extension
        if real and 'restriction' in blk and 'extension' not in blk and t in ('SC1', 'SCX', 'SCR') \
                and paths and all('restriction' not in pm for pm, _ in paths):
            return on('C07-F1')
        if real and 'restriction' in blk and 'extension' not in blk and t in ('SC1', 'SCX') \
                and any(x in K_COMPLEX and k_paths(k, 'S0', u) is not None for x in chain(t)):
            return on('C07-F1') if u in ('S0',) or ('S0' in [m for mm in k['members'].values() for m in mm]) else None
        if not real and u == 'xs:anyType' and 'extension' in blk and 'restriction' not in blk and t in K_COMPLEX:
            return on('C07-F5')                       # pending 'extension' answered at xs:anyType
    return None


def run_kinds(ctx: Ctx, drv: Optional[Driver], k: dict, v11: bool) -> None:
    import xmlschema
    ver = '1.1' if v11 else '1.0'
    xsd = kinds_xsd(k)
    case0 = {'v': ver, 'kinds': k}
    try:
        schema = (xmlschema.XMLSchema11 if v11 else xmlschema.XMLSchema10)(xsd)
    except xmlschema.XMLSchemaException as ex:
        ctx.failure('generated schema refused by the library', case0, {'message': str(ex)[:400], 'xsd': xsd})
        return
    names = sorted(K_BASE)

    def obj(n: str) -> Any:
        return schema.maps.types[(XS + n[3:]) if n.startswith('xs:') else '{%s}%s' % (T, n)]
    g = introspect(schema, [obj(n) for n in names])
    ctx.count(f'{ver}/kinds-schemas')
    ix = {n: g['idx'][id(obj(n))] for n in names}
    queries: list = []
    pend: list = []
    # ---- is_derived on all named pairs (plain: against the XSD reading; with a method: model only)
    for t in names:
        for u in names:
            for d in (None, 'extension', 'restriction'):
                real = bool(obj(t).is_derived(obj(u), d))
                case = {'v': ver, 'kinds': k, 't': t, 'u': u, 'd': d}
                queries.append({'op': 'derived', 't': ix[t], 'u': ix[u], 'd': d})
                pend.append(('derived', case, real))
                if d is None:
                    want = t == u or u == 'xs:anyType' or bool(k_paths(k, t, u))
                    ctx.case({'v': ver, 'k': k['members'], 't': t, 'u': u}, t != u, tag=f'{ver}/kinds-derived')
                    if real != want:
                        fid = kinds_known(k, 'derived', t, u, None, real)
                        if fid:
                            ctx.known_hit(fid)
                        else:
                            ctx.failure('is_derived differs from the derivation relation of the declared types '
                                        '(base types, union members)', case, {'is_derived': real, 'expected': want})
            # get_instance_type
            try:
                schema.maps.get_instance_type(('xs:' + t[3:]) if t.startswith('xs:') else 't:' + t, obj(u),
                                              {'xs': XSD, 't': T})
                real_i = True
            except (KeyError, TypeError):
                real_i = False
            queries.append({'op': 'inst', 't': ix[t], 'u': ix[u]})
            pend.append(('inst', {'v': ver, 'kinds': k, 't': t, 'u': u, 'op': 'inst'}, real_i))
    # ---- instances: every named type as xsi:type of every element
    eidx = g['eidx']
    for e in k['elems']:
        u = e['type']
        blk = k_block(k, e)
        for t in names:
            el = ET.Element('{%s}%s' % (T, e['name']), {XSI_TYPE: t if t.startswith('xs:') else 't:' + t})
            el.text = '5'
            kinds = [x for x in kinds_of(list(schema.iter_errors(el, namespaces={'t': T, 'xs': XSD, 'xsi': XSI})))
                     if x in ('unknownType', 'notDerived', 'blocked', 'abstractType')]
            case = {'v': ver, 'kinds': k, 'element': e['name'], 'xsi': t}
            ctx.case({'v': ver, 'k': k['members'], 'e': e, 'xsi': t}, True, tag=f'{ver}/kinds-xsi')
            queries.append({'op': 'elem', 'e': eidx[e['name']], 'declTy': ix[u], 'xsi': ix[t], 'nil': None,
                            'text': True, 'children': False, 'variant': 0})
            pend.append(('kelem', case, kinds))
            real_b = bool(obj(t).is_blocked(schema.elements[e['name']]))
            queries.append({'op': 'blocked', 't': ix[t], 'e': eidx[e['name']]})
            pend.append(('blocked', {'v': ver, 'kinds': k, 't': t, 'e': e['name']}, real_b))
            # independent reading: derived, and no base-type step of a path uses a blocked method
            paths = [([], False)] if t == u else k_paths(k, t, u)
            if u == 'xs:anyType' and not paths:
                paths = k_paths(k, t, 'xs:anyType')
            if not paths:
                want_ok: Optional[bool] = False
            elif t == u:
                want_ok = True
            elif any(j for _, j in paths) and blk:
                want_ok = None        # member step under a block: the property does not say; not judged
            else:
                want_ok = any(not (set(pm) & blk) for pm, _ in paths)
            if want_ok is not None and want_ok != (not [x for x in kinds if x != 'abstractType']):
                fid = None
                if 'blocked' in kinds or (want_ok is False and not kinds):
                    fid = kinds_known(k, 'blocked', t, u, None, 'blocked' in kinds, blk)
                if fid is None and ('notDerived' in kinds) != (not paths):
                    fid = kinds_known(k, 'derived', t, u, None, 'notDerived' not in kinds)
                if fid:
                    ctx.known_hit(fid)
                else:
                    ctx.failure('xsi:type %s by the library but %s by the derivation/block rules' % (
                        ('accepted', 'not acceptable') if not kinds else ('rejected', 'acceptable')), case,
                        {'error_kinds': kinds, 'paths': paths, 'block': sorted(blk)})
            for x in kinds:
                ctx.count('kinds-err:' + x)
    if drv is not None:
        allv = [[i, 0] for i in range(len(g['types']))]
        ans = drv.query([{'types': g['types'], 'elems': g['elems'], 'contentOk': allv, 'fixedOk': allv,
                          'quirks': active_quirks(), 'queries': queries}])[0]
        if 'err' in ans:
            ctx.mismatch('driver error', case0, None, ans)
            return
        for (op, case, real), m in zip(pend, ans['res']):
            ctx.traces += 1
            if op in ('derived', 'blocked', 'inst'):
                if m['r'] is None:
                    ctx.mismatch(op + ' (model undecided)', case, real, m)
                elif m['r'] != real:
                    ctx.mismatch(op, case, real, m['r'])
                elif m['rr'] != m['r']:
                    ctx.count('kinds-pinned-differs-from-repaired:' + op)
            else:
                mk = sorted({x for x in m['errs'] if x in ('unknownType', 'notDerived', 'blocked', 'abstractType')})
                if mk != sorted(real):
                    ctx.mismatch('xsi:type checks (kinds family)', case, real, mk)


# ---------------------------------------------------------------- XSD 1.1 type alternatives (fixed family)
ALT_TABLES = [
    [("@k='a'", 'A1'), ("@k='b' or @j", 'A2'), (None, 'A3')],
    [("@j", 'A2'), ("@k='a'", 'A1')],
    [("@k='a' and @j", 'A3'), ("@k", 'A1'), ("@j", 'A2')],
    [("@k", 'A3'), (None, 'A1')],
]


def eval_test(test: Optional[str], k: Optional[str], j: bool) -> bool:
    if test is None:
        return True
    env = {"@k='a'": k == 'a', "@k='b'": k == 'b', '@k': k is not None, '@j': j}
    toks = re.split(r'\s+(and|or)\s+', test)
    val = env[toks[0]]
    for op, t in zip(toks[1::2], toks[2::2]):
        val = (val and env[t]) if op == 'and' else (val or env[t])
    return val


def run_alternatives(ctx: Ctx, drv: Optional[Driver]) -> None:
    import xmlschema
    types = ['A0', 'A1', 'A2', 'A3']
    queries, pend = [], []
    for ti, table in enumerate(ALT_TABLES):
        alts = ''.join(f'<xs:alternative {"test=" + chr(34) + t + chr(34) + " " if t else ""}type="t:{ty}"/>'
                       for t, ty in table)
        body = ''.join(
            f'<xs:complexType name="{n}"><xs:complexContent><xs:extension base="t:A0"><xs:sequence>'
            f'<xs:element name="p{n}" type="xs:int"/></xs:sequence></xs:extension></xs:complexContent></xs:complexType>'
            for n in types[1:])
        xsd = (f'<xs:schema xmlns:xs="{XSD}" targetNamespace="{T}" xmlns:t="{T}" elementFormDefault="qualified">'
               f'<xs:complexType name="A0"><xs:sequence/><xs:attribute name="k"/><xs:attribute name="j"/>'
               f'</xs:complexType>{body}<xs:element name="e" type="t:A0">{alts}</xs:element></xs:schema>')
        schema = xmlschema.XMLSchema11(xsd)
        for k in (None, 'a', 'b', 'c'):
            for j in (False, True):
                results = [(t is not None, eval_test(t, k, j) if t is not None else False, types.index(ty))
                           for t, ty in table]
                want_ty = next((ty for t, ty in table if eval_test(t, k, j)), 'A0')
                for child in (None, 'A1', 'A2', 'A3'):
                    attrib = {}
                    if k is not None:
                        attrib['k'] = k
                    if j:
                        attrib['j'] = '1'
                    el = ET.Element('{%s}e' % T, attrib)
                    if child:
                        ET.SubElement(el, '{%s}p%s' % (T, child)).text = '1'
                    real = schema.is_valid(el, namespaces=NS)
                    want = (child is None and want_ty == 'A0') or child == want_ty
                    case = {'v': '1.1', 'alternatives': table, 'k': k, 'j': j, 'child': child}
                    if real != want:
                        ctx.failure('governing type is not the first alternative whose test holds', case,
                                    {'valid': real, 'first_matching': want_ty})
                    ctx.case(case, True, tag='1.1/alternatives')
                    queries.append({'op': 'alt', 'alts': [list(r) for r in results], 'dflt': 0})
                    pend.append((case, real, child))
    if drv is not None:
        ans = drv.query([{'types': [], 'elems': [], 'contentOk': [], 'fixedOk': [], 'queries': queries}])[0]
        for (case, real, child), m in zip(pend, ans['res']):
            ctx.traces += 1
            sel = types[m['ty']]
            model_valid = (child is None and sel == 'A0') or child == sel
            if model_valid != real:
                ctx.mismatch('type alternative selection', case, real, sel)



# ---------------------------------------------------------------- XSD 1.1 type alternatives: generated tests
def gen_test(rng, depth: int = 0) -> list:
    r = rng.random()
    if depth >= 2 or r < 0.45:
        a = rng.choice(['k', 'j'])
        c = rng.random()
        if c < 0.4:
            return ['eq', a, rng.choice(['a', 'b'])]
        if c < 0.75:
            return ['ne', a, rng.choice(['a', 'b'])]
        return ['has', a]
    if r < 0.6:
        return ['not', gen_test(rng, depth + 1)]
    return [rng.choice(['and', 'or']), gen_test(rng, depth + 1), gen_test(rng, depth + 1)]


def render_test(t: list) -> str:
    op = t[0]
    if op == 'eq':
        return "@%s = '%s'" % (t[1], t[2])
    if op == 'ne':
        return "@%s != '%s'" % (t[1], t[2])
    if op == 'has':
        return '@' + t[1]
    if op == 'not':
        return 'not(%s)' % render_test(t[1])
    return '(%s %s %s)' % (render_test(t[1]), op, render_test(t[2]))


def py_test(t: list, attrs: dict) -> bool:
    """independent reading of the XPath subset: a comparison with a missing attribute is false"""
    op = t[0]
    if op == 'eq':
        return t[1] in attrs and attrs[t[1]] == t[2]
    if op == 'ne':
        return t[1] in attrs and attrs[t[1]] != t[2]
    if op == 'has':
        return t[1] in attrs
    if op == 'not':
        return not py_test(t[1], attrs)
    if op == 'and':
        return py_test(t[1], attrs) and py_test(t[2], attrs)
    return py_test(t[1], attrs) or py_test(t[2], attrs)


ALT_POOL = ['A0', 'A1', 'A2', 'A3', 'B0', 'error', 'anyType']      # indices = type ids in the model queries
ALT_CONTENTS = [None, 'pA1', 'pA2', 'pA3', 'q']


def alt_valid_for(ty: str, child: Optional[str]) -> bool:
    """validity of the content variant for the governing type (independent reading of the fixed types)"""
    if ty == 'error':
        return False
    if ty == 'anyType':
        return True
    if ty == 'A0':
        return child is None
    if ty == 'B0':
        return child == 'q'
    return child == 'p' + ty


def gen_alt_table(rng, pool: list[str], declared: str) -> list:
    """alternatives whose target is drawn from the whole pool (declared type, derived types, xs:error, for an
    xs:anyType element also an unrelated type) AT EVERY POSITION, with overlapping tests (broad tests, repeated
    tests) and an optional default alternative"""
    n = rng.randint(2, 5)
    table = []
    prev = None
    for i in range(n):
        r = rng.random()
        if prev is not None and r < 0.2:
            t = prev                                   # the same test again: shadowed by first match
        elif r < 0.45:
            t = rng.choice([['has', 'k'], ['has', 'j'], ['not', ['eq', 'k', 'c']], ['or', ['has', 'k'], ['has', 'j']],
                            ['not', ['has', 'j']]])     # broad tests: several alternatives hold at once
        else:
            t = gen_test(rng)
        prev = t
        ty = declared if rng.random() < 0.3 else rng.choice(pool)
        table.append([t, ty])
    if rng.random() < 0.5:
        table.append([None, declared if rng.random() < 0.3 else rng.choice(pool)])
    return table


def run_alt_tests(ctx: Ctx, drv: Optional[Driver], n_tables: int, tables: Optional[list] = None) -> None:
    """XSD 1.1 type alternatives end to end: selected type AND validity of every content variant, own and
    inherited attributes, against the model's first-match selection and an independent reading"""
    import xmlschema
    queries, pend = [], []
    body = ''.join(
        f'<xs:complexType name="{n}"><xs:complexContent><xs:extension base="t:A0"><xs:sequence>'
        f'<xs:element name="p{n}" type="xs:int"/></xs:sequence></xs:extension></xs:complexContent></xs:complexType>'
        for n in ('A1', 'A2', 'A3'))

    def tq(ty: str) -> str:
        return 'xs:' + ty if ty in ('error', 'anyType') else 't:' + ty

    def alts_xml(table: list) -> str:
        return ''.join('<xs:alternative %stype="%s"/>' % (
            ('test="%s" ' % render_test(t)) if t is not None else '', tq(ty)) for t, ty in table)
    if tables is None:
        tables = [(gen_alt_table(ctx.rng, ['A0', 'A1', 'A2', 'A3', 'error'], 'A0'),
                   # declared xs:anyType: any type is legal, B0 is unrelated to the others
                   gen_alt_table(ctx.rng, ['A0', 'A1', 'B0', 'error'], 'B0')) for _ in range(n_tables)]
    for table_e, table_f in tables:
        xsd = (f'<xs:schema xmlns:xs="{XSD}" targetNamespace="{T}" xmlns:t="{T}" elementFormDefault="qualified">'
               f'<xs:complexType name="A0"><xs:sequence/><xs:attribute name="k"/><xs:attribute name="j"/>'
               f'</xs:complexType>{body}'
               f'<xs:complexType name="B0"><xs:sequence><xs:element name="q" type="xs:int"/></xs:sequence>'
               f'<xs:attribute name="k"/><xs:attribute name="j"/></xs:complexType>'
               f'<xs:element name="e" type="t:A0">{alts_xml(table_e)}</xs:element>'
               f'<xs:element name="f" type="xs:anyType">{alts_xml(table_f)}</xs:element>'
               f'<xs:element name="r"><xs:complexType><xs:sequence><xs:element ref="t:e" minOccurs="0"/>'
               f'<xs:element ref="t:f" minOccurs="0"/></xs:sequence><xs:attribute name="k" inheritable="true"/>'
               f'</xs:complexType></xs:element></xs:schema>')
        try:
            schema = xmlschema.XMLSchema11(xsd)
        except xmlschema.XMLSchemaException as ex:
            ctx.failure('generated alternative table refused by the library',
                        {'v': '1.1', 'alt_tests': table_e, 'alt_tests_f': table_f}, {'message': str(ex)[:300]})
            continue
        for ename, declared, table in (('e', 'A0', table_e), ('f', 'anyType', table_f)):
            xe = schema.elements[ename]
            if any(ty == declared for _, ty in table[:-1]):
                ctx.count('alt-table:declared-type-in-non-last-position')
            for inh in (None, 'a', 'b'):
                for kv in (None, 'a', 'b', 'c'):
                    for jv in (None, 'a', 'b'):
                        own = {a: v for a, v in (('k', kv), ('j', jv)) if v is not None}
                        merged = dict({'k': inh} if inh else {}, **own)
                        # independent reading: first alternative that holds; with inherited attributes the
                        # instance is judged only while own and inherited views agree on every test met
                        want_ty, judged, nhold = declared, True, 0
                        for t, ty in table:
                            ho = t is None or py_test(t, own)
                            hm = t is None or py_test(t, merged)
                            if ho != hm:
                                judged = False
                                break
                            if ho:
                                want_ty = ty
                                break
                        nhold = sum(1 for t, _ in table if t is None or py_test(t, merged))
                        if nhold > 1:
                            ctx.count('alt-instance:several-alternatives-hold')
                        el = ET.Element('{%s}%s' % (T, ename), dict(own))
                        real_ty = xe.get_alternative_type(el, {'k': inh} if inh else None).local_name
                        case = {'v': '1.1', 'alt_tests': table, 'element': ename, 'declared': declared, 'attrs': own,
                                'inherited': {'k': inh} if inh else {}}
                        valid = {}
                        for child in ALT_CONTENTS:
                            root = ET.Element('{%s}r' % T, {'k': inh} if inh else {})
                            kid = ET.SubElement(root, '{%s}%s' % (T, ename), dict(own))
                            if child:
                                ET.SubElement(kid, '{%s}%s' % (T, child)).text = '1'
                            valid[child or ''] = schema.is_valid(root, namespaces=NS)
                        if judged:
                            wantv = {c or '': alt_valid_for(want_ty, c) for c in ALT_CONTENTS}
                            if real_ty != want_ty or valid != wantv:
                                ctx.failure('governing type is not that of the first alternative whose test holds '
                                            '(selected type / validity of the content variants)', case,
                                            {'selected': real_ty, 'first_matching': want_ty, 'valid': valid,
                                             'expected_valid': wantv,
                                             'tests': [render_test(t) if t else None for t, _ in table]})
                        else:
                            ctx.count('alt-instance:not-judged(own/inherited views differ)')
                        ctx.case(case, True, tag='1.1/alternative-tests')
                        ctx.count('alt-selected:' + ('declared' if real_ty == declared else real_ty))
                        queries.append({'op': 'altT', 'attrs': [[a, v] for a, v in own.items()],
                                        'inh': [['k', inh]] if inh else [],
                                        'alts': [[t, ALT_POOL.index(ty)] for t, ty in table],
                                        'dflt': ALT_POOL.index(declared)})
                        pend.append((case, real_ty, valid))
    if drv is not None and queries:
        ans = drv.query([{'types': [], 'elems': [], 'contentOk': [], 'fixedOk': [], 'queries': queries}])[0]
        if 'err' in ans:
            ctx.mismatch('driver error', {'alt_tests': True}, None, ans)
            return
        for (case, real_ty, valid), m in zip(pend, ans['res']):
            ctx.traces += 1
            sel = ALT_POOL[m['ty']]
            if sel != real_ty:
                ctx.mismatch('type alternative selection (evaluated tests)', case, real_ty, sel)
            elif valid != {c or '': alt_valid_for(sel, c) for c in ALT_CONTENTS}:
                ctx.mismatch('validity for the type selected by the model', case, valid, sel)


# ---------------------------------------------------------------- entry points
QUIRK_IDS = ['C07-F1', 'C07-F2', 'C07-F3', 'C07-F4', 'C07-F5']


def active_quirks() -> list[str]:
    """behaviours of the pinned code the Lean model has to reproduce: the findings still `known`"""
    st = {e['id']: e.get('status') for e in load_findings()}
    return [q for q in QUIRK_IDS if st.get(q) == 'known']


def load_findings() -> list[dict]:
    """notes/findings/C07.json; C07_ASSUME_FIXED="C07-F1,C07-F3" treats these ids as fixed (to try the check
    against a tree with notes/fixes/C07-is-derived.patch applied before the entries are flipped)"""
    import os
    try:
        out = json.loads((VERIF / 'notes' / 'findings' / 'C07.json').read_text())['findings']
    except (OSError, ValueError, KeyError):
        return []
    assume = set(filter(None, os.environ.get('C07_ASSUME_FIXED', '').split(',')))
    return [dict(e, status='fixed') if e['id'] in assume else e for e in out]


def known_match(case: dict, detail: Any) -> Optional[str]:
    """C07-F1 (see notes/findings/C07.json): exact rule, evaluated on the generator's AST."""
    if not any(e['id'] == 'C07-F1' and e.get('status') == 'known' for e in load_findings()):
        return None
    s = case.get('schema')
    if not s:
        return None
    byname = {t['name']: t for t in s['types']}
    if 't' in case and 'u' in case:         # unit level
        t, u = byname.get(case['t']), byname.get(case['u'])
        if t and u and t['kind'] == 'sc' and u['kind'] == 'simple' and case.get('d') == 'restriction' \
                and detail.get('is_derived') is True:
            ms = chain_methods(byname, case['t'], case['u'])
            if ms is not None and 'restriction' not in ms:
                return 'C07-F1'
        return None
    if 'head' in case and 'member' in case:          # substitution: same wrong is_blocked answer
        ebyname = {e['name']: e for e in s['elems']}
        h, m = ebyname[case['head']], ebyname[case['member']]
        x, d = byname[m['type']], byname[h['type']]
        blk = eff_block(s, h)
        if x['kind'] == 'sc' and d['kind'] == 'simple' and 'restriction' in blk and 'extension' not in blk \
                and 'substitution' not in blk and detail.get('real') == 'blocked' and detail.get('want') == 'accepted':
            ms = chain_methods(byname, m['type'], h['type'])
            if ms is not None and set(ms) == {'extension'} and len(ms) >= 2:
                return 'C07-F1'
        return None
    if 'element' in case and case.get('xsi') in byname:
        e = next(x for x in s['elems'] if x['name'] == case['element'])
        x, d = byname[case['xsi']], byname[e['type']]
        blk = eff_block(s, e)
        if x['kind'] == 'sc' and d['kind'] == 'simple' and 'restriction' in blk and 'extension' not in blk \
                and detail.get('error_kinds') == ['blocked'] and detail.get('expected_valid') is True:
            ms = chain_methods(byname, case['xsi'], e['type'])
            if ms is not None and set(ms) == {'extension'} and len(ms) >= 2:
                return 'C07-F1'
    return None

# ---------------------------------------------------------------- block declared on the head's TYPE only
TB_HEAD = [(None, ''), (None, 'substitution'), ('', ''), ('', 'extension'), ('', 'restriction'), ('', '#all'),
           ('', 'extension substitution'), ('substitution', '#all'), ('extension', ''), ('restriction', '')]
TB_TYPE = [None, '', 'extension', 'restriction', '#all']


def gen_typeblock(hb: Optional[str], bd: str, tb: Optional[str], rng) -> dict:
    """substitution inside a content model where the head element's own effective block is empty (absent with an
    empty blockDefault, or block='' overriding blockDefault) and the block comes from the head's TYPE (its own
    `block` or blockDefault): members derived by extension, restriction, two mixed steps, same type, second
    level members, complex and simple-content heads"""
    def ct(name: str, base: Optional[str], meth: Optional[str], block: Optional[str], kind: str = 'complex') -> dict:
        return {'name': name, 'kind': kind, 'base': base, 'meth': meth, 'abstract': False, 'block': block,
                'final': None}
    ob = rng.choice(TB_TYPE)      # blocks of the derived (member) types must not matter
    types = [ct('C0', None, None, tb), ct('C1', 'C0', 'extension', ob), ct('C2', 'C0', 'restriction', ob),
             ct('C3', 'C1', 'restriction', rng.choice(TB_TYPE)), ct('C4', 'C2', 'extension', rng.choice(TB_TYPE)),
             {'name': 'S0', 'kind': 'simple', 'base': 'xs:int', 'meth': 'restriction', 'max': 100, 'abstract': False,
              'block': None, 'final': None},
             ct('SC0', 'S0', 'extension', tb, 'sc'), ct('SC1', 'SC0', 'extension', ob, 'sc')]

    def el(name: str, ty: str, block: Optional[str], subst: Optional[str]) -> dict:
        return {'name': name, 'type': ty, 'block': block, 'abstract': False, 'nillable': False, 'fixed': None,
                'subst': subst, 'final': ''}
    mb = rng.choice(BLOCKS_E)     # the member's own block must not matter for head -> member
    elems = [el('e0', 'C0', hb, None), el('e1', 'SC0', hb, None),
             el('m0', 'C1', mb, 'e0'), el('m1', 'C2', mb, 'e0'), el('m2', 'C0', mb, 'e0'),
             el('m3', 'C3', rng.choice(['', None]), 'm0'), el('m4', 'C4', rng.choice(['', None]), 'm1'),
             el('m5', 'SC1', mb, 'e1'), el('m6', 'SC0', mb, 'e1')]
    return {'types': types, 'elems': elems, 'blockDefault': bd, 'finalDefault': ''}


def run_typeblock(ctx: Ctx, drv: Optional[Driver]) -> None:
    for v11 in (False, True):
        for hb, bd in TB_HEAD:
            for tb in TB_TYPE:
                ctx.count('typeblock-schemas')
                run_schema(ctx, drv, gen_typeblock(hb, bd, tb, ctx.rng), v11, light=True)


def explore(ctx: Ctx, drv: Optional[Driver], n: int) -> None:
    cdir = VERIF / 'corpus' / 'C07'
    for p in sorted(cdir.glob('*.json')) if cdir.exists() else []:
        obj = json.loads(p.read_text())
        run_schema(ctx, drv, obj['schema'], obj['v'] == '1.1')
    for v11 in (False, True):
        for _ in range(n):
            run_schema(ctx, drv, gen_schema(ctx.rng), v11)
        for _ in range(max(3, n // 4)):
            run_kinds(ctx, drv, gen_kinds(ctx.rng), v11)
    run_typeblock(ctx, drv)
    run_alternatives(ctx, drv)
    run_alt_tests(ctx, drv, max(40, 4 * n))


def run(ctx: Ctx, driver_ok: bool) -> None:
    for e in load_findings():
        ctx.known.append(e)
    explore(ctx, Driver('drv_c07') if driver_ok else None, ctx.pick(20, 150))
    ctx.extra['exhaustive'] = False
    ctx.extra['explanation'] = ('schemas are seeded random; per schema: all type pairs x derivation argument, all '
                                'type x element pairs, every type name as xsi:type x nil variants x content '
                                'variants for every element, every (head, member) pair')


def search(ctx: Ctx) -> None:
    if ctx.quick():
        explore(ctx, None, 25)


def replay(ctx: Ctx, obj: dict) -> int:
    print(json.dumps({k: v for k, v in obj.items() if k != 'input'}, indent=1)[:3000])
    case = obj.get('input')
    if not case or 'schema' not in case:
        drv = Driver('drv_c07') if (VERIF / 'lean/.lake/build/bin/drv_c07').exists() else None
        if case and 'alt_tests' in case:
            tb = case['alt_tests']
            run_alt_tests(ctx, drv, 0, [(tb, []) if case.get('element') == 'e' else ([], tb)])
        elif case and 'alternatives' in case:
            run_alternatives(ctx, None)
        else:
            return 0
    else:
        print('schema:\n' + xsd_text(case['schema']))
        print('instance:', {k: v for k, v in case.items() if k not in ('schema',)})
        drv = Driver('drv_c07') if (VERIF / 'lean/.lake/build/bin/drv_c07').exists() else None
        run_schema(ctx, drv, case['schema'], case['v'] == '1.1')
    key = {k: v for k, v in (case or {}).items() if k != 'schema'}
    hits = [f for f in ctx.failures if {k: v for k, v in f['case'].items() if k != 'schema'} == key] or ctx.failures
    for f in hits[:5]:
        print('FAILS ON THE REAL CODE:', f['what'], json.dumps(f['detail'], default=str)[:800],
              {k: v for k, v in f['case'].items() if k != 'schema'})
    for m in ctx.mismatches[:5]:
        print('MODEL != IMPLEMENTATION:', m['correspondence'], 'impl=', m['impl'], 'model=', m['model'],
              {k: v for k, v in m['case'].items() if k != 'schema'})
    print('judgement:', 'property violated' if ctx.failures else 'property holds on this input')
    return 1 if ctx.failures else 0
