"""
C07 — dynamic typing (xsi:type), substitution groups and xsi:nil obey derivation, block and abstract rules.

Generator: seeded random type hierarchies (complex extension/restriction chains, a simple restriction chain,
simple-content complex types; abstract flags; block/final on types, blockDefault/finalDefault on the schema)
x global element declarations (type, block, abstract, nillable, fixed, substitution groups up to two
levels) x instance variants (EVERY type name as xsi:type + an unknown name + none, nil flag variants,
content variants); XSD 1.0 and 1.1; a fixed family of XSD 1.1 type-alternative tables.

For each built schema the type hierarchy and the global elements are introspected (object identity ->
index, base before derived) and
  (1) `is_derived(t, u, d)` for ALL pairs x {None, extension, restriction} and `is_blocked(t, e)` for all
      type x element pairs are compared with the Lean model (XsVerif/Model/Derivation.lean),
  (2) every instance is validated by the library; the error kinds are compared with the model's
      `elementErrs` / `substVerdict` / `selectAlt`,
  (3) the property itself is evaluated on the real code against an independent reading computed from the
      generator's AST (chains over the *declared* bases, effective block = attribute or schema default).
"""
from __future__ import annotations

import json
import re
from typing import Any, Optional
from xml.etree import ElementTree as ET

from harness.core import Ctx, Driver, VERIF

PROPS = 'XsVerif.Props.C07'
AUDIT = 'XsVerif.Audit.C07'
LEAN_TARGETS = ['XsVerif.Props.C07', 'drv_c07']
LEANCHECK = ['XsVerif.Model.Derivation', 'XsVerif.Props.C07']
RULE = ('a case is one (XSD version, schema, element declaration, xsi:type choice, nil variant, content variant) or '
        'one (schema, head, member) substitution pair or one (alternative table, attribute setting, content); '
        'non-trivial = xsi:type present, or xsi:nil present, or the element has a fixed value, or a substitution / '
        'alternative case; distinct by canonical JSON of (version, built hierarchy, built element, instance)')
TRUSTED = ['content validity per (governing type, content variant) and fixed-value agreement are parameters of the '
           'theorems (CSem.contentOk / fixedOk); in the correspondence they come from the harness\'s own reading of '
           'the generated content models (optional element sequences, integer ranges)',
           'the theorems about is_derived/is_blocked/xsi:type/substitution are proved for hierarchies of complex '
           'types with complex content; simple and simple-content types are covered by the model and the '
           'correspondence run and by two small theorems on the simple variant',
           'XPath tests of type alternatives are evaluated by elementpath (modelled as given booleans)']
ASSUMPTIONS = ['no union types (the union-member clause of get_instance_type is not modelled; the generator makes none)',
               'declared element types are named user types, never xs:anyType',
               'for substitution groups the block set is that of the head element and the head\'s type (as for '
               'xsi:type); blocks of intermediate types of the chain are not considered by the library nor by '
               'this check']

T = 'urn:t'
XSD = 'http://www.w3.org/2001/XMLSchema'
XSI = 'http://www.w3.org/2001/XMLSchema-instance'
XSI_TYPE, XSI_NIL = '{%s}type' % XSI, '{%s}nil' % XSI
NS = {'t': T, 'xsi': XSI}
METHS = ('extension', 'restriction')
BLOCKS_T = [None, None, '', 'extension', 'restriction', '#all']
BLOCKS_E = [None, None, '', 'extension', 'restriction', 'substitution', '#all', 'extension substitution',
            'restriction substitution']


# ---------------------------------------------------------------- generator (AST)
def gen_schema(rng) -> dict:
    n_c = rng.randint(3, 7)
    types: list[dict] = []
    for i in range(n_c):
        if i == 0 or rng.random() < 0.12:
            base, meth = None, None
        else:
            base = rng.randrange(i)
            meth = rng.choice(METHS)
        types.append({'name': f'C{i}', 'kind': 'complex', 'base': f'C{base}' if base is not None else None,
                      'meth': meth, 'abstract': rng.random() < 0.2, 'block': rng.choice(BLOCKS_T), 'final': None})
    smax = [100, 50, 10]
    for i, mx in enumerate(smax):
        types.append({'name': f'S{i}', 'kind': 'simple', 'base': f'S{i - 1}' if i else 'xs:int', 'meth': 'restriction',
                      'max': mx, 'abstract': False, 'block': None, 'final': None})
    types.append({'name': 'SC0', 'kind': 'sc', 'base': 'S0', 'meth': 'extension', 'abstract': False,
                  'block': rng.choice(BLOCKS_T), 'final': None})
    types.append({'name': 'SC1', 'kind': 'sc', 'base': 'SC0', 'meth': 'extension', 'abstract': rng.random() < 0.2,
                  'block': rng.choice(BLOCKS_T), 'final': None})
    byname = {t['name']: t for t in types}
    final_default = rng.choice(['', '', '', 'extension', 'restriction'])
    used = {t['name']: set() for t in types}
    for t in types:
        if t['base'] in used:
            used[t['base']].add(t['meth'])
    for t in types:
        if t['kind'] == 'simple':
            continue
        # a `final` that the hierarchy respects
        free = [m for m in METHS if m not in used[t['name']]]
        if any(m in final_default.split() for m in used[t['name']]):
            t['final'] = ' '.join(m for m in final_default.split() if m not in used[t['name']])
        elif free and rng.random() < 0.25:
            t['final'] = rng.choice(free)
    elems: list[dict] = []
    heads = []
    n_e = rng.randint(3, 5)
    names = [t['name'] for t in types]
    for i in range(n_e):
        ty = rng.choice(names)
        simple = byname[ty]['kind'] in ('simple', 'sc')
        e = {'name': f'e{i}', 'type': ty, 'block': rng.choice(BLOCKS_E), 'abstract': rng.random() < 0.15,
             'nillable': rng.random() < 0.5, 'fixed': '5' if simple and rng.random() < 0.35 else None,
             'subst': None, 'final': ''}
        elems.append(e)
        heads.append(e)
    # substitution groups, up to two levels: member types are derived from (or equal to) the head's type
    def descendants(name: str) -> list[str]:
        out = [name]
        for t in types:
            if t['base'] in out and t['name'] not in out:
                out.append(t['name'])
        return out
    k = 0
    for level in range(2):
        for h in list(heads):
            if rng.random() < (0.6 if level == 0 else 0.35):
                ty = rng.choice(descendants(h['type']))
                m = {'name': f'm{k}', 'type': ty, 'block': rng.choice(BLOCKS_E), 'abstract': rng.random() < 0.2,
                     'nillable': False, 'fixed': None, 'subst': h['name'], 'final': ''}
                k += 1
                elems.append(m)
                if level == 0:
                    heads.append(m)
        heads = [e for e in elems if e['subst'] is not None]
    return {'types': types, 'elems': elems, 'blockDefault': rng.choice(['', '', 'extension', 'restriction',
                                                                         'substitution', '#all',
                                                                         'extension substitution']),
            'finalDefault': final_default}


def chain_elems(byname: dict, name: str) -> list[str]:
    """child element names (all optional, in order) of a generated complex type"""
    t = byname[name]
    base = chain_elems(byname, t['base']) if t['base'] else ['x']
    return base + (['y' + name] if t['meth'] == 'extension' else [])


def xsd_text(s: dict) -> str:
    byname = {t['name']: t for t in s['types']}
    out = [f'<xs:schema xmlns:xs="{XSD}" targetNamespace="{T}" xmlns:t="{T}" elementFormDefault="qualified" '
           f'blockDefault="{s["blockDefault"]}" finalDefault="{s["finalDefault"]}">']

    def attrs(t: dict) -> str:
        a = ''
        if t.get('abstract'):
            a += ' abstract="true"'
        if t.get('block') is not None:
            a += f' block="{t["block"]}"'
        if t.get('final') is not None:
            a += f' final="{t["final"]}"'
        return a
    for t in s['types']:
        if t['kind'] == 'complex':
            seq = ''.join(f'<xs:element name="{n}" type="xs:int" minOccurs="0"/>' for n in chain_elems(byname, t['name']))
            if t['base'] is None:
                out.append(f'<xs:complexType name="{t["name"]}"{attrs(t)}><xs:sequence>{seq}</xs:sequence></xs:complexType>')
            elif t['meth'] == 'extension':
                own = f'<xs:element name="y{t["name"]}" type="xs:int" minOccurs="0"/>'
                out.append(f'<xs:complexType name="{t["name"]}"{attrs(t)}><xs:complexContent><xs:extension '
                           f'base="t:{t["base"]}"><xs:sequence>{own}</xs:sequence></xs:extension></xs:complexContent>'
                           f'</xs:complexType>')
            else:
                out.append(f'<xs:complexType name="{t["name"]}"{attrs(t)}><xs:complexContent><xs:restriction '
                           f'base="t:{t["base"]}"><xs:sequence>{seq}</xs:sequence></xs:restriction></xs:complexContent>'
                           f'</xs:complexType>')
        elif t['kind'] == 'simple':
            b = t['base'] if t['base'].startswith('xs:') else 't:' + t['base']
            fin = ' final=""' if s['finalDefault'] else ''
            out.append(f'<xs:simpleType name="{t["name"]}"{fin}><xs:restriction base="{b}"><xs:maxInclusive '
                       f'value="{t["max"]}"/></xs:restriction></xs:simpleType>')
        else:
            out.append(f'<xs:complexType name="{t["name"]}"{attrs(t)}><xs:simpleContent><xs:extension '
                       f'base="t:{t["base"]}"><xs:attribute name="k{t["name"]}" type="xs:string"/></xs:extension>'
                       f'</xs:simpleContent></xs:complexType>')
    for e in s['elems']:
        a = f' type="t:{e["type"]}" final=""'
        if e['block'] is not None:
            a += f' block="{e["block"]}"'
        if e['abstract']:
            a += ' abstract="true"'
        if e['nillable']:
            a += ' nillable="true"'
        if e['fixed'] is not None:
            a += f' fixed="{e["fixed"]}"'
        if e['subst']:
            a += f' substitutionGroup="t:{e["subst"]}"'
        out.append(f'<xs:element name="{e["name"]}"{a}/>')
    for e in s['elems']:
        out.append(f'<xs:element name="r_{e["name"]}"><xs:complexType><xs:sequence><xs:element ref="t:{e["name"]}" '
                   f'minOccurs="0" maxOccurs="unbounded"/></xs:sequence></xs:complexType></xs:element>')
    out.append('</xs:schema>')
    return '\n'.join(out)


# ---------------------------------------------------------------- independent reading (from the AST)
def eff_block(s: dict, x: dict) -> set:
    b = x['block'] if x.get('block') is not None else s['blockDefault']
    if b == '#all':
        return {'extension', 'restriction', 'substitution'}
    return set(b.split())


def chain_methods(byname: dict, t: str, u: str) -> Optional[list[str]]:
    ms: list[str] = []
    cur = t
    while cur != u:
        d = byname.get(cur)
        if d is None or d['base'] is None:
            return None
        ms.append(d['meth'])
        cur = d['base']
    return ms


CONTENTS = [  # (id, text, children)
    (0, None, []), (1, '5', []), (2, '05', []), (3, '30', []), (4, '70', []), (5, 'zz', []), (6, None, ['x']),
    (7, None, ['x', 'LAST']), (8, None, ['LAST', 'x']), (9, ' ', []),
]


def content_ok(byname: dict, ty: str, cv: tuple, fixed: Optional[str]) -> bool:
    """is the (concrete) content variant valid for the governing type (element fixed value applied to empty
    text)"""
    _, text, children = cv
    t = byname[ty]
    if t['kind'] == 'complex':
        if text is not None and text.strip():
            return False
        names = chain_elems(byname, ty)
        kids = list(children)
        pos = -1
        for c in kids:
            if c not in names or names.index(c) <= pos:
                return False
            pos = names.index(c)
        return True
    if children:
        return False
    mx = byname['S0']['max'] if t['kind'] == 'sc' else t['max']
    txt = text if text else (fixed if fixed is not None else text)
    if txt is None or not re.fullmatch(r'\s*[+-]?[0-9]+\s*', txt):
        return False
    return int(txt) <= mx


def fixed_ok(byname: dict, ty: str, cv: tuple, fixed: Optional[str]) -> bool:
    _, text, children = cv
    if fixed is None:
        return True
    if byname[ty]['kind'] == 'complex':
        return not children          # never generated: fixed only on simple / simple-content elements
    if children:
        return True                  # reported as content error
    if not text:
        return True
    if re.fullmatch(r'\s*[+-]?[0-9]+\s*', text):
        return int(text) == int(fixed)
    return False


def spec_element(s: dict, e: dict, xsi: Optional[str], nil: Optional[str], cv: tuple) -> bool:
    byname = {t['name']: t for t in s['types']}
    D = byname[e['type']]
    gov = e['type']
    if xsi is not None:
        if xsi not in byname:
            return False
        ms = chain_methods(byname, xsi, e['type'])
        if ms is None:
            return False
        if set(ms) & (eff_block(s, e) | (eff_block(s, D) if D['kind'] != 'simple' else set())):
            return False
        gov = xsi
    if byname[gov].get('abstract'):
        return False
    nilled = False
    if nil is not None:
        v = nil.strip()
        if not e['nillable'] or v not in ('0', '1', 'true', 'false'):
            return False
        if v in ('1', 'true'):
            if e['fixed'] is not None or cv[1] is not None or cv[2]:
                return False
            nilled = True
    if nilled:
        return True
    return content_ok(byname, gov, cv, e['fixed']) and fixed_ok(byname, gov, cv, e['fixed'])


def spec_subst(s: dict, head: dict, m: dict) -> str:
    byname = {t['name']: t for t in s['types']}
    ebyname = {e['name']: e for e in s['elems']}
    cur, reach = m, False
    while cur['subst'] is not None:
        p = ebyname[cur['subst']]
        if 'substitution' in eff_block(s, p):
            break
        if p is head:
            reach = True
            break
        cur = p
    if not reach or m['abstract']:
        return 'notSubstitute'
    ms = chain_methods(byname, m['type'], head['type'])
    D = byname[head['type']]
    blk = eff_block(s, head) | (eff_block(s, D) if D['kind'] != 'simple' else set())
    if 'substitution' in eff_block(s, head) or ms is None or set(ms) & blk:
        return 'blocked'
    return 'accepted'


# ---------------------------------------------------------------- real code: build + introspect
def introspect(schema: Any) -> Optional[dict]:
    from xmlschema.validators import XsdComplexType, XsdSimpleType, XsdUnion
    objs: list[Any] = []

    def visit(t: Any) -> None:
        if t is None or any(t is o for o in objs):
            return
        if t.base_type is not None:
            visit(t.base_type)
        c = getattr(t, 'content', None)
        if isinstance(t, XsdComplexType) and isinstance(c, XsdSimpleType):
            visit(c)
        if isinstance(t, XsdUnion):
            for m in t.member_types:
                visit(m)
        if getattr(t, 'item_type', None) is not None and not isinstance(t, XsdComplexType):
            visit(t.item_type)
        pt = getattr(t, 'primitive_type', None)
        if isinstance(pt, XsdUnion) and pt is not t:
            visit(pt)
        objs.append(t)
    for t in schema.types.values():
        visit(t)
    idx = {id(o): i for i, o in enumerate(objs)}
    types = []
    from xmlschema.validators import XsdList, XsdAtomic, XsdAtomicRestriction
    for o in objs:
        cx = isinstance(o, XsdComplexType)
        c = getattr(o, 'content', None)
        types.append({
            'base': idx[id(o.base_type)] if o.base_type is not None else None,
            'deriv': o.derivation if o.derivation in METHS else None,
            'complex': cx, 'anyType': o.name == '{%s}anyType' % XSD, 'anySimple': o.name == '{%s}anySimpleType' % XSD,
            'simpleContent': bool(cx and o.has_simple_content()),
            'content': idx[id(c)] if cx and isinstance(c, XsdSimpleType) else None,
            'abstract': bool(getattr(o, 'abstract', False)),
            'block': [m for m in (getattr(o, 'block', '') or '').split() if m in METHS],
            'anyAtomic': o.name == '{%s}anyAtomicType' % XSD, 'atomicCls': isinstance(o, XsdAtomic),
            'isList': isinstance(o, XsdList),
            'item': idx[id(o.item_type)] if isinstance(o, XsdList) else None,
            'isUnion': isinstance(o, XsdUnion),
            'members': [idx[id(m)] for m in o.member_types] if isinstance(o, XsdUnion) else [],
            'unionLike': bool(not cx and o.is_union()), 'facets': bool(not cx and o.facets),
            'primUnion': idx[id(o.primitive_type)] if isinstance(o, XsdAtomicRestriction)
            and isinstance(o.primitive_type, XsdUnion) else None})
    names = {o.local_name: idx[id(o)] for o in objs if o.name and o.name.startswith('{%s}' % T)}
    elems, eidx = [], {}
    order = [e for e in schema.elements.values() if not e.local_name.startswith('r_')]
    order.sort(key=lambda e: (0 if e.substitution_group is None else
                              1 if schema.maps.elements[e.substitution_group].substitution_group is None else 2))
    for i, e in enumerate(order):
        eidx[e.name] = i
    for e in order:
        blk = (e.block or '').split()
        elems.append({'ty': idx[id(e.type)], 'block': [m for m in blk if m in METHS],
                      'blockSubst': 'substitution' in blk, 'abstract': bool(e.abstract), 'nillable': bool(e.nillable),
                      'fixed': e.fixed is not None,
                      'subst': eidx[e.substitution_group] if e.substitution_group else None})
    return {'types': types, 'elems': elems, 'names': names, 'objs': objs, 'eorder': order, 'idx': idx,
            'eidx': {e.local_name: i for i, e in enumerate(order)}}


ERRS = [
    (re.compile(r'not found'), 'unknownType'),
    (re.compile(r'cannot substitute'), 'notDerived'),
    (re.compile(r'^usage of .* is blocked$'), 'blocked'),
    (re.compile(r'^Xsd\w+\(.*\) is abstract$'), 'abstractType'),
    (re.compile(r'^element is not nillable$'), 'notNillable'),
    (re.compile(r'^xsi:nil attribute must have a boolean value$'), 'nilNotBoolean'),
    (re.compile(r"^xsi:nil='true' but the element has a fixed value$"), 'nilFixed'),
    (re.compile(r"^xsi:nil='true' but the element is not empty$"), 'nilNotEmpty'),
    (re.compile(r'^must have the fixed value'), 'fixedValue'),
    (re.compile(r"^can't use an abstract"), 'abstractElement'),
    (re.compile(r'^substitution of .* is blocked$'), 'substBlocked'),
    (re.compile(r'blocked by head element'), 'substBlocked'),
]


def kinds_of(errs: list) -> list[str]:
    from xmlschema.validators import XsdElement, XMLSchemaChildrenValidationError
    out = set()
    for e in errs:
        r = e.reason or ''
        k = 'content'
        if isinstance(e, XMLSchemaChildrenValidationError):
            k = 'children'
        elif isinstance(e.validator, XsdElement) or 'substitution of' in r or 'blocked by head' in r:
            for rx, kind in ERRS:
                if rx.search(r):
                    k = kind
                    break
        out.add(k)
    return sorted(out)


def concrete(cv: tuple, last: str) -> tuple:
    return (cv[0], cv[1], [last if c == 'LAST' else c for c in cv[2]])


def make_elem(name: str, xsi: Optional[str], nil: Optional[str], cv: tuple, last: str) -> Any:
    attrib = {}
    if xsi is not None:
        attrib[XSI_TYPE] = 't:' + xsi
    if nil is not None:
        attrib[XSI_NIL] = nil
    el = ET.Element('{%s}%s' % (T, name), attrib)
    el.text = cv[1]
    for c in cv[2]:
        k = ET.SubElement(el, '{%s}%s' % (T, last if c == 'LAST' else c))
        k.text = '1'
    return el


def run_schema(ctx: Ctx, drv: Optional[Driver], s: dict, v11: bool) -> None:
    import xmlschema
    from xmlschema import XMLSchemaException
    ver = '1.1' if v11 else '1.0'
    xsd = xsd_text(s)
    case0 = {'v': ver, 'schema': s}
    try:
        schema = (xmlschema.XMLSchema11 if v11 else xmlschema.XMLSchema10)(xsd)
    except XMLSchemaException as ex:
        ctx.count('schema-refused')
        ctx.failure('generated schema refused by the library', case0, {'message': str(ex)[:400], 'xsd': xsd})
        return
    g = introspect(schema)
    if g is None:
        ctx.failure('built hierarchy cannot be expressed in the model', case0)
        return
    byname = {t['name']: t for t in s['types']}
    ebyname = {e['name']: e for e in s['elems']}
    ctx.count(f'{ver}/schemas')
    ctx.count('types:%d' % len(s['types']))
    queries: list = []
    pend: list = []
    objs = g['objs']
    # ---- (1) unit level: is_derived on all pairs, is_blocked on all type x element pairs
    for i, a in enumerate(objs):
        for j, b in enumerate(objs):
            for d in (None, 'extension', 'restriction'):
                real = bool(a.is_derived(b, d))
                queries.append({'op': 'derived', 't': i, 'u': j, 'd': d})
                pend.append(('derived', {'v': ver, 'schema': s, 't': a.name, 'u': b.name, 'd': d}, real))
                if a.name and b.name and a.local_name in byname and b.local_name in byname \
                        and a.name.startswith('{%s}' % T) and b.name.startswith('{%s}' % T):
                    ms = chain_methods(byname, a.local_name, b.local_name)
                    want = ms is not None and (d is None or d in ms or a is b)
                    if byname[a.local_name]['kind'] == 'simple' and d == 'extension' and a is not b:
                        want = False
                    if real != want and not (d is not None and a is b):
                        ucase = {'v': ver, 'schema': s, 't': a.local_name, 'u': b.local_name, 'd': d}
                        fid = known_match(ucase, {'is_derived': real})
                        if fid:
                            ctx.known_hit(fid)
                            continue
                        ctx.failure('is_derived differs from reachability over the declared base types '
                                    '(with the requested derivation method on the chain)',
                                    {'v': ver, 'schema': s, 't': a.local_name, 'u': b.local_name, 'd': d},
                                    {'is_derived': real, 'chain_methods': ms})
                    ctx.count('derived:' + str(real))
    for i, a in enumerate(objs):
        for e in g['eorder']:
            real = bool(a.is_blocked(e))
            queries.append({'op': 'blocked', 't': i, 'e': g['eidx'][e.local_name]})
            pend.append(('blocked', {'v': ver, 'schema': s, 't': a.name, 'e': e.local_name}, real))
            ctx.count('is_blocked:' + str(real))
    # ---- (2)+(3) element level
    tnames = [t['name'] for t in s['types']]
    contents = CONTENTS
    variants: dict = {}
    for e in s['elems']:
        xe = schema.elements[e['name']]
        ei = g['eidx'][e['name']]
        last = chain_elems(byname, e['type'])[-1] if byname[e['type']]['kind'] == 'complex' else 'x'
        for xsi in [None, 'Nope'] + tnames:
            if xsi in byname and byname[xsi]['kind'] == 'complex':
                last_x = chain_elems(byname, xsi)[-1]
            else:
                last_x = last
            for nil in (None, 'true', 'false', ' 1 ', 'x'):
                for cv0 in contents:
                    if ctx.quick() and nil is not None and cv0[0] not in (0, 1, 6, 9):
                        continue
                    cv = concrete(cv0, last_x)
                    vkey = (cv[1], tuple(cv[2]))
                    vid = variants.setdefault(vkey, len(variants))
                    el = make_elem(e['name'], xsi, nil, cv, last_x)
                    kinds = kinds_of(list(schema.iter_errors(el, namespaces=NS)))
                    real_valid = not kinds
                    case = {'v': ver, 'schema': s, 'element': e['name'], 'xsi': xsi, 'nil': nil, 'content': list(cv)}
                    if e['abstract']:
                        # abstract element used directly: always invalid (property: abstract rules)
                        if real_valid:
                            ctx.failure('abstract element accepted in an instance', case)
                        ctx.case({'v': ver, 'e': g['elems'][ei], 'xsi': xsi, 'nil': nil, 'cv': cv[0]}, True,
                                 tag=f'{ver}/abstract-element')
                        continue
                    want = spec_element(s, e, xsi, nil, cv)
                    if real_valid != want:
                        fid = known_match(case, {'error_kinds': kinds, 'expected_valid': want})
                        if fid:
                            ctx.known_hit(fid)
                        else:
                            ctx.failure('element %s by the library but %s by the property' % (
                                ('accepted', 'invalid') if real_valid else ('rejected', 'valid')), case,
                                {'error_kinds': kinds})
                    xq: Any = None if xsi is None else (g['names'][xsi] if xsi in g['names'] else 'unknown')
                    queries.append({'op': 'elem', 'e': ei, 'declTy': g['elems'][ei]['ty'], 'xsi': xq,
                                    'nil': nil.strip() if nil is not None else None, 'text': cv[1] is not None,
                                    'children': bool(cv[2]), 'variant': vid * 2 + (1 if e['fixed'] else 0)})
                    pend.append(('elem', case, kinds))
                    ctx.case({'v': ver, 'types': g['types'], 'e': g['elems'][ei], 'xsi': xq, 'nil': nil, 'cv': cv[0]},
                             xsi is not None or nil is not None or e['fixed'] is not None, tag=f'{ver}/element')
                    for k in kinds:
                        ctx.count('err:' + k)
                    if not kinds:
                        ctx.count('valid')
    # ---- substitution pairs
    for h in s['elems']:
        for m in s['elems']:
            if m is h:
                continue
            root = ET.Element('{%s}r_%s' % (T, h['name']))
            kid = ET.SubElement(root, '{%s}%s' % (T, m['name']))
            if byname[m['type']]['kind'] != 'complex':
                kid.text = '5'
            kinds = kinds_of(list(schema.iter_errors(root, namespaces=NS)))
            real = ('blocked' if 'substBlocked' in kinds else
                    'notSubstitute' if 'children' in kinds or 'abstractElement' in kinds else 'accepted')
            case = {'v': ver, 'schema': s, 'head': h['name'], 'member': m['name']}
            want = spec_subst(s, h, m)
            if (real == 'accepted') != (want == 'accepted') and known_match(case, {'real': real, 'want': want}):
                ctx.known_hit('C07-F1')
            elif (real == 'accepted') != (want == 'accepted'):
                ctx.failure('substitution %s by the library but the property says %s' % (real, want), case,
                            {'error_kinds': kinds})
            queries.append({'op': 'subst', 'head': g['eidx'][h['name']], 'm': g['eidx'][m['name']]})
            pend.append(('subst', case, real))
            ctx.case({'v': ver, 'types': g['types'], 'elems': g['elems'], 'h': h['name'], 'm': m['name']}, True,
                     tag=f'{ver}/substitution')
            ctx.count('subst:' + real)
    # ---- (2) compare with the Lean model
    if drv is not None:
        cok, fok = [], []
        for ti, o in enumerate(objs):
            if not (o.name and o.name.startswith('{%s}' % T)) or o.local_name not in byname:
                continue
            for (text, kids), vid in variants.items():
                cv = (vid, text, list(kids))
                for fx in (0, 1):
                    fixed = '5' if fx else None
                    if content_ok(byname, o.local_name, cv, fixed):
                        cok.append([ti, vid * 2 + fx])
                    if fixed_ok(byname, o.local_name, cv, fixed):
                        fok.append([ti, vid * 2 + fx])
        ans = drv.query([{'types': g['types'], 'elems': g['elems'], 'contentOk': cok, 'fixedOk': fok,
                          'quirks': active_quirks(), 'queries': queries}])[0]
        if 'err' in ans:
            ctx.mismatch('driver error', case0, None, ans)
            return
        for (op, case, real), m in zip(pend, ans['res']):
            ctx.traces += 1
            if op in ('derived', 'blocked'):
                if m['r'] is None:
                    ctx.count('fuel')
                    ctx.mismatch(op + ' (model undecided)', case, real, m)
                elif m['r'] != real:
                    ctx.mismatch('is_' + op, case, real, m['r'])
            elif op == 'elem':
                mk = sorted(set(m['errs']))
                if mk != [k for k in real if k != 'children'] + (['content'] if 'children' in real and 'content' not in real else []) \
                        and sorted(set(mk)) != sorted({('content' if k == 'children' else k) for k in real}):
                    ctx.mismatch('element checks', case, real, mk)
            elif op == 'subst':
                ebn = {e['name']: e for e in s['elems']}
                exact = not ebn[case['member']]['abstract'] and not ebn[case['head']]['abstract']
                # with an abstract head or member several rejection reasons apply at once and the library
                # reports whichever it meets first: only accepted/rejected is compared there
                if (m['v'] == 'accepted') != (real == 'accepted') or (exact and m['v'] != real):
                    ctx.mismatch('substitution verdict', case, real, m['v'])


# ---------------------------------------------------------------- XSD 1.1 type alternatives (fixed family)
ALT_TABLES = [
    [("@k='a'", 'A1'), ("@k='b' or @j", 'A2'), (None, 'A3')],
    [("@j", 'A2'), ("@k='a'", 'A1')],
    [("@k='a' and @j", 'A3'), ("@k", 'A1'), ("@j", 'A2')],
    [("@k", 'A3'), (None, 'A1')],
]


def eval_test(test: Optional[str], k: Optional[str], j: bool) -> bool:
    if test is None:
        return True
    env = {"@k='a'": k == 'a', "@k='b'": k == 'b', '@k': k is not None, '@j': j}
    toks = re.split(r'\s+(and|or)\s+', test)
    val = env[toks[0]]
    for op, t in zip(toks[1::2], toks[2::2]):
        val = (val and env[t]) if op == 'and' else (val or env[t])
    return val


def run_alternatives(ctx: Ctx, drv: Optional[Driver]) -> None:
    import xmlschema
    types = ['A0', 'A1', 'A2', 'A3']
    queries, pend = [], []
    for ti, table in enumerate(ALT_TABLES):
        alts = ''.join(f'<xs:alternative {"test=" + chr(34) + t + chr(34) + " " if t else ""}type="t:{ty}"/>'
                       for t, ty in table)
        body = ''.join(
            f'<xs:complexType name="{n}"><xs:complexContent><xs:extension base="t:A0"><xs:sequence>'
            f'<xs:element name="p{n}" type="xs:int"/></xs:sequence></xs:extension></xs:complexContent></xs:complexType>'
            for n in types[1:])
        xsd = (f'<xs:schema xmlns:xs="{XSD}" targetNamespace="{T}" xmlns:t="{T}" elementFormDefault="qualified">'
               f'<xs:complexType name="A0"><xs:sequence/><xs:attribute name="k"/><xs:attribute name="j"/>'
               f'</xs:complexType>{body}<xs:element name="e" type="t:A0">{alts}</xs:element></xs:schema>')
        schema = xmlschema.XMLSchema11(xsd)
        for k in (None, 'a', 'b', 'c'):
            for j in (False, True):
                results = [(t is not None, eval_test(t, k, j) if t is not None else False, types.index(ty))
                           for t, ty in table]
                want_ty = next((ty for t, ty in table if eval_test(t, k, j)), 'A0')
                for child in (None, 'A1', 'A2', 'A3'):
                    attrib = {}
                    if k is not None:
                        attrib['k'] = k
                    if j:
                        attrib['j'] = '1'
                    el = ET.Element('{%s}e' % T, attrib)
                    if child:
                        ET.SubElement(el, '{%s}p%s' % (T, child)).text = '1'
                    real = schema.is_valid(el, namespaces=NS)
                    want = (child is None and want_ty == 'A0') or child == want_ty
                    case = {'v': '1.1', 'alternatives': table, 'k': k, 'j': j, 'child': child}
                    if real != want:
                        ctx.failure('governing type is not the first alternative whose test holds', case,
                                    {'valid': real, 'first_matching': want_ty})
                    ctx.case(case, True, tag='1.1/alternatives')
                    queries.append({'op': 'alt', 'alts': [list(r) for r in results], 'dflt': 0})
                    pend.append((case, real, child))
    if drv is not None:
        ans = drv.query([{'types': [], 'elems': [], 'contentOk': [], 'fixedOk': [], 'queries': queries}])[0]
        for (case, real, child), m in zip(pend, ans['res']):
            ctx.traces += 1
            sel = types[m['ty']]
            model_valid = (child is None and sel == 'A0') or child == sel
            if model_valid != real:
                ctx.mismatch('type alternative selection', case, real, sel)


# ---------------------------------------------------------------- entry points
QUIRK_IDS = ['C07-F1', 'C07-F2', 'C07-F3', 'C07-F4', 'C07-F5']


def active_quirks() -> list[str]:
    """behaviours of the pinned code the Lean model has to reproduce: the findings still `known`"""
    st = {e['id']: e.get('status') for e in load_findings()}
    return [q for q in QUIRK_IDS if st.get(q) == 'known']


def load_findings() -> list[dict]:
    try:
        return json.loads((VERIF / 'notes' / 'findings' / 'C07.json').read_text())['findings']
    except (OSError, ValueError, KeyError):
        return []


def known_match(case: dict, detail: Any) -> Optional[str]:
    """C07-F1 (see notes/findings/C07.json): exact rule, evaluated on the generator's AST."""
    if not any(e['id'] == 'C07-F1' and e.get('status') == 'known' for e in load_findings()):
        return None
    s = case.get('schema')
    if not s:
        return None
    byname = {t['name']: t for t in s['types']}
    if 't' in case and 'u' in case:         # unit level
        t, u = byname.get(case['t']), byname.get(case['u'])
        if t and u and t['kind'] == 'sc' and u['kind'] == 'simple' and case.get('d') == 'restriction' \
                and detail.get('is_derived') is True:
            ms = chain_methods(byname, case['t'], case['u'])
            if ms is not None and 'restriction' not in ms:
                return 'C07-F1'
        return None
    if 'head' in case and 'member' in case:          # substitution: same wrong is_blocked answer
        ebyname = {e['name']: e for e in s['elems']}
        h, m = ebyname[case['head']], ebyname[case['member']]
        x, d = byname[m['type']], byname[h['type']]
        blk = eff_block(s, h)
        if x['kind'] == 'sc' and d['kind'] == 'simple' and 'restriction' in blk and 'extension' not in blk \
                and 'substitution' not in blk and detail.get('real') == 'blocked' and detail.get('want') == 'accepted':
            ms = chain_methods(byname, m['type'], h['type'])
            if ms is not None and set(ms) == {'extension'} and len(ms) >= 2:
                return 'C07-F1'
        return None
    if 'element' in case and case.get('xsi') in byname:
        e = next(x for x in s['elems'] if x['name'] == case['element'])
        x, d = byname[case['xsi']], byname[e['type']]
        blk = eff_block(s, e)
        if x['kind'] == 'sc' and d['kind'] == 'simple' and 'restriction' in blk and 'extension' not in blk \
                and detail.get('error_kinds') == ['blocked'] and detail.get('expected_valid') is True:
            ms = chain_methods(byname, case['xsi'], e['type'])
            if ms is not None and set(ms) == {'extension'} and len(ms) >= 2:
                return 'C07-F1'
    return None


def explore(ctx: Ctx, drv: Optional[Driver], n: int) -> None:
    cdir = VERIF / 'corpus' / 'C07'
    for p in sorted(cdir.glob('*.json')) if cdir.exists() else []:
        obj = json.loads(p.read_text())
        run_schema(ctx, drv, obj['schema'], obj['v'] == '1.1')
    for v11 in (False, True):
        for _ in range(n):
            run_schema(ctx, drv, gen_schema(ctx.rng), v11)
    run_alternatives(ctx, drv)


def run(ctx: Ctx, driver_ok: bool) -> None:
    for e in load_findings():
        ctx.known.append(e)
    explore(ctx, Driver('drv_c07') if driver_ok else None, ctx.pick(20, 150))
    ctx.extra['exhaustive'] = False
    ctx.extra['explanation'] = ('schemas are seeded random; per schema: all type pairs x derivation argument, all '
                                'type x element pairs, every type name as xsi:type x nil variants x content '
                                'variants for every element, every (head, member) pair')


def search(ctx: Ctx) -> None:
    if ctx.quick():
        explore(ctx, None, 25)


def replay(ctx: Ctx, obj: dict) -> int:
    print(json.dumps({k: v for k, v in obj.items() if k != 'input'}, indent=1)[:3000])
    case = obj.get('input')
    if not case or 'schema' not in case:
        if case and 'alternatives' in case:
            run_alternatives(ctx, None)
        else:
            return 0
    else:
        print('schema:\n' + xsd_text(case['schema']))
        print('instance:', {k: v for k, v in case.items() if k not in ('schema',)})
        drv = Driver('drv_c07') if (VERIF / 'lean/.lake/build/bin/drv_c07').exists() else None
        run_schema(ctx, drv, case['schema'], case['v'] == '1.1')
    key = {k: v for k, v in (case or {}).items() if k != 'schema'}
    hits = [f for f in ctx.failures if {k: v for k, v in f['case'].items() if k != 'schema'} == key] or ctx.failures
    for f in hits[:5]:
        print('FAILS ON THE REAL CODE:', f['what'], json.dumps(f['detail'], default=str)[:800],
              {k: v for k, v in f['case'].items() if k != 'schema'})
    for m in ctx.mismatches[:5]:
        print('MODEL != IMPLEMENTATION:', m['correspondence'], 'impl=', m['impl'], 'model=', m['model'],
              {k: v for k, v in m['case'].items() if k != 'schema'})
    print('judgement:', 'property violated' if ctx.failures else 'property holds on this input')
    return 1 if ctx.failures else 0
