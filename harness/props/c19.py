"""
C19 — errors point at the offending node and a single fault is always reported there.

Correspondence (I <-> M): for every validation error produced by the real validator on a faulted document, the
text of `error.path` is compared with the path the Lean model of `etree_getpath` (XsVerif/Model/Paths.lean)
computes for the position of `error.elem` in the tree (tags rendered with the error's namespace map by the
real `get_prefixed_qname`), and the model's evaluation of that path must be the singleton position
(`path_selects_unique`, proved for all trees).

Property evaluation on the real code (independent of Lean): every `error.path` is read AS A USER WOULD, with the error's
own `error.namespaces` as the prefix map, by three readers — the library's own `XMLResource.findall`, ElementTree's /
lxml's `findall(path, namespaces)`, and an independent XPath child-step evaluator — and each of them must select
exactly `error.elem` in the parsed document; for every single-node fault from the catalogue, applied at every node of
every generated valid document, the document must be reported invalid, at least one error must be located at the damaged
node or its parent, and no error outside the damaged node's ancestor chain and subtree.  ElementTree and lxml trees.
Namespace declarations: one faulted document in four declares everything on the root (three layouts); the others are
written by `to_xml_scoped` with xmlns declarations on NON-root elements — a new prefix, a new default namespace, a
prefix rebound to another namespace, two prefixes swapped, the default namespace rebound to a foreign namespace, a
redeclaration, an unused declaration (NS_ACTIONS) — on the damaged node itself, its parent, a sibling, a descendant or a
non-root ancestor (NS_RELS), rotating so that every fault class meets every combination, plus random declarations
elsewhere; names use the innermost binding.  The Lean model of the path (Model/PathsNs.lean: `getPath` on EXPANDED names,
`renderPath` with the error's map, `userSelect` with the map the reader uses; theorem `scoped_path_selects`,
`stale_map_counterexample`) is compared with `error.path` and with the readers for every error.
Family `same`: the same local name in the target namespace, in no namespace and in a foreign namespace interleaved among
the siblings (position = index among the siblings with the same expanded name).  Family `inh11`: XSD 1.1 inheritable
attributes on elements of every content kind (simple content, empty, mixed, element-only) x every fault position relative to
the carrier (its own text, its own attributes, the inheritable attribute itself, its children, its descendants), also with a
validation_hook that answers a mode (both make raw_decode continue in a COPY of the validation context); an error without
an element or without a path is always a failure (C19-F3 = C04-F5 is fixed by 38d1916: no matcher remains).

Family `cm`: every compositor (sequence, choice, all; nested; group references; XSD 1.1 all with minOccurs/maxOccurs > 1 and
all-groups inside all) x the occurrence ranges {0,1},{1,1},{2,2},{2,4},{0,unbounded},{3,unbounded} on elements and on groups x
the operators "remove one occurrence" / "add one occurrence" at every child of words whose counts sit on the boundaries of the
ranges (leaving min-1, exactly min, max, max+1).  What is a fault is judged by the independent reading `lib_cm.ref_accepts`,
not by the library; a deviation that the Lean port of the pinned ModelVisitor (drv_c01) reproduces is C01-F0: counted, skipped.

Family `nil`: valid base documents with NILLED elements (xsi:nil="true") of simple, defaulted, simple-content, element-only,
mixed and empty types, every operator applied at the nilled element (add a declared / undeclared child, text, whitespace-only
text, comment / PI (not a fault), xsi:nil false / garbage, xsi:type admissible / inadmissible, bad attribute), judged by the
rule "a nilled element has no character or element children".

Family `vc` (value constraints): attributes and simple elements of 11 kinds of simple type (int, decimal, date, boolean,
NCName, enumeration, QName, NOTATION, list, union, language) x {no constraint, default, fixed}, present in the valid document,
damaged with a lexically invalid value / a different valid value (a fault iff fixed) / another lexical form of the same value
(never a fault) / a QName with an unmapped prefix; QName prefixes declared on the root or on the element that uses them.

Fault localisation as a theorem (`single_fault_localised`, `observed_fault_localised`, Props/C19.lean): the
validator is modelled as a compositional `Val` (Model/Localise.lean).  The run ties it to the code as follows:
  * `validation_hook` (public API) records the declaration used for every element; the errors located at every
    element are recorded; the first observation of a key defines a table row and every later observation is
    compared with it: (H-own) own errors are a function of (declaration, tag, attributes, text, child names),
    (H-gov) the declaration of a child is a function of (parent declaration, child name);
  * for every damaged document the driver applies the model's `Fault.apply` to the *valid* document and runs the
    model's `errs` with the table-driven validator `tableVal`: the damaged tree, the damaged position, and the
    predicted errors (positions, order, kinds) must equal what the real validator did; (H-eff) `effectiveB` must
    hold; `inZone`/`near` are compared with the harness evaluation;
  * a schema family with a wildcard beside a same-named declaration shows where (H-gov) fails on the real code
    (`gov_nonlocal_counterexample`, finding C19-F2): the witness is replayed literally.
Lazy resources: `etree_getpath` is observed when a lazy error is created; the tree it sees is compared with the
model's `lazyState` (cleared depth-level elements, elements not yet read absent), the path with `getPath` on that
state, and what the path selects in the whole document with `selectAbs` (`lazy_path_contains`: always the element;
`lazy_path_exact_partial`; `lazy_path_counterexample` replayed with a document larger than the read block).  No
verdict for lazy resources (the property is about fully loaded documents).
"""
from __future__ import annotations

import json
import re
from typing import Any, Optional

from harness.core import Ctx, Driver

PROPS = ['XsVerif.Props.C19', 'XsVerif.Props.C19Ns', 'XsVerif.Props.C19Fx']
AUDIT = 'XsVerif.Audit.C19'
LEAN_TARGETS = ['XsVerif.Props.C19', 'XsVerif.Props.C19Ns', 'XsVerif.Props.C19Fx', 'drv_c19']
LEANCHECK = ['XsVerif.Model.Paths', 'XsVerif.Model.PathsNs', 'XsVerif.Model.Localise', 'XsVerif.Lemmas.Localise',
             'XsVerif.Props.C19', 'XsVerif.Props.C19Ns', 'XsVerif.Model.FixedCC', 'XsVerif.Props.C19Fx']
RULE = ('a case is (valid document, fault kind, damaged node, parser); non-trivial = the validator reported at '
        'least one error whose element has a same-named sibling (a positional predicate is needed) or lies at '
        'depth >= 2; distinct by canonical JSON of (document, fault, node, parser)')
TRUSTED = ['the XPath reading of a path (child steps, positional predicate among same-named siblings, names '
           'resolved with the error\'s namespace map, unprefixed names in the default namespace when one is bound) '
           'is the specification; it is implemented twice (Lean `select`, harness `xpath_select`)',
           'lxml / ElementTree tree construction',
           'the shape `Val` of the validator (own errors before/after the children, children validated recursively) and '
           'its hypotheses H-own, H-gov, H-eff are modelling assumptions: checked on every run by the observation tables '
           'and by comparing the predicted error list of every damaged document with iter_errors, not proved of the code',
           'content-model family: `lib_cm.ref_accepts` (derivatives of the unrolled expression) is the language; the classification '
           'of a library deviation as C01-F0 trusts the Lean port of ModelVisitor (drv_c01, tied to the code by the C01 check); '
           'when that driver binary is absent such deviations are only counted',
           'ElementTree.iterparse read-ahead (which elements exist when a lazy error is created) is observed, not modelled: '
           'the model takes the number of started elements as a parameter']
ASSUMPTIONS = ['namespaces are declared on the root only (three layouts) for one faulted document in four, on non-root '
               'elements (7 kinds of declaration x 5 places relative to the damaged node) for the others; no QName-valued '
               'content, so a rebinding never changes the meaning of a value',
               'faults are generated so that they invalidate by construction (required items removed, undeclared '
               'items added, order violated in a strictly ordered sequence, lexically invalid values for typed items)',
               'main schema family: no wildcards, no substitution groups, no identity constraints, no ID/IDREF, no '
               'assertions, no xsi:type in instances (errors that depend on document-wide tables are outside `Val`); '
               'the wildcard family exhibits the failure of H-gov (C19-F2)']

TNS = 'urn:t'


def xsd(form: str) -> str:
    return f'''<xs:schema xmlns:xs="http://www.w3.org/2001/XMLSchema" targetNamespace="{TNS}" xmlns:t="{TNS}"
 elementFormDefault="{form}">
 <xs:element name="root"><xs:complexType><xs:sequence>
   <xs:element name="head" type="t:Head"/>
   <xs:element name="item" type="t:Item" maxOccurs="unbounded"/>
   <xs:element name="note" type="xs:string" minOccurs="0" maxOccurs="3"/>
   <xs:element name="group" type="t:Group" minOccurs="0" maxOccurs="unbounded"/>
   <xs:any namespace="##other" processContents="skip" minOccurs="0" maxOccurs="2"/>
  </xs:sequence><xs:attribute name="version" type="xs:int" use="required"/>
  <xs:anyAttribute namespace="##other" processContents="skip"/></xs:complexType></xs:element>
 <xs:complexType name="Head"><xs:sequence>
   <xs:element name="title" type="xs:string"/>
   <xs:element name="date" type="xs:date"/>
   <xs:element name="flag" type="xs:boolean" minOccurs="0"/>
  </xs:sequence><xs:attribute name="lang" type="xs:language"/>
  <xs:anyAttribute namespace="##local" processContents="lax"/></xs:complexType>
 <xs:complexType name="Item"><xs:sequence>
   <xs:element name="name" type="xs:NCName"/>
   <xs:element name="qty" type="xs:positiveInteger"/>
   <xs:element name="price" type="xs:decimal" minOccurs="0"/>
   <xs:choice minOccurs="0" maxOccurs="2"><xs:element name="a" type="xs:int"/><xs:element name="b" type="xs:token"/></xs:choice>
  </xs:sequence><xs:attribute name="id" type="xs:int" use="required"/>
  <xs:attribute name="kind"><xs:simpleType><xs:restriction base="xs:string"><xs:enumeration value="x"/><xs:enumeration value="y"/></xs:restriction></xs:simpleType></xs:attribute>
  <xs:anyAttribute namespace="urn:x urn:y" processContents="strict"/>
 </xs:complexType>
 <xs:complexType name="Group"><xs:sequence>
   <xs:element name="item" type="t:Item" minOccurs="0" maxOccurs="unbounded"/>
   <xs:element name="group" type="t:Group" minOccurs="0" maxOccurs="unbounded"/>
   <xs:any namespace="##other" processContents="lax" minOccurs="0" maxOccurs="unbounded"/>
  </xs:sequence><xs:attribute name="label" type="xs:NCName" use="required"/>
  <xs:anyAttribute namespace="##targetNamespace" processContents="skip"/></xs:complexType>
</xs:schema>'''


XNS = 'urn:x'
# attribute wildcards of the complex types above: (namespace constraint, processContents); the schema declares no
# global attribute, so a name admitted by a strict wildcard is still invalid (no declaration), by lax / skip valid
ATTR_WILDCARD = {'root': ('##other', 'skip'), 'head': ('##local', 'lax'), 'item': ('urn:x urn:y', 'strict'),
                 'group': ('##targetNamespace', 'skip')}
EXTRA_ATTRS = ['bogus', 't:bogus', 'x:bogus']        # no namespace, target namespace, another namespace


def attr_ns(k: str) -> str:
    return {'t': TNS, 'x': XNS}[k.split(':')[0]] if ':' in k else ''


def expand_attr(k: str) -> str:
    return '{%s}%s' % (attr_ns(k), k.split(':')[1]) if ':' in k else k


def wildcard_admits(constraint: str, ns: str) -> bool:
    """XSD 1.0 namespace constraint of a wildcard, read from the specification (independent of /repo)"""
    if constraint == '##any':
        return True
    if constraint == '##other':
        return ns != '' and ns != TNS
    return any((tok == '##local' and ns == '') or (tok == '##targetNamespace' and ns == TNS) or tok == ns
               for tok in constraint.split())


def extra_attr_expected_invalid(elem_name: str, k: str) -> bool:
    """an undeclared attribute `k` on an element of the family: is the document expected to be invalid?"""
    if elem_name not in ATTR_WILDCARD:
        return True                              # simple-typed elements: no attribute is allowed
    constraint, pc = ATTR_WILDCARD[elem_name]
    return not wildcard_admits(constraint, attr_ns(k)) or pc == 'strict'


# typed leaves: (valid value, invalid value or None when every string is valid)
LEAF = {'title': ('T', None), 'date': ('2020-01-31', '2020-13-45'), 'flag': ('true', 'maybe'),
        'name': ('n1', '1 bad'), 'qty': ('3', '-3'), 'price': ('1.50', '1,5'), 'a': ('7', 'seven'),
        'b': ('tok', None), 'note': ('text', None)}
ATTR_BAD = {'version': 'v1', 'id': 'x9', 'kind': 'z', 'label': '1 l', 'lang': '!!'}
REQUIRED_ATTR = {'root': ['version'], 'item': ['id'], 'group': ['label']}
# strictly ordered required prefix of each content model (names that must appear exactly once, in order)
REQUIRED_CHILDREN = {'root': ['head'], 'head': ['title', 'date'], 'item': ['name', 'qty']}

_SCHEMAS: dict = {}


WILD_XSD = '''<xs:schema xmlns:xs="http://www.w3.org/2001/XMLSchema">
 <xs:element name="r"><xs:complexType><xs:sequence>
   <xs:element name="a" type="xs:int"/>
   <xs:any namespace="##any" processContents="skip" minOccurs="0" maxOccurs="unbounded"/>
  </xs:sequence></xs:complexType></xs:element>
</xs:schema>'''

BIG_XSD = '''<xs:schema xmlns:xs="http://www.w3.org/2001/XMLSchema">
 <xs:element name="r"><xs:complexType><xs:sequence>
   <xs:element name="item" maxOccurs="unbounded"><xs:complexType><xs:sequence>
     <xs:element name="q" type="xs:int" maxOccurs="unbounded"/></xs:sequence></xs:complexType></xs:element>
  </xs:sequence></xs:complexType></xs:element>
</xs:schema>'''


NA11_XSD = f'''<xs:schema xmlns:xs="http://www.w3.org/2001/XMLSchema" targetNamespace="{TNS}" xmlns:t="{TNS}"
 elementFormDefault="qualified">
 <xs:element name="r"><xs:complexType><xs:sequence>
   <xs:element name="c" type="xs:int" maxOccurs="unbounded"/>
   <xs:any notNamespace="##targetNamespace ##local" processContents="skip" minOccurs="0" maxOccurs="unbounded"/>
  </xs:sequence><xs:attribute name="v" type="xs:int"/>
  <xs:anyAttribute notNamespace="urn:x ##local" processContents="skip"/></xs:complexType></xs:element>
</xs:schema>'''


# the same local name in the target namespace, in no namespace and (wildcard, skip) in another namespace, freely
# interleaved among the siblings: the positional predicate of a step counts the siblings with the same EXPANDED name
SAME_XSD = f'''<xs:schema xmlns:xs="http://www.w3.org/2001/XMLSchema" targetNamespace="{TNS}" xmlns:t="{TNS}"
 elementFormDefault="unqualified">
 <xs:element name="r"><xs:complexType><xs:choice maxOccurs="unbounded">
   <xs:element name="e" form="qualified" type="t:E"/>
   <xs:element name="e" form="unqualified" type="t:E"/>
   <xs:any namespace="##other" processContents="skip"/>
  </xs:choice></xs:complexType></xs:element>
 <xs:complexType name="E"><xs:choice minOccurs="0" maxOccurs="unbounded">
   <xs:element name="v" form="qualified" type="xs:int"/>
   <xs:element name="v" form="unqualified" type="xs:int"/>
  </xs:choice><xs:attribute name="k" type="xs:int"/></xs:complexType>
</xs:schema>'''

# XSD 1.1 inheritable attributes (elements.py:716-723 copies the validation context below an element that carries one)
INH_XSD = '''<xs:schema xmlns:xs="http://www.w3.org/2001/XMLSchema">
 <xs:attributeGroup name="A"><xs:attribute name="lang" type="xs:language" inheritable="true"/>
  <xs:attribute name="n" type="xs:int"/></xs:attributeGroup>
 <xs:complexType name="S"><xs:simpleContent><xs:extension base="xs:int"><xs:attributeGroup ref="A"/></xs:extension>
  </xs:simpleContent></xs:complexType>
 <xs:complexType name="Z"><xs:attributeGroup ref="A"/></xs:complexType>
 <xs:complexType name="M" mixed="true"><xs:sequence>
   <xs:element name="b" type="xs:int" minOccurs="0" maxOccurs="unbounded"/><xs:element name="s" type="S" minOccurs="0"/>
  </xs:sequence><xs:attributeGroup ref="A"/></xs:complexType>
 <xs:complexType name="G"><xs:sequence>
   <xs:element name="b" type="xs:int"/><xs:element name="s" type="S" minOccurs="0" maxOccurs="unbounded"/>
   <xs:element name="z" type="Z" minOccurs="0"/><xs:element name="m" type="M" minOccurs="0"/>
   <xs:element name="g" type="G" minOccurs="0" maxOccurs="unbounded"/>
  </xs:sequence><xs:attributeGroup ref="A"/></xs:complexType>
 <xs:element name="r"><xs:complexType><xs:sequence>
   <xs:element name="a" type="xs:int" maxOccurs="unbounded"/><xs:element name="s" type="S" minOccurs="0" maxOccurs="unbounded"/>
   <xs:element name="g" type="G" minOccurs="0" maxOccurs="unbounded"/>
  </xs:sequence><xs:attributeGroup ref="A"/></xs:complexType></xs:element>
</xs:schema>'''


# nillable elements of every content kind: simple (s), simple with a default (d), simple content with an attribute (sc),
# element-only (c), mixed (m), empty (z); f has a fixed value (xsi:nil='true' is then an error), n is not nillable
NIL_XSD = '''<xs:schema xmlns:xs="http://www.w3.org/2001/XMLSchema">
 <xs:complexType name="C"><xs:sequence><xs:element name="b" type="xs:int"/></xs:sequence><xs:attribute name="k" type="xs:int"/></xs:complexType>
 <xs:complexType name="M" mixed="true"><xs:sequence><xs:element name="b" type="xs:int" minOccurs="0"/></xs:sequence>
  <xs:attribute name="k" type="xs:int"/></xs:complexType>
 <xs:complexType name="Z"><xs:attribute name="k" type="xs:int"/></xs:complexType>
 <xs:complexType name="SC"><xs:simpleContent><xs:extension base="xs:int"><xs:attribute name="k" type="xs:int"/></xs:extension>
  </xs:simpleContent></xs:complexType>
 <xs:element name="r"><xs:complexType><xs:sequence>
   <xs:element name="s" type="xs:int" nillable="true" maxOccurs="unbounded"/>
   <xs:element name="d" type="xs:int" nillable="true" default="5" minOccurs="0"/>
   <xs:element name="sc" type="SC" nillable="true" minOccurs="0" maxOccurs="unbounded"/>
   <xs:element name="c" type="C" nillable="true" minOccurs="0" maxOccurs="unbounded"/>
   <xs:element name="m" type="M" nillable="true" minOccurs="0" maxOccurs="unbounded"/>
   <xs:element name="z" type="Z" nillable="true" minOccurs="0"/>
   <xs:element name="f" type="xs:int" fixed="7" nillable="true" minOccurs="0"/>
   <xs:element name="n" type="xs:int" minOccurs="0"/>
 </xs:sequence></xs:complexType></xs:element></xs:schema>'''


# attributes and simple elements of every kind of simple type x value constraint (none / default / fixed):
# name -> (type, a valid value [the fixed / default value], another lexical form of the SAME value or None, a different valid
# value, a lexically invalid value)
VC_TYPES = {'int': ('xs:int', '7', '07', '8', 'x7'), 'dec': ('xs:decimal', '1.50', '1.5', '2.5', '1,5'),
            'date': ('xs:date', '2020-01-31', None, '2021-01-31', '2020-13-45'), 'bool': ('xs:boolean', 'true', '1', 'false', 'maybe'),
            'ncname': ('xs:NCName', 'abc', ' abc ', 'abd', '1 bad'), 'enum': ('Enum', 'x', None, 'y', 'z'),
            'qname': ('xs:QName', 'k:metre', 'k2:metre', 'k:foot', 'not a qname'), 'notation': ('Not', 'jpeg', None, 'png', 'gif'),
            'list': ('IntList', '1 2 3', '1  2 3', '1 2', '1 x'), 'union': ('U', '5', None, 'true', 'zz'),
            'lang': ('xs:language', 'en', None, 'fr', '!!')}
VC_KINDS = {'n': '', 'd': ' default="%s"', 'f': ' fixed="%s"'}


# value constraints on elements with COMPLEX content: fixed / default / none x mixed type admitting optional children (sequence b*,
# choice (b|i)*, no children at all) / simple type / simple content.  (XSD Part 1, Element Locally Valid 5.2.2: with a fixed
# value the element has NO element children, and for mixed content the text is the fixed string.)
FX_XSD = '''<xs:schema xmlns:xs="http://www.w3.org/2001/XMLSchema">
 <xs:complexType name="M" mixed="true"><xs:sequence><xs:element name="b" type="xs:int" minOccurs="0" maxOccurs="unbounded"/></xs:sequence>
  <xs:attribute name="k" type="xs:int"/></xs:complexType>
 <xs:complexType name="MC" mixed="true"><xs:choice minOccurs="0" maxOccurs="unbounded"><xs:element name="b" type="xs:int"/>
  <xs:element name="i" type="xs:string"/></xs:choice></xs:complexType>
 <xs:complexType name="MZ" mixed="true"/>
 <xs:complexType name="SC"><xs:simpleContent><xs:extension base="xs:int"><xs:attribute name="k" type="xs:int"/></xs:extension>
  </xs:simpleContent></xs:complexType>
 <xs:element name="r"><xs:complexType><xs:sequence>
   <xs:element name="fm" type="M" fixed="see below" minOccurs="0" maxOccurs="unbounded"/>
   <xs:element name="fc" type="MC" fixed="see below" minOccurs="0" maxOccurs="unbounded"/>
   <xs:element name="fz" type="MZ" fixed="see below" minOccurs="0" maxOccurs="unbounded"/>
   <xs:element name="dm" type="M" default="see below" minOccurs="0" maxOccurs="unbounded"/>
   <xs:element name="nm" type="M" minOccurs="0" maxOccurs="unbounded"/>
   <xs:element name="fs" type="xs:int" fixed="7" minOccurs="0" maxOccurs="unbounded"/>
   <xs:element name="fsc" type="SC" fixed="7" minOccurs="0" maxOccurs="unbounded"/>
 </xs:sequence></xs:complexType></xs:element></xs:schema>'''
FX_TEXT = 'see below'


def attr_xsd() -> str:
    attrs = ''.join(f'<xs:attribute name="a_{t}_{v}" type="{VC_TYPES[t][0]}"{VC_KINDS[v] % VC_TYPES[t][1] if v != "n" else ""}/>'
                    for t in VC_TYPES for v in VC_KINDS)
    elems = ''.join(f'<xs:element name="e_{t}_{v}" type="{VC_TYPES[t][0]}" minOccurs="0"'
                    f'{VC_KINDS[v] % VC_TYPES[t][1] if v != "n" else ""}/>' for t in VC_TYPES for v in VC_KINDS)
    return f'''<xs:schema xmlns:xs="http://www.w3.org/2001/XMLSchema" xmlns:k="urn:kinds">
 <xs:notation name="jpeg" public="image/jpeg"/><xs:notation name="png" public="image/png"/>
 <xs:simpleType name="Enum"><xs:restriction base="xs:token"><xs:enumeration value="x"/><xs:enumeration value="y"/></xs:restriction></xs:simpleType>
 <xs:simpleType name="Not"><xs:restriction base="xs:NOTATION"><xs:enumeration value="jpeg"/><xs:enumeration value="png"/></xs:restriction></xs:simpleType>
 <xs:simpleType name="IntList"><xs:list itemType="xs:int"/></xs:simpleType>
 <xs:simpleType name="U"><xs:union memberTypes="xs:int xs:boolean"/></xs:simpleType>
 <xs:element name="r"><xs:complexType><xs:sequence>
   <xs:element name="item" maxOccurs="unbounded"><xs:complexType><xs:simpleContent><xs:extension base="xs:decimal">
     <xs:attribute name="req" type="xs:NCName" use="required"/>{attrs}</xs:extension></xs:simpleContent></xs:complexType></xs:element>
   {elems}
 </xs:sequence></xs:complexType></xs:element></xs:schema>'''


def schema(form: str):
    if form == 'attr' and form not in _SCHEMAS:
        import xmlschema
        _SCHEMAS[form] = xmlschema.XMLSchema(attr_xsd())
    if form in ('nil10', 'nil11') and form not in _SCHEMAS:
        import xmlschema
        _SCHEMAS[form] = (xmlschema.XMLSchema10 if form == 'nil10' else xmlschema.XMLSchema11)(NIL_XSD)
    if form in ('fx10', 'fx11') and form not in _SCHEMAS:
        import xmlschema
        _SCHEMAS[form] = (xmlschema.XMLSchema10 if form == 'fx10' else xmlschema.XMLSchema11)(FX_XSD)
    if form not in _SCHEMAS:
        import xmlschema
        if form in ('na11', 'inh11'):
            _SCHEMAS[form] = xmlschema.XMLSchema11({'na11': NA11_XSD, 'inh11': INH_XSD}[form])
        else:
            _SCHEMAS[form] = xmlschema.XMLSchema({'wild': WILD_XSD, 'big': BIG_XSD, 'same': SAME_XSD}.get(form) or xsd(form))
    return _SCHEMAS[form]


# ------------------------------------------------------------------------------------------------
# documents as nested dicts {'n': local name, 'a': {attr: value}, 't': text or None, 'c': [children]}
def gen_item(rng) -> dict:
    c = [{'n': 'name', 'a': {}, 't': 'n1', 'c': []}, {'n': 'qty', 'a': {}, 't': '3', 'c': []}]
    if rng.random() < 0.5:
        c.append({'n': 'price', 'a': {}, 't': '1.50', 'c': []})
    for _ in range(rng.choice([0, 0, 1, 2])):
        k = rng.choice('ab')
        c.append({'n': k, 'a': {}, 't': LEAF[k][0], 'c': []})
    a = {'id': str(rng.randrange(100))}
    if rng.random() < 0.4:
        a['kind'] = rng.choice('xy')
    return {'n': 'item', 'a': a, 't': None, 'c': c}


def gen_group(rng, depth: int) -> dict:
    c = [gen_item(rng) for _ in range(rng.choice([0, 1, 1, 2, 3]))]
    if depth > 0:
        c += [gen_group(rng, depth - 1) for _ in range(rng.choice([0, 0, 1, 2]))]
    c += [ext(rng) for _ in range(rng.choice([0, 0, 0, 1, 2]))]
    a = {'label': 'g'}
    if rng.random() < 0.2:
        a['t:extra'] = 'anything'                 # admitted by the ##targetNamespace / skip attribute wildcard
    return {'n': 'group', 'a': a, 't': None, 'c': c}


def ext(rng) -> dict:
    """an element matched by an element wildcard (##other): not governed by a declaration, never a fault site"""
    return {'n': 'x:ext', 'a': ({'any': '1'} if rng.random() < 0.5 else {}), 't': rng.choice(['', 'free text']), 'c': []}


def gen_valid(rng, size: int) -> dict:
    head = {'n': 'head', 'a': ({'lang': 'en'} if rng.random() < 0.5 else {}), 't': None,
            'c': [{'n': 'title', 'a': {}, 't': 'T', 'c': []}, {'n': 'date', 'a': {}, 't': '2020-01-31', 'c': []}]
            + ([{'n': 'flag', 'a': {}, 't': 'true', 'c': []}] if rng.random() < 0.5 else [])}
    c = [head] + [gen_item(rng) for _ in range(rng.choice([1, 2, 3][:size + 1]))]
    c += [{'n': 'note', 'a': {}, 't': 'text', 'c': []} for _ in range(rng.choice([0, 1, 2, 3]))]
    c += [gen_group(rng, rng.choice([0, 1, 2][:size + 1])) for _ in range(rng.choice([0, 1, 2][:size + 1]))]
    c += [ext(rng) for _ in range(rng.choice([0, 0, 1, 2]))]
    a = {'version': '1'}
    if rng.random() < 0.3:
        a['x:meta'] = 'm'                         # admitted by the ##other / skip attribute wildcard of the root
    return {'n': 'root', 'a': a, 't': None, 'c': c}


def to_xml(d: dict, layout: str, form: str, comments: bool = False) -> str:
    """layout: 'prefixed' | 'default' | 'both'"""
    def name(n: dict, is_root: bool) -> str:
        if ':' in n['n']:
            return n['n']
        if form == 'unqualified' and not is_root:
            return n['n']
        return 't:' + n['n'] if layout in ('prefixed', 'both') else n['n']

    def ser(n: dict, is_root: bool, depth: int = 0) -> str:
        tag = name(n, is_root)
        attrs = ''.join(f' {k}="{v}"' for k, v in n['a'].items())
        if depth == 1 and form == 'unqualified' and layout == 'default':
            attrs = ' xmlns=""' + attrs          # local elements are in no namespace
        if is_root:
            attrs = f' xmlns:x="{XNS}"' + attrs
            if layout in ('prefixed', 'both'):
                attrs = f' xmlns:t="{TNS}"' + attrs
            if layout in ('default', 'both'):
                attrs = f' xmlns="{TNS}"' + attrs
        inner = (n['t'] or '') + ''.join(('<!--c-->' if comments else '') + ser(c, False, depth + 1) for c in n['c'])
        return f'<{tag}{attrs}>{inner}</{tag}>'
    return ser(d, True)


# ------------------------------------------------------------------------------------------------
# namespace declarations on NON-root elements.  The same document (same expanded names) is written with xmlns
# declarations placed where the plan says: `plan` maps a node position to a list of actions; every name is then
# written with a binding that is in scope at its element (declared on demand when there is none).
ONS = 'urn:o'                        # a namespace no name of the documents is in (target of rebindings)
NS_ACTIONS = ['newprefix', 'newdefault', 'rebind', 'swap', 'defaultother', 'redeclare', 'unused']
NS_RELS = ['self', 'parent', 'sibling', 'descendant', 'ancestor']
ROOT_STYLES = ['minimal', 'prefixed', 'default', 'both']


def node_ns(n: dict, is_root: bool, form: str) -> str:
    if 'ns' in n:
        return n['ns']
    if ':' in n['n']:
        return XNS
    return TNS if (is_root or form == 'qualified') else ''


def to_xml_scoped(d: dict, form: str, plan: dict, rng, comments: bool = False, root_style: str = 'minimal') -> str:
    counter = [0]

    def fresh(sc: dict, u: str) -> str:
        conv = {TNS: 't', XNS: 'x'}.get(u)
        if conv and conv not in sc and rng.random() < 0.5:
            return conv
        while True:
            counter[0] += 1
            p = 'p%d' % counter[0]
            if p not in sc:
                return p

    def ser(n: dict, pos: tuple, scope: dict) -> str:
        u = node_ns(n, not pos, form)
        decls: dict = {}
        sc = dict(scope)

        def declare(p: str, v: str) -> None:
            decls[p] = v
            sc[p] = v
        if not pos:
            if root_style in ('prefixed', 'both'):
                declare('t', TNS)
            if root_style in ('default', 'both'):
                declare('', TNS)
            if root_style != 'minimal' or rng.random() < 0.5:
                declare('x', XNS)
        for act in plan.get(pos, ()):
            if act == 'newprefix':
                v = u or TNS
                declare(fresh(sc, v), v)
            elif act == 'newdefault':
                declare('', u)                      # for an element in no namespace: xmlns=""
            elif act == 'defaultother':
                declare('', rng.choice([x for x in (XNS, ONS, TNS) if x != u]))
            elif act in ('rebind', 'swap'):
                pt = [p for p, v in sc.items() if p and v == TNS]
                px = [p for p, v in sc.items() if p and v == XNS]
                if act == 'swap' and pt and px:
                    a, b = rng.choice(pt), rng.choice(px)
                    declare(a, XNS)
                    declare(b, TNS)
                else:
                    ps = [p for p in sc if p]
                    if ps:
                        p = rng.choice(ps)
                        declare(p, rng.choice([x for x in (TNS, XNS, ONS) if x != sc[p]]))
                    else:
                        declare(fresh(sc, u or TNS), u or TNS)
            elif act == 'redeclare':
                ps = [p for p in sc if sc[p]]
                if ps:
                    p = rng.choice(ps)
                    declare(p, sc[p])
            elif act == 'unused':
                declare(fresh(sc, ''), 'urn:unused')

        def pick(v: str, attr: bool) -> str:
            """a prefix bound to `v` in scope ('' = the default namespace, never for attributes)"""
            cands = [p for p, w in sc.items() if w == v and (p or not attr)]
            if not cands:
                if not attr and rng.random() < 0.4:
                    declare('', v)
                    return ''
                p = fresh(sc, v)
                declare(p, v)
                return p
            here = [p for p in cands if p in decls]
            return rng.choice(here) if here and rng.random() < 0.8 else rng.choice(cands)
        loc = n['n'].split(':')[-1]
        if u:
            p = pick(u, False)
            tag = f'{p}:{loc}' if p else loc
        else:
            if sc.get('', ''):
                declare('', '')
            tag = loc
        attrs = ''
        for k, v in n['a'].items():
            if ':' in k:
                p = pick(attr_ns(k), True)
                k = p + ':' + k.split(':')[1]
            attrs += f' {k}="{v}"'
        xmlns = ''.join(f' xmlns:{p}="{v}"' if p else f' xmlns="{v}"' for p, v in decls.items())
        inner = (n['t'] or '') + ''.join(('<!--c-->' if comments else '') + ser(c, pos + (i,), sc)
                                         for i, c in enumerate(n['c']))
        return f'<{tag}{xmlns}{attrs}>{inner}</{tag}>'
    return ser(d, (), {})


def make_plan(d: dict, ref: tuple, rel: str, kind: str, rng, sprinkle: float = 0.06) -> dict:
    """an action of `kind` at the node that stands in relation `rel` to the node at `ref` (falls back to the node
    itself when there is no such node), plus a few random actions elsewhere"""
    site = ref
    if rel == 'parent' and ref:
        site = ref[:-1]
    elif rel == 'ancestor' and len(ref) >= 2:
        site = ref[:rng.randrange(1, len(ref))]
    elif rel == 'sibling' and ref and len(at(d, ref[:-1])['c']) >= 2:
        site = ref[:-1] + (rng.choice([i for i in range(len(at(d, ref[:-1])['c'])) if i != ref[-1]]),)
    elif rel == 'descendant' and at(d, ref)['c']:
        site = ref + (rng.randrange(len(at(d, ref)['c'])),)
        if at(d, site)['c'] and rng.random() < 0.3:
            site = site + (rng.randrange(len(at(d, site)['c'])),)
    plan = {site: [kind]}
    for pos, _n in nodes(d):
        if rng.random() < sprinkle:
            plan.setdefault(pos, []).append(rng.choice(NS_ACTIONS))
    return plan


def nodes(d: dict, pos: tuple = ()):
    yield pos, d
    for i, c in enumerate(d['c']):
        yield from nodes(c, pos + (i,))


def clone(d: dict) -> dict:
    return {'n': d['n'], 'a': dict(d['a']), 't': d['t'], 'c': [clone(c) for c in d['c']]}


def at(d: dict, pos: tuple) -> dict:
    for i in pos:
        d = d['c'][i]
    return d


def _attrs(a: dict) -> list:
    return sorted([expand_attr(k), v] for k, v in a.items())


def faults_at(d: dict, pos: tuple, rng, layout: str = 'prefixed') -> list:
    """single-node faults applicable at the node: (kind, mutated document, damaged position, model fault).
    The model fault is the `Fault` of lean/XsVerif/Model/Localise.lean that denotes the same damage ('BOGUS' stands
    for the expanded name of the extra child, which depends on the layout of the document)."""
    n = at(d, pos)
    out = []
    nm = n['n']
    if ':' in nm:
        return out                                # matched by an element wildcard: not governed, not a fault site
    if nm in LEAF and LEAF[nm][1] is not None:
        m = clone(d)
        at(m, pos)['t'] = LEAF[nm][1]
        out.append(('bad value', m, pos, {'k': 'relabel', 'p': list(pos), 'a': _attrs(n['a']), 'x': LEAF[nm][1]}))
    for k in n['a']:
        if k not in ATTR_BAD:
            continue                              # an attribute admitted by a skip wildcard has no bad value
        m = clone(d)
        at(m, pos)['a'][k] = ATTR_BAD[k]
        out.append(('bad attribute value', m, pos,
                    {'k': 'relabel', 'p': list(pos), 'a': _attrs(at(m, pos)['a']), 'x': n['t'] or ''}))
    for k in REQUIRED_ATTR.get(nm, []):
        m = clone(d)
        del at(m, pos)['a'][k]
        out.append(('missing attribute', m, pos,
                    {'k': 'relabel', 'p': list(pos), 'a': _attrs(at(m, pos)['a']), 'x': n['t'] or ''}))
    for k in EXTRA_ATTRS:
        if k.startswith('t:') and layout == 'default':
            continue                              # no prefix for the target namespace in this layout
        m = clone(d)
        at(m, pos)['a'][k] = '1'
        kind = 'extra attribute' if extra_attr_expected_invalid(nm, k) else 'admitted attribute'
        out.append((kind, m, pos, {'k': 'relabel', 'p': list(pos), 'a': _attrs(at(m, pos)['a']), 'x': n['t'] or ''}))
    if nm in REQUIRED_CHILDREN:
        req = REQUIRED_CHILDREN[nm]
        i = rng.randrange(len(req))
        m = clone(d)
        del at(m, pos)['c'][i]
        out.append(('missing child', m, pos, {'k': 'remove', 'q': list(pos), 'i': i}))
        if len(req) >= 2:
            m = clone(d)
            c = at(m, pos)['c']
            c[0], c[1] = c[1], c[0]
            out.append(('misplaced child', m, pos + (0,), {'k': 'move', 'q': list(pos), 'i': 1, 'j': 0}))
    bogus = {'t': 'BOGUS', 'a': [], 'x': '', 'c': []}
    if nm not in LEAF:
        m = clone(d)
        c = at(m, pos)['c']
        i = rng.randrange(len(c) + 1)
        c.insert(i, {'n': 'bogus', 'a': {}, 't': None, 'c': []})
        out.append(('extra child', m, pos + (i,), {'k': 'insert', 'q': list(pos), 'i': i, 'c': bogus}))
    else:
        m = clone(d)
        at(m, pos)['c'].append({'n': 'bogus', 'a': {}, 't': None, 'c': []})
        out.append(('extra child', m, pos + (0,), {'k': 'insert', 'q': list(pos), 'i': 0, 'c': bogus}))
    return out


# ------------------------------------------------------------------------------------------------
STEP = re.compile(r'^(\{[^}]*\}[^\[\]/]+|[^\[\]/{}]+)(?:\[(\d+)\])?$')


def expand(name: str, ns: dict) -> Optional[str]:
    if name[:1] == '{':
        return name
    if ':' in name:
        p, loc = name.split(':', 1)
        return '{%s}%s' % (ns[p], loc) if ns.get(p) else None
    return '{%s}%s' % (ns[''], name) if ns.get('') else name


def split_steps(path: str) -> list:
    parts, cur, depth = [], '', 0
    for ch in path[1:]:
        if ch == '{':
            depth += 1
        elif ch == '}':
            depth -= 1
        if ch == '/' and depth == 0:
            parts.append(cur)
            cur = ''
        else:
            cur += ch
    parts.append(cur)
    return parts


def only_f1_wrong(root, pos: tuple, path: Optional[str], ns: dict) -> bool:
    """C19-F1 is the ONLY thing wrong with the path: step by step along the chain root -> element, the positional
    predicate is the one XPath needs (position among the siblings with the same expanded name, written iff there are
    several), every step name read with `ns` denotes the element's expanded name, except that the steps of elements in
    NO namespace are bare local names although `ns` binds the empty prefix (at least one such step)."""
    if not path or not path.startswith('/') or not ns.get(''):
        return False
    parts = split_steps(path)
    if len(parts) != len(pos) + 1:
        return False
    e, parent, bare = root, None, 0
    for k, part in enumerate(parts):
        m = STEP.match(part)
        if not m:
            return False
        if k:
            parent, e = e, elem_children(e)[pos[k - 1]]
            same = [c for c in elem_children(parent) if c.tag == e.tag]
            want = None if len(same) == 1 else str(1 + [id(c) for c in same].index(id(e)))
        else:
            want = None
        if m.group(2) != want:
            return False
        if e.tag[:1] != '{':
            if m.group(1) != e.tag:
                return False
            bare += 1
        elif expand(m.group(1), ns) != e.tag:
            return False
    return bare > 0


def etree_find(root, path: str, ns: dict, parser: str) -> Any:
    """the path read by ElementTree's / lxml's own findall with the error's map (the root step is checked here,
    because ElementPath is relative to the element it is called on)"""
    parts = split_steps(path) if path.startswith('/') else None
    if not parts:
        return 'unreadable'
    m = STEP.match(parts[0])
    name = expand(m.group(1), ns) if m else None
    if name is None:
        return 'unreadable'
    if root.tag != name or m.group(2) not in (None, '1'):
        return []
    if len(parts) == 1:
        return [root]
    # the default namespace is applied here: CPython's ElementPath tokenizer also qualifies the digits of a positional
    # predicate with it (`item[2]` -> `item[{urn:t}2]`), a defect of CPython and not of the library under check
    nsarg = {k: v for k, v in ns.items() if k}
    steps = []
    for part in parts[1:]:
        m = STEP.match(part)
        if not m:
            return 'unreadable'
        nm = m.group(1)
        if nm[:1] != '{' and ':' not in nm and ns.get(''):
            nm = '{%s}%s' % (ns[''], nm)
        steps.append(nm + (f'[{m.group(2)}]' if m.group(2) else ''))
    try:
        return root.findall('./' + '/'.join(steps), nsarg)
    except (SyntaxError, KeyError, ValueError) as exc:
        return 'unreadable: ' + type(exc).__name__


def resource_find(source, path: str, ns: dict) -> Any:
    """XMLResource.findall (elementpath) with the error's map"""
    try:
        return source.findall(path, namespaces=ns)
    except Exception as exc:  # noqa
        return 'unreadable: ' + type(exc).__name__ + ' ' + str(exc)[:80]


def xpath_select(root, path: str, ns: dict) -> Optional[list]:
    """elements selected by an absolute path of child steps; None = the path cannot be read"""
    if not path.startswith('/'):
        return None
    # split on '/' outside braces
    parts, cur, depth = [], '', 0
    for ch in path[1:]:
        if ch == '{':
            depth += 1
        elif ch == '}':
            depth -= 1
        if ch == '/' and depth == 0:
            parts.append(cur)
            cur = ''
        else:
            cur += ch
    parts.append(cur)
    sel = None
    for k, part in enumerate(parts):
        m = STEP.match(part)
        if not m:
            return None
        name = expand(m.group(1), ns)
        if name is None:
            return None
        idx = int(m.group(2)) if m.group(2) else None
        if k == 0:
            cand = [root] if root.tag == name else []
            sel = cand if idx in (None, 1) else []
        else:
            nxt = []
            for e in sel:
                same = [c for c in e if not callable(c.tag) and c.tag == name]
                if idx is None:
                    nxt.extend(same)
                elif 1 <= idx <= len(same):
                    nxt.append(same[idx - 1])
            sel = nxt
    return sel


def elem_children(e) -> list:
    return [c for c in e if not callable(c.tag)]


def position_of(root, elem) -> Optional[tuple]:
    """child-index path (element children only) of elem in the tree, by identity"""
    stack = [(root, ())]
    while stack:
        e, pos = stack.pop()
        if e is elem:
            return pos
        for i, c in enumerate(elem_children(e)):
            stack.append((c, pos + (i,)))
    return None


def split_tag(tag: str) -> list:
    return tag[1:].split('}', 1) if tag[:1] == '{' else ['', tag]


def qtree(e) -> dict:
    """the tree of expanded names"""
    return {'q': split_tag(e.tag), 'c': [qtree(c) for c in elem_children(e)]}


def rendered_tree(e, ns: dict) -> dict:
    from xmlschema.utils.qnames import get_prefixed_qname
    return {'t': get_prefixed_qname(e.tag, ns) if ns else e.tag, 'c': [rendered_tree(c, ns) for c in elem_children(e)]}


def known_match(case: dict, detail: dict) -> Optional[str]:
    """C19-F1: a step for an element in no namespace is written as a bare local name while the error's
    namespace map binds the empty prefix, so a reader takes it into the default namespace."""
    if detail.get('kind') == 'path' and 'only_f1' in detail:
        # exact: the three readers agree (the path selects nothing, or same-named elements of the default namespace),
        # and the bare steps of no-namespace elements under a bound default are the only thing wrong with the path
        # (`only_f1_wrong`): a path written with a stale or foreign namespace map, a wrong position, a wrong name are
        # NOT this finding
        return 'C19-F1' if detail['only_f1'] else None
    if detail.get('kind') == 'path' and (detail.get('namespaces') or {}).get('') and detail.get('nons_step') \
            and not detail.get('selected') and 'rendered' in detail:
        return 'C19-F1'                           # `renders`: a single name
    # (C19-F3 = C04-F5, errors lost in a copied validation context, is fixed by 38d1916: no matcher remains, a single
    # fault that is reported valid is a violation)
    # C19-F2: the content model of the damaged node's parent is broken by the fault, the schema family has a wildcard
    # beside a same-named declaration, and every out-of-zone error lies at or below a *sibling* of the damaged node
    # (the siblings are re-matched by name once the model is broken, groups.py:1013-1041).
    if detail.get('kind') == 'zone' and case.get('form') == 'wild' and detail.get('children_error_at_parent'):
        dm = tuple(detail['damaged'])
        out = [tuple(p) for p in detail['located'] if not py_in_zone(dm, tuple(p))]
        if dm and out and all(len(p) >= len(dm) and p[:len(dm) - 1] == dm[:-1] for p in out):
            return 'C19-F2'
    return None


def load_local_findings() -> list:
    from harness.core import VERIF
    p = VERIF / 'notes' / 'findings' / 'C19.json'
    if not p.exists():
        return []
    return [e for e in json.loads(p.read_text()).get('findings', []) if e.get('property') == 'C19']



# ------------------------------------------------------------------------------------------------
# Fault localisation: observation tables (hypotheses H-own, H-gov of Props/C19.lean) and the model's prediction
CHILDREN_ERR = 'XMLSchemaChildrenValidationError'
# names are spelt with whatever prefix the namespace map in force offers: not part of what an error is
_NSNOISE = re.compile(r"\{[^}]*\}|\b[\w.-]+:(?=[A-Za-z_])")


def own_text(e) -> str:
    """the element's own character data: its text and the tails of its children"""
    return (e.text or '') + ''.join((c.tail or '') for c in e)


def doc_of(e) -> dict:
    return {'t': e.tag, 'a': sorted([k, v] for k, v in e.attrib.items()), 'x': own_text(e),
            'c': [doc_of(c) for c in elem_children(e)]}


def err_sig(e) -> str:
    """what an error is, without what depends on the spelling of names (prefixes) or on comments"""
    cls = type(e).__name__
    if cls == CHILDREN_ERR:
        eidx = sum(1 for c in list(e.elem)[:e.index] if not callable(c.tag)) if e.elem is not None else e.index
        return f'{cls}|{eidx}|{e.occurs}|{e.invalid_tag}'
    return cls + '|' + _NSNOISE.sub('', str(e.reason or ''))[:90]


class Tables:
    """first observation of a key defines the row; every later observation is compared with it"""

    def __init__(self) -> None:
        self.decl: dict = {}       # id(xsd element) -> small int
        self.keep: list = []
        self.own: dict = {}        # (d, tag, attrs, text, names) -> (pre sigs, post sigs)
        self.gov: dict = {}        # (d, child tag) -> d' | None
        self.own_checks = self.gov_checks = 0
        self.own_conflicts: list = []
        self.gov_conflicts: list = []

    def decl_id(self, xsd) -> int:
        k: Any = id(xsd)
        parent = getattr(xsd, 'parent', None)
        if type(parent).__name__.startswith('XsdAnyElement') or type(parent).__name__.startswith('Xsd11AnyElement'):
            # wildcards.py:540-543: a lax/strict wildcard without a matching global declaration validates the child
            # against a freshly created xs:anyType element: one declaration per (wildcard, name)
            k = ('created', id(parent), xsd.name)
        if k not in self.decl:
            self.decl[k] = len(self.decl)
            self.keep.append(xsd)
        return self.decl[k]

    def observe(self, root, used: dict, errors: list) -> Optional[dict]:
        """used: id(element) -> declaration id (from validation_hook).  Returns what the model needs for this
        document: root declaration, own rows and gov rows of the elements that were validated."""
        by_elem: dict = {}
        for e in errors:
            by_elem.setdefault(id(e.elem), []).append(e)
        if id(root) not in used:
            return None
        own_rows, gov_rows = [], []
        stack = [root]
        while stack:
            el = stack.pop()
            d = used[id(el)]
            kids = elem_children(el)
            names = [c.tag for c in kids]
            es = by_elem.get(id(el), [])
            seen = ([err_sig(x) for x in es if type(x).__name__ != CHILDREN_ERR],
                    [err_sig(x) for x in es if type(x).__name__ == CHILDREN_ERR])
            key = (d, el.tag, tuple(map(tuple, sorted(el.attrib.items()))), own_text(el), tuple(names))
            if key in self.own:
                self.own_checks += 1
                if self.own[key] != seen:
                    self.own_conflicts.append({'key': list(map(str, key)), 'first': self.own[key], 'now': seen})
            else:
                self.own[key] = seen
            first = self.own[key]
            own_rows.append({'d': d, 't': el.tag, 'a': [list(p) for p in key[2]], 'x': key[3], 'n': names,
                             'pre': first[0], 'post': first[1]})
            for c in kids:
                g = used.get(id(c))
                gk = (d, c.tag)
                if gk in self.gov:
                    self.gov_checks += 1
                    if self.gov[gk] != g:
                        self.gov_conflicts.append({'key': list(map(str, gk)), 'first': self.gov[gk], 'now': g})
                else:
                    self.gov[gk] = g
                gov_rows.append({'d': d, 'n': c.tag, 'g': self.gov[gk]})
                if g is not None:
                    stack.append(c)
        return {'d0': used[id(root)], 'own': own_rows, 'gov': gov_rows}


def validate_observed(form_schema, source, tabs: Optional[Tables], lax_for: Optional[set] = None):
    """iter_errors with the public validation_hook recording the declaration used for every element.  `lax_for`: ids of
    the elements for which the hook answers 'lax' (None = every element when the set is None and ... see `hook_set`):
    a hook that returns a validation mode makes XsdElement.raw_decode continue in a COPY of the validation context
    (elements.py:629-636); with validation='lax' already in force the outcome must be the same"""
    used: dict = {}

    def hook(elem, xsd_element):
        if tabs is not None:
            used[id(elem)] = tabs.decl_id(xsd_element)
        return 'lax' if lax_for is not None and (not lax_for or id(elem) in lax_for) else False
    errors = list(form_schema.iter_errors(source, validation_hook=hook))
    return errors, used


def hook_set(root, mode: Optional[str], damaged: Optional[tuple]) -> Optional[set]:
    """None = the hook never answers a mode; empty set = for every element; else the ids of the chosen elements:
    'near' = the damaged node and its parent, 'chain' = the damaged node and all its ancestors"""
    if not mode:
        return None
    if mode == 'all' or damaged is None:
        return set()
    ps = [damaged, damaged[:-1]] if mode == 'near' else [damaged[:k] for k in range(len(damaged) + 1)]
    out = {id(x) for x in (at_elem_opt(root, p) for p in ps) if x is not None}
    return out or set()


def py_in_zone(damaged: tuple, p: tuple) -> bool:
    return p == damaged[:len(p)] or p[:len(damaged)] == damaged


def py_near(damaged: tuple, p: tuple) -> bool:
    return p == damaged or p == damaged[:-1]

def run_case(ctx: Ctx, case: dict, xml: str, form: str, parser: str, damaged: Optional[tuple],
             reqs: list, pend: list, tabs: Optional[Tables] = None, loc: Optional[dict] = None,
             sch=None, defer_valid: Optional[list] = None) -> Optional[dict]:
    import xmlschema
    if parser == 'lxml':
        import lxml.etree as LE
        source = xmlschema.XMLResource(LE.fromstring(xml.encode()))
    else:
        source = xmlschema.XMLResource(xml)
    root = source.root
    sch = sch or schema(form)
    obs = None
    if tabs is not None or case.get('hook'):
        errors, used = validate_observed(sch, source, tabs, hook_set(root, case.get('hook'), damaged))
        if case.get('hook'):
            ctx.count('validation_hook answers a mode (context copy): ' + case['hook'])
    else:
        errors = list(sch.iter_errors(source))
    ctx.count(f'errors per case:{min(len(errors), 4)}' + ('+' if len(errors) >= 4 else ''))
    if damaged is None:
        if errors:
            ctx.failure('generated valid document reported invalid', case, {'errors': [str(e.reason) for e in errors[:3]]})
            return None
        if tabs is not None:
            obs = tabs.observe(root, used, errors)
            if obs is not None:
                obs['doc'] = doc_of(root)
        return obs
    if not errors and defer_valid is not None:
        defer_valid.append(case)                  # judged by the caller (content-model family: C01-F0 classification)
        return None
    if not errors:
        detail = {'kind': 'valid', 'damaged': list(damaged)}
        fid = known_match(case, detail)
        if fid:
            ctx.known_hit(fid)
            ctx.count('known:' + fid)
            ctx.case(case, False, tag=f"{case['fault']}/{parser} (reported valid: {fid})")
        else:
            ctx.failure('a document damaged at a single node is reported valid', case, detail)
        return
    located = []
    nontrivial = False
    positions = []
    for e in errors:
        ctx.count('error class:' + type(e).__name__)
        if e.elem is None:
            ctx.failure('validation error without an element (and so without a path: no reader can locate it)', case,
                        {'reason': str(e.reason), 'path': e.path, 'class': type(e).__name__})
            return
        pos = position_of(root, e.elem)
        if pos is None:
            ctx.failure('error element is not a node of the document', case, {'reason': str(e.reason)})
            return
        if e.path is None:
            ctx.failure('validation error without a path (no reader can locate it)', case,
                        {'reason': str(e.reason), 'element_position': list(pos)})
            return
        # the path as a user reads it: with the error's own namespaces, through the library's own find
        # (XMLResource.findall), ElementTree's / lxml's findall and an independent evaluator
        path = e.path
        ns = dict(e.namespaces or {})
        sel = xpath_select(root, path, ns) if path else None
        readers = {'independent': sel if sel is not None else 'unreadable'}
        if path:
            readers['XMLResource.findall'] = resource_find(source, path, ns)
            readers['ElementTree.findall'] = etree_find(root, path, ns, parser)
        if any(not isinstance(r, list) or len(r) != 1 or r[0] is not e.elem for r in readers.values()):
            chain = [at_elem(root, pos[:k]) for k in range(1, len(pos) + 1)]
            shown = {k: (r if not isinstance(r, list) else [position_of(root, x) for x in r]) for k, r in readers.items()}
            detail = {'kind': 'path', 'path': path, 'namespaces': ns,
                      'selected': None if sel is None else [position_of(root, x) for x in sel],
                      'readers': shown, 'only_f1': only_f1_wrong(root, pos, path, ns) and
                      all(isinstance(r, list) and r == sel for r in readers.values()),
                      'nons_step': any(x.tag[:1] != '{' for x in chain), 'element': e.elem.tag,
                      'element_position': list(pos), 'reason': str(e.reason)[:120]}
            fid = known_match(case, detail)
            if fid:
                ctx.known_hit(fid)
                ctx.count('known:' + fid)
            else:
                ctx.failure('error path does not select exactly the element the error is about', case, detail)
                return
        else:
            ctx.count('error path read with the error\'s namespaces by 3 readers: exactly the element')
        if any(source.get_xmlns(at_elem(root, pos[:k])) for k in range(1, len(pos) + 1)):
            ctx.count('errors at or below a non-root element with xmlns declarations')
        located.append(pos)
        positions.append((list(pos), path, ns, None if sel is None else [list(position_of(root, x)) for x in sel]))
        parent = at_elem(root, pos[:-1]) if pos else None
        if len(pos) >= 2 or (parent is not None and sum(1 for c in elem_children(parent) if c.tag == e.elem.tag) > 1):
            nontrivial = True
    # location clause
    anc = [damaged[:k] for k in range(len(damaged) + 1)]
    ok_zone = all(p in anc or p[:len(damaged)] == damaged for p in located)
    near = any(p == damaged or p == damaged[:-1] for p in located)
    if not ok_zone:
        detail = {'kind': 'zone', 'damaged': list(damaged), 'located': [list(p) for p in located],
                  'children_error_at_parent': any(type(e).__name__ == CHILDREN_ERR and
                                                  position_of(root, e.elem) == damaged[:-1] for e in errors)}
        fid = known_match(case, detail)
        if fid:
            ctx.known_hit(fid)
            ctx.count('known:' + fid)
        else:
            ctx.failure('an error is located outside the damaged node\'s ancestor chain and subtree', case, detail)
    elif not near:
        ctx.failure('no error is located at the damaged node or its parent', case,
                    {'damaged': list(damaged), 'located': [list(p) for p in located]})
    ctx.case(case, nontrivial, tag=f"{case['fault']}/{parser}")
    # model side: etree_getpath on the tree of expanded names, the names written with the map the error carries and
    # read back with it (Model/PathsNs.lean); one request per distinct map (the errors of a run share one)
    by_ns: dict = {}
    for p in positions:
        by_ns.setdefault(json.dumps(list(p[2].items())), []).append(p)
    qt = qtree(root)
    for key, ps in by_ns.items():
        reqs.append({'op': 'nspath', 'tree': qt, 'ns': json.loads(key), 'read': json.loads(key), 'pos': [p[0] for p in ps]})
        pend.append((case, ps))
    # fault-localisation model: the table-driven validator's prediction for `Fault.apply fault valid_doc`
    if tabs is not None and loc is not None and loc.get('valid') is not None:
        obs = tabs.observe(root, used, errors)
        if obs is not None:
            loc['rows'].update(json.dumps(r, sort_keys=True) for r in obs['own'])
            loc['govs'].update(json.dumps(r, sort_keys=True) for r in obs['gov'])
            loc['faults'].append(loc['fault'])
            loc['pend'].append((case, doc_of(root), list(damaged),
                                [(list(position_of(root, e.elem)), err_sig(e)) for e in errors]))
    return None


def new_loc(valid: Optional[dict]) -> dict:
    loc = {'valid': valid, 'faults': [], 'pend': [], 'rows': set(), 'govs': set()}
    if valid is not None:
        loc['rows'].update(json.dumps(r, sort_keys=True) for r in valid['own'])
        loc['govs'].update(json.dumps(r, sort_keys=True) for r in valid['gov'])
    return loc


def loc_request(loc: dict) -> Optional[dict]:
    if loc['valid'] is None or not loc['faults']:
        return None
    # a key observed with two different values would make the table ambiguous: H-own / H-gov conflicts are
    # reported by Tables; here the first observation wins (rows are sorted, the driver takes the first match)
    return {'op': 'localise', 'doc': loc['valid']['doc'], 'd0': loc['valid']['d0'], 'faults': loc['faults'],
            'own': [json.loads(r) for r in sorted(loc['rows'])], 'gov': [json.loads(r) for r in sorted(loc['govs'])]}


def compare_localise(ctx: Ctx, drv: Driver, locs: list, expect_local: bool = True) -> None:
    """model: errs (tableVal own gov) d0 (Fault.apply fault valid_doc)  vs  real: iter_errors of the damaged XML"""
    live = [(l, loc_request(l)) for l in locs]
    live = [(l, r) for l, r in live if r is not None]
    for (l, _), m in zip(live, drv.query([r for _, r in live])):
        if 'err' in m:
            ctx.mismatch('driver error (localise)', l['pend'][0][0] if l['pend'] else None, None, m)
            continue
        if not m['valid0']:
            if not expect_local:
                # the family where (H-gov) fails: no name-local Val reproduces the validator on the valid document
                ctx.count('non-local family: the name-local tables reject the valid document', len(l['pend']))
                ctx.traces += len(l['pend'])
                continue
            ctx.mismatch('the observation tables do not accept the valid document', l['pend'][0][0], True, False)
        for (case, real_doc, damaged, real_errs), r in zip(l['pend'], m['r']):
            ctx.traces += 1
            ctx.count('localise comparisons')
            if r['mut'] != real_doc:
                ctx.mismatch('Fault.apply vs the damaged document that was validated', case, real_doc, r['mut'])
                continue
            if r['damaged'] != damaged:
                ctx.mismatch('Fault.damaged vs the damaged node of the catalogue', case, damaged, r['damaged'])
                continue
            model_errs = [(e['pos'], e['sig']) for e in r['errs']]
            if model_errs != real_errs:
                if expect_local:
                    ctx.mismatch('errors predicted by the table-driven Val vs iter_errors (positions, order, kinds)',
                                 case, real_errs, model_errs)
                else:
                    ctx.count('non-local family: prediction by a name-local Val differs from iter_errors')
                continue
            if not r['effective']:
                if expect_local:
                    ctx.mismatch('H-eff: the fault is not effective for the observed validator', case, True, False)
                else:
                    ctx.count('non-local family: fault not effective at its site (the error is at the moved child)')
                continue
            ctx.count('localise: hypotheses hold and prediction equals iter_errors')
            dm = tuple(damaged)
            for e in r['errs']:
                if e['zone'] != py_in_zone(dm, tuple(e['pos'])) or e['near'] != py_near(dm, tuple(e['pos'])):
                    ctx.mismatch('inZone/near (Lean) vs the harness evaluation', case,
                                 [py_in_zone(dm, tuple(e['pos'])), py_near(dm, tuple(e['pos']))], [e['zone'], e['near']])
            # the instance of observed_fault_localised
            if not (r['errs'] and any(e['near'] for e in r['errs']) and all(e['zone'] for e in r['errs'])):
                ctx.mismatch('observed_fault_localised instance', case, None, r['errs'])


def at_elem(root, pos: tuple):
    e = root
    for i in pos:
        e = elem_children(e)[i]
    return e


def compare(ctx: Ctx, drv: Driver, reqs: list, pend: list) -> None:
    for (case, positions), m in zip(pend, drv.query(reqs)):
        if 'err' in m:
            ctx.mismatch('driver error', case, None, m)
            continue
        for (pos, path, ns, sel), r in zip(positions, m['r']):
            ctx.traces += 1
            if r['path'] != path:
                ctx.mismatch('error.path vs model getPath on expanded names + renderPath with the error\'s map',
                             case, path, r['path'])
            elif r['sel'] != sel:
                ctx.mismatch('model userSelect vs the harness reading of the path (error\'s map)', case, sel, r['sel'])
            elif sel == [pos]:
                ctx.count('path read with the error\'s map selects exactly the element (model and real)')


def explore(ctx: Ctx, drv: Optional[Driver], tabs: Optional[Tables] = None, n_docs: Optional[int] = None,
            stop_after: int = 40, deadline: Optional[float] = None) -> None:
    import time
    rng = ctx.rng
    n_docs = n_docs or ctx.pick(70, 700)
    reqs: list = []
    pend: list = []
    layouts = ['prefixed', 'default', 'both']
    rot = [rng.randrange(1000)]
    for di in range(n_docs):
        size = rng.choice([0, 1, 1, 2])
        doc = gen_valid(rng, size)
        form = 'qualified' if di % 3 else 'unqualified'
        layout = layouts[di % 3] if form == 'qualified' else ('default' if di % 2 else 'prefixed')
        comments = rng.random() < 0.3
        if layout == 'default':                    # no prefix for attributes in the target namespace
            for _p, n in nodes(doc):
                n['a'] = {k: v for k, v in n['a'].items() if not k.startswith('t:')}
        nn = list(nodes(doc))
        ctx.count(f'document nodes:{len(nn) // 10 * 10}+')
        base = {'doc': di, 'form': form, 'layout': layout, 'comments': comments}
        locs = {}
        for parser in ('etree', 'lxml'):
            vobs = run_case(ctx, dict(base, fault=None, parser=parser, xml=to_xml(doc, layout, form, comments)),
                            to_xml(doc, layout, form, comments), form, parser, None, reqs, pend, tabs=tabs)
            locs[parser] = new_loc(vobs)
        bogus_tag = ('{%s}bogus' % TNS) if form == 'qualified' else 'bogus'
        exhaustive = len(nn) <= 40
        chosen = nn if exhaustive else rng.sample(nn, 40)
        # the valid document again with its declarations on non-root elements: same expanded names, must stay valid
        for _k in range(2):
            vplan = make_plan(doc, rng.choice(nn)[0], rng.choice(NS_RELS), rng.choice(NS_ACTIONS), rng, 0.15)
            vxml = to_xml_scoped(doc, form, vplan, rng, comments, rng.choice(ROOT_STYLES))
            for parser in ('etree', 'lxml'):
                case = dict(base, fault=None, nsplan='scoped', parser=parser, xml=vxml)
                ctx.case(case, False, tag=f'valid document, scoped declarations/{parser}')
                run_case(ctx, case, vxml, form, parser, None, reqs, pend, tabs=tabs)
        for pos, _ in chosen:
            for kind, mutated, damaged, mfault in faults_at(doc, pos, rng, layout):
                # where the namespaces are declared: on the root only (the layout of the document) for one case in
                # four, otherwise on non-root elements: an action of kind NS_ACTIONS[..] on the node that is the damaged
                # node itself / its parent / a sibling / a descendant / a non-root ancestor (rotating, so that every
                # fault class meets every combination), plus a few random actions elsewhere
                rot[0] += 1
                nsk = rot[0]
                if nsk % 4 == 0:
                    xml = to_xml(mutated, layout, form, comments)
                    nsplan = 'root-only'
                else:
                    k = nsk - nsk // 4
                    rel, act = NS_RELS[k % len(NS_RELS)], NS_ACTIONS[(k // len(NS_RELS)) % len(NS_ACTIONS)]
                    ref = tuple(damaged) if kind != 'admitted attribute' else tuple(pos)
                    xml = to_xml_scoped(mutated, form, make_plan(mutated, ref, rel, act, rng), rng, comments,
                                        ROOT_STYLES[(k // 35) % len(ROOT_STYLES)])
                    nsplan = f'{rel}/{act}'
                ctx.count('namespace declarations:' + nsplan)
                ctx.count(f'namespace declarations x fault:{kind}:' + nsplan.split('/')[0])
                if kind == 'admitted attribute':
                    # the extra attribute is admitted by the element's skip/lax attribute wildcard (oracle
                    # `wildcard_admits`, read from the specification): not a fault, the document must stay valid
                    for parser in ('etree', 'lxml'):
                        case = dict(base, fault=None, admitted=True, node=list(pos), nsplan=nsplan, parser=parser, xml=xml)
                        ctx.case(case, False, tag=f'admitted attribute (still valid)/{parser}')
                        run_case(ctx, case, xml, form, parser, None, reqs, pend, tabs=tabs)
                    continue
                for parser in ('etree', 'lxml'):
                    case = dict(base, fault=kind, node=list(pos), damaged=list(damaged), nsplan=nsplan, parser=parser,
                                xml=xml)
                    if nsk % 5 == 0:
                        # the validation_hook answers 'lax' (for every element / the damaged node and its parent / its
                        # ancestor chain): raw_decode continues in a copy of the validation context, same outcome expected
                        case['hook'] = ['all', 'near', 'chain'][(nsk // 5 + (parser == 'lxml')) % 3]
                    locs[parser]['fault'] = json.loads(json.dumps(mfault).replace('BOGUS', bogus_tag))
                    try:
                        run_case(ctx, case, xml, form, parser, tuple(damaged), reqs, pend, tabs=tabs,
                                 loc=locs[parser])
                    except Exception as e:  # noqa
                        ctx.failure('validation raised', case, {'exception': repr(e)[:300]})
            if len(ctx.failures) >= stop_after:
                break
        if drv is not None and tabs is not None:
            compare_localise(ctx, drv, list(locs.values()))
        if ctx.time_left() < 120:
            ctx.notes.append('exploration stopped early (time budget)')
            break
        if len(ctx.failures) >= stop_after:
            ctx.notes.append(f'exploration stopped after {len(ctx.failures)} failing inputs')
            break
        if deadline is not None and time.time() > deadline:
            break
        if drv is not None and len(reqs) >= 3000:
            compare(ctx, drv, reqs, pend)
            del reqs[:], pend[:]
    if drv is not None:
        compare(ctx, drv, reqs, pend)


# ------------------------------------------------------------------------------------------------
# the wildcard family: where (H-gov) is false on the real code (gov_nonlocal_counterexample, finding C19-F2)
def wild_xml(kids: list) -> str:
    return '<r>' + ''.join(f'<{n}>{t}</{n}>' if t else f'<{n}/>' for n, t in kids) + '</r>'


def wild_family(ctx: Ctx, drv: Optional[Driver]) -> None:
    rng = ctx.rng
    tabs = Tables()
    reqs: list = []
    pend: list = []
    locs = []
    # 0. the witness of gov_nonlocal_counterexample, literally
    docs = [[('a', '1'), ('a', 'foo')]]
    for _ in range(ctx.pick(25, 250)):
        docs.append([('a', str(rng.randrange(9)))] +
                    [rng.choice([('a', 'foo'), ('a', '5'), ('z', ''), ('b', 'x')]) for _ in range(rng.randrange(4))])
    for di, kids in enumerate(docs):
        base = {'doc': f'wild{di}', 'form': 'wild', 'layout': 'none', 'comments': False, 'parser': 'etree'}
        vx = wild_xml(kids)
        vobs = run_case(ctx, dict(base, fault=None, xml=vx), vx, 'wild', 'etree', None, reqs, pend, tabs=tabs)
        loc = new_loc(vobs)
        locs.append(loc)
        faults = []
        for i in range(len(kids) + 1):
            faults.append(('extra child', kids[:i] + [('zzz', '')] + kids[i:], (i,),
                           {'k': 'insert', 'q': [], 'i': i, 'c': {'t': 'zzz', 'a': [], 'x': '', 'c': []}}))
        # (no "missing child" here: removing the first `a` of `a a` is the same document as a bad value of `a`)
        if len(kids) >= 2:
            j = rng.randrange(1, len(kids))
            rest = kids[:j] + kids[j + 1:]
            faults.append(('misplaced child', [kids[j]] + rest, (0,), {'k': 'move', 'q': [], 'i': j, 'j': 0}))
        for kind, mk, damaged, mfault in faults:
            mx = wild_xml(mk)
            if not list(schema('wild').iter_errors(mx)):
                ctx.count('wild: fault accepted by the wildcard (not a fault for this schema)')
                continue
            case = dict(base, fault=kind, node=[], damaged=list(damaged), xml=mx)
            loc['fault'] = mfault
            run_case(ctx, case, mx, 'wild', 'etree', damaged, reqs, pend, tabs=tabs, loc=loc)
    # the witness of gov_nonlocal_counterexample on the real code: located errors [2] then []
    import xmlschema
    res = xmlschema.XMLResource('<r><zzz/><a>1</a><a>foo</a></r>')
    got = [list(position_of(res.root, e.elem)) for e in schema('wild').iter_errors(res)]
    ctx.traces += 1
    ctx.extra['gov_nonlocal_counterexample'] = {'lean': [[2], []], 'real': got, 'reproduced': got == [[2], []],
                                                'H-gov conflicts observed': len(tabs.gov_conflicts)}
    if got != [[2], []]:
        ctx.notes.append('gov_nonlocal_counterexample: the witness no longer reproduces on the real code '
                         '(finding C19-F2 may be fixed): ' + json.dumps(got))
    if drv is not None:
        compare(ctx, drv, reqs, pend)
        compare_localise(ctx, drv, locs, expect_local=False)


# ------------------------------------------------------------------------------------------------
# lazy resources: the tree on which error.path is computed (lazyState), what the path selects in the document
def count_nodes(t: dict) -> int:
    return 1 + sum(count_nodes(c) for c in t['c'])


def depth_positions(t: dict, k: int, pos: tuple = ()) -> list:
    if k == 0:
        return [pos]
    out = []
    for i, c in enumerate(t['c']):
        out += depth_positions(c, k - 1, pos + (i,))
    return out


def big_xml(items: int, per: int, bad: set) -> str:
    return '<r>' + ''.join('<item>' + ''.join('<q>%s</q>' % ('bad' if (i, j) in bad else '1') for j in range(per))
                           + '</item>' for i in range(items)) + '</r>'


def lazy_paths(ctx: Ctx, drv: Optional[Driver]) -> None:
    import xmlschema
    from xml.etree import ElementTree as ET
    from xmlschema.validators import exceptions as exc_mod
    rng = ctx.rng
    orig = exc_mod.etree_getpath
    cur: dict = {}
    records: list = []

    def spy(elem, root, namespaces=None, relative=True, add_position=False, parent_path=False, **kw):
        path = orig(elem, root, namespaces, relative, add_position, parent_path, **kw)
        res = cur.get('res')
        if res is not None and root is res.root:
            records.append({'snap': rendered_tree(root, dict(namespaces or {})), 'pos': position_of(root, elem),
                            'path': path, 'ns': dict(namespaces or {})})
        return path

    jobs = []
    for _ in range(ctx.pick(40, 200)):
        doc = gen_valid(rng, 1)
        fl: list = []
        while not fl:
            pos, _n = rng.choice(list(nodes(doc)))
            fl = [f for f in faults_at(doc, pos, rng) if f[0] != 'admitted attribute']
        kind, mutated, damaged, _mf = rng.choice(fl)
        if len(jobs) % 2:
            # declarations on non-root elements: the namespace map in force when the lazy error is created is not the
            # root-level one
            lxml_ = to_xml_scoped(mutated, 'qualified', make_plan(mutated, tuple(damaged), rng.choice(NS_RELS),
                                                                 rng.choice(NS_ACTIONS), rng, 0.1), rng, False,
                                  rng.choice(ROOT_STYLES))
        else:
            lxml_ = to_xml(mutated, 'prefixed', 'qualified')
        jobs.append(('qualified', lxml_, rng.choice([1, 1, 2, 3]), kind))
    # documents larger than the parser's read block: later siblings do not exist yet when the error is created
    jobs.append(('big', big_xml(3, 3000, {(0, 1), (2, 0)}), 2, 'bad value'))     # witness of lazy_path_counterexample
    for _ in range(ctx.pick(3, 12)):
        items, per = rng.choice([(3, 2500), (6, 900), (40, 120), (2, 4000)])
        bad = {(rng.randrange(items), rng.randrange(per)) for _ in range(2)}
        jobs.append(('big', big_xml(items, per, bad), rng.choice([1, 2]), 'bad value'))
    same = diff = ambiguous = 0
    user: dict = {}
    reqs, pend = [], []
    exc_mod.etree_getpath = spy
    try:
        for form, xml, k, kind in jobs:
            case = {'lazy': k, 'form': form, 'fault': kind, 'xml': xml if len(xml) < 4000 else f'<{len(xml)} bytes>'}
            full_res = xmlschema.XMLResource(xml)
            full_errors = list(schema(form).iter_errors(full_res))
            full_paths = sorted(str(e.path) for e in full_errors)
            full_pos = [position_of(full_res.root, e.elem) for e in full_errors]
            del records[:]
            cur['res'] = res = xmlschema.XMLResource(xml, lazy=k)
            try:
                lazy_errs = []
                for e in schema(form).iter_errors(res):
                    lazy_errs.append((e, e.path, dict(e.namespaces or {})))      # read while iterating
                lazy_paths_ = sorted(str(p_) for _e, p_, _n in lazy_errs)
            except Exception as e:  # noqa
                cur['res'] = None
                ctx.count('lazy: iter_errors raised ' + type(e).__name__)
                continue
            cur['res'] = None
            if lazy_paths_ == full_paths:
                same += 1
            else:
                diff += 1
            # which element a lazy error is about: the elements of the errors of the eager run; error.path of the lazy
            # run must be the path computed (on the lazy state) for exactly those elements
            first: dict = {}
            for r in records:
                first.setdefault(r['pos'], r['path'])
            expected = sorted(str(first.get(p)) for p in full_pos)
            ctx.traces += 1
            if expected != lazy_paths_:
                ctx.mismatch('lazy error.path vs the path computed at creation for the element the error is about',
                             case, lazy_paths_, expected)
            full_root = ET.fromstring(xml)
            # as a user reads a lazy error: error.path with error.namespaces, read while iterating / after the run
            # (reported, no verdict: the property is about fully loaded documents)
            for e, p_, ns_during in lazy_errs:
                about = [r['pos'] for r in records if r['path'] == p_]
                for when, ns_ in (('while iterating', ns_during), ('after the run', dict(e.namespaces or {}))):
                    sel_ = xpath_select(full_root, p_, ns_) if p_ else None
                    got = None if sel_ is None else [position_of(full_root, x) for x in sel_]
                    res_ = 'cannot be read' if got is None else \
                        'selects exactly the element' if about and got == [about[0]] else \
                        'selects the element and others' if about and about[0] in got else 'does not select the element'
                    ctx.count(f'lazy: error.path read with error.namespaces {when}: {res_}')
                    user[f'{when}: {res_}'] = user.get(f'{when}: {res_}', 0) + 1
            for r in records:
                if r['pos'] is None:
                    ctx.mismatch('lazy: error element is not in the tree of the resource', case, None, None)
                    continue
                full_t = rendered_tree(full_root, r['ns'])
                pos = tuple(r['pos'])
                dpos = depth_positions(full_t, k)
                done = dpos.index(pos[:k]) if len(pos) >= k and pos[:k] in dpos else len(dpos)
                sel_py = xpath_select(full_root, r['path'], r['ns'])
                sel_py = None if sel_py is None else [list(position_of(full_root, x)) for x in sel_py]
                eager = orig(at_elem(full_root, pos), full_root, r['ns'], False, True) \
                    if at_elem_opt(full_root, pos) is not None else None
                ctx.case(dict(case, pos=list(pos)), len(pos) >= 2, tag=f'lazy depth {k}')
                reqs.append({'op': 'lazy', 'tree': full_t, 'k': k, 'done': done, 'n': count_nodes(r['snap']),
                             'pos': list(pos)})
                pend.append((case, r, sel_py, eager))
                if sel_py is not None and len(sel_py) > 1:
                    ambiguous += 1
                    ctx.count('lazy: the path selects several elements of the document')
                elif sel_py == [list(pos)]:
                    ctx.count('lazy: the path selects exactly the element')
                else:
                    ctx.count('lazy: the path does not select the element')
    finally:
        exc_mod.etree_getpath = orig
    if drv is not None:
        for (case, r, sel_py, eager), m in zip(pend, drv.query(reqs)):
            ctx.traces += 1
            if 'err' in m:
                ctx.mismatch('driver error (lazy)', case, None, m)
            elif m.get('state') != r['snap']:
                ctx.mismatch('lazyState vs the tree of the lazy resource when the error was created', case,
                             {'nodes': count_nodes(r['snap'])}, {'nodes': count_nodes(m['state']) if m.get('state') else None})
            elif m.get('path') != r['path']:
                ctx.mismatch('getPath on the lazy state vs error.path', case, r['path'], m.get('path'))
            elif m.get('sel') != sel_py:
                ctx.mismatch('selectAbs on the document vs the harness evaluator (lazy path)', case, sel_py, m.get('sel'))
            elif list(r['pos']) not in m['sel']:
                ctx.mismatch('lazy_path_contains instance', case, list(r['pos']), m['sel'])
            elif m.get('complete') and (r['path'] != eager or m['sel'] != [list(r['pos'])]):
                ctx.mismatch('lazy_path_exact_partial instance', case, eager, r['path'])
            else:
                ctx.count('lazy: guard completeAlong ' + ('holds' if m.get('complete') else 'fails'))
    ctx.extra['lazy_paths'] = {
        'runs with the same error paths as full loading': same, 'runs with different paths': diff,
        'error paths that select several elements of the document': ambiguous,
        'error.path read with error.namespaces (as a user would)': user,
        'note': 'no verdict (the property is about fully loaded documents); proved: the path always selects the '
                'element (lazy_path_contains), exactly when no sibling on the way is missing (lazy_path_exact_partial); '
                'lazy_path_counterexample is replayed with a document larger than the read block'}
    big = [(c, r, sp) for (c, r, sp, _e) in pend if c['form'] == 'big' and sp is not None and len(sp) > 1]
    ctx.extra['lazy_path_counterexample'] = {'reproduced': bool(big),
                                             'example': {'path': big[0][1]['path'], 'selects': len(big[0][2])} if big else None}
    if not big:
        ctx.notes.append('lazy_path_counterexample: no ambiguous lazy path was observed on the real code')


def at_elem_opt(root, pos: tuple):
    e = root
    for i in pos:
        ch = elem_children(e)
        if i >= len(ch):
            return None
        e = ch[i]
    return e


# ------------------------------------------------------------------------------------------------
# XSD 1.1 wildcards with notNamespace (attribute wildcard `notNamespace="urn:x ##local"` skip, element wildcard
# `notNamespace="##targetNamespace ##local"` skip): extra attributes / children admitted and not admitted
def na11_family(ctx: Ctx, drv: Optional[Driver]) -> None:
    rng = ctx.rng
    tabs = Tables()
    reqs: list = []
    pend: list = []
    locs = []
    head = f'<t:r xmlns:t="{TNS}" xmlns:x="{XNS}" xmlns:y="urn:y"'
    nsof = {'': '', 't': TNS, 'x': XNS, 'y': 'urn:y'}
    for di in range(ctx.pick(12, 80)):
        cs = [str(rng.randrange(50)) for _ in range(rng.randrange(1, 4))]
        ws = [rng.choice(['x:w', 'y:w']) for _ in range(rng.randrange(3))]
        v = rng.choice(['', ' v="3"'])

        def ser(attr: str = '', extra: Optional[tuple] = None) -> str:
            kids = [f'<t:c>{c}</t:c>' for c in cs] + [f'<{w}/>' for w in ws]
            if extra is not None:
                kids.insert(extra[0], f'<{extra[1]}/>')
            return f'{head}{v}{attr}>' + ''.join(kids) + '</t:r>'
        base = {'doc': f'na11-{di}', 'form': 'na11', 'layout': 'prefixed', 'comments': False, 'parser': 'etree'}
        vobs = run_case(ctx, dict(base, fault=None, xml=ser()), ser(), 'na11', 'etree', None, reqs, pend, tabs=tabs)
        loc = new_loc(vobs)
        locs.append(loc)
        vattrs = [['v', '3']] if v else []
        for k in ['bogus', 'x:bogus', 't:bogus', 'y:bogus']:
            p, _, l = k.rpartition(':')
            admitted = nsof[p] not in (XNS, '')         # notNamespace="urn:x ##local"
            xml = ser(f' {k}="1"')
            if admitted:
                case = dict(base, fault=None, admitted=True, xml=xml)
                ctx.case(case, False, tag='admitted attribute (still valid)/na11')
                run_case(ctx, case, xml, 'na11', 'etree', None, reqs, pend, tabs=tabs)
            else:
                case = dict(base, fault='extra attribute', node=[], damaged=[], xml=xml)
                name = '{%s}%s' % (nsof[p], l) if nsof[p] else l
                loc['fault'] = {'k': 'relabel', 'p': [], 'a': sorted(vattrs + [[name, '1']]), 'x': ''}
                run_case(ctx, case, xml, 'na11', 'etree', (), reqs, pend, tabs=tabs, loc=loc)
        for k in ['t:bogus', 'bogus', 'x:more']:
            p, _, l = k.rpartition(':')
            admitted = nsof[p] not in (TNS, '')         # notNamespace="##targetNamespace ##local"
            i = rng.randrange(len(cs), len(cs) + len(ws) + 1) if admitted else rng.randrange(len(cs) + len(ws) + 1)
            xml = ser('', (i, k))
            if admitted:
                case = dict(base, fault=None, admitted=True, xml=xml)
                ctx.case(case, False, tag='admitted child (still valid)/na11')
                run_case(ctx, case, xml, 'na11', 'etree', None, reqs, pend, tabs=tabs)
            else:
                case = dict(base, fault='extra child', node=[], damaged=[i], xml=xml)
                name = '{%s}%s' % (nsof[p], l) if nsof[p] else l
                loc['fault'] = {'k': 'insert', 'q': [], 'i': i, 'c': {'t': name, 'a': [], 'x': '', 'c': []}}
                run_case(ctx, case, xml, 'na11', 'etree', (i,), reqs, pend, tabs=tabs, loc=loc)
    for c in tabs.own_conflicts[:2] + tabs.gov_conflicts[:2]:
        ctx.mismatch('H-own / H-gov (XSD 1.1 notNamespace family)', c['key'], c['now'], c['first'])
    if drv is not None:
        compare(ctx, drv, reqs, pend)
        compare_localise(ctx, drv, locs)


# ------------------------------------------------------------------------------------------------
# siblings with the same local name in different namespaces (schema SAME_XSD), namespaces declared anywhere
def same_family(ctx: Ctx, drv: Optional[Driver]) -> None:
    rng = ctx.rng
    tabs = Tables()
    reqs: list = []
    pend: list = []
    k = rng.randrange(1000)
    for di in range(ctx.pick(40, 400)):
        es = []
        for _ in range(rng.randrange(2, 7)):
            ns = rng.choice([TNS, TNS, '', '', XNS])
            vs = [{'n': 'v', 'ns': rng.choice([TNS, '']) if ns != XNS else rng.choice([TNS, '', XNS]), 'a': {},
                   't': str(rng.randrange(99)), 'c': []} for _ in range(rng.choice([0, 1, 2, 3, 4]))]
            es.append({'n': 'e', 'ns': ns, 'a': ({'k': '1'} if rng.random() < 0.4 else {}), 't': None, 'c': vs})
        doc = {'n': 'r', 'ns': TNS, 'a': {}, 't': None, 'c': es}
        base = {'doc': f'same{di}', 'form': 'same', 'layout': 'scoped', 'comments': False}
        faults = []
        for i, e in enumerate(es):
            if e['ns'] == XNS:
                continue                          # matched by the skip wildcard: not governed, not a fault site
            for j, _v in enumerate(e['c']):
                m = clone_ns(doc)
                m['c'][i]['c'][j]['t'] = 'bad'
                faults.append(('bad value', m, (i, j)))
            m = clone_ns(doc)
            m['c'][i]['a']['k'] = 'x9'
            faults.append(('bad attribute value', m, (i,)))
            m = clone_ns(doc)
            j = rng.randrange(len(e['c']) + 1)
            m['c'][i]['c'].insert(j, {'n': rng.choice(['bogus', 'v', 'e']), 'ns': rng.choice([XNS, ONS]), 'a': {}, 't': None,
                                      'c': []})
            faults.append(('extra child', m, (i, j)))
        m = clone_ns(doc)
        j = rng.randrange(len(es) + 1)
        m['c'].insert(j, {'n': 'bogus', 'ns': rng.choice([TNS, '']), 'a': {}, 't': None, 'c': []})
        faults.append(('extra child', m, (j,)))
        vxml = to_xml_scoped(doc, 'same', make_plan(doc, (), 'self', rng.choice(NS_ACTIONS), rng, 0.2), rng, False,
                             rng.choice(ROOT_STYLES))
        for parser in ('etree', 'lxml'):
            case = dict(base, fault=None, parser=parser, xml=vxml)
            ctx.case(case, False, tag=f'same-name family: valid document/{parser}')
            run_case(ctx, case, vxml, 'same', parser, None, reqs, pend, tabs=tabs)
        for kind, m, damaged in faults:
            k += 1
            rel, act = NS_RELS[k % len(NS_RELS)], NS_ACTIONS[(k // len(NS_RELS)) % len(NS_ACTIONS)]
            xml = to_xml_scoped(m, 'same', make_plan(m, damaged, rel, act, rng, 0.1), rng, False, ROOT_STYLES[k % 4])
            ctx.count('same-name family: namespace declarations:' + rel + '/' + act)
            for parser in ('etree', 'lxml'):
                case = dict(base, fault=kind, node=list(damaged), damaged=list(damaged), nsplan=f'{rel}/{act}',
                            parser=parser, xml=xml)
                run_case(ctx, case, xml, 'same', parser, damaged, reqs, pend, tabs=tabs)
        if len(ctx.failures) >= 40:
            break
    ctx.traces += tabs.own_checks + tabs.gov_checks
    for c in tabs.own_conflicts[:2] + tabs.gov_conflicts[:2]:
        ctx.mismatch('H-own / H-gov (same-name family)', c['key'], c['now'], c['first'])
    if drv is not None:
        compare(ctx, drv, reqs, pend)


def clone_ns(d: dict) -> dict:
    return {'n': d['n'], 'ns': d['ns'], 'a': dict(d['a']), 't': d['t'], 'c': [clone_ns(c) for c in d['c']]}


# ------------------------------------------------------------------------------------------------
# XSD 1.1 inheritable attributes (XsdElement.raw_decode continues in a COPY of the validation context below an element
# that carries one) on elements of every content kind — simple content `s`, empty `z`, mixed `m`, element-only `g`/`r` —
# and every fault position relative to the carrier: its own text, its own other attributes, the inheritable attribute
# itself, its children (content model), its descendants; the same with a validation_hook that answers a mode.
def inh_ser(d: dict) -> str:
    attrs = ''.join(f' {k}="{v}"' for k, v in d['a'].items())
    return f"<{d['n']}{attrs}>{d['t'] or ''}{''.join(inh_ser(c) + c.get('tail', '') for c in d['c'])}</{d['n']}>"


def inh11_family(ctx: Ctx, drv: Optional[Driver]) -> None:
    rng = ctx.rng
    reqs: list = []
    pend: list = []

    def attrs() -> dict:
        a = {}
        if rng.random() < 0.55:
            a['lang'] = 'en'
        if rng.random() < 0.5:
            a['n'] = '3'
        return a

    def leaf(n: str) -> dict:
        return {'n': n, 'a': {}, 't': str(rng.randrange(9)), 'c': []}

    def gen_s() -> dict:
        return {'n': 's', 'a': attrs(), 't': str(rng.randrange(9)), 'c': []}

    def gen_g(depth: int) -> dict:
        c = [leaf('b')] + [gen_s() for _ in range(rng.randrange(3))]
        if rng.random() < 0.5:
            c.append({'n': 'z', 'a': attrs(), 't': None, 'c': []})
        if rng.random() < 0.5:
            mc = [dict(leaf('b'), tail=' words ') for _ in range(rng.randrange(3))] + ([gen_s()] if rng.random() < 0.5 else [])
            c.append({'n': 'm', 'a': attrs(), 't': 'mixed ', 'c': mc})
        if depth:
            c += [gen_g(depth - 1) for _ in range(rng.randrange(2))]
        return {'n': 'g', 'a': attrs(), 't': None, 'c': c}
    k = rng.randrange(100)
    for di in range(ctx.pick(24, 160)):
        kids = [leaf('a') for _ in range(rng.randrange(1, 3))] + [gen_s() for _ in range(rng.randrange(3))]
        kids += [gen_g(rng.randrange(3)) for _ in range(rng.randrange(3))]
        doc = {'n': 'r', 'a': attrs(), 't': None, 'c': kids}
        base = {'doc': f'inh11-{di}', 'form': 'inh11', 'layout': 'none', 'comments': False}
        vx = inh_ser(doc)
        for parser, hook in (('etree', None), ('lxml', None), ('etree', 'all')):
            run_case(ctx, dict(base, fault=None, parser=parser, hook=hook, xml=vx), vx, 'inh11', parser, None, reqs, pend)
        # (kind, what is damaged, mutated, damaged node, owner = the element whose validation reports the fault)
        faults = []
        for pos, n in nodes(doc):
            nm = n['n']

            def mut(f) -> dict:
                m = clone_tail(doc)
                f(at(m, pos))
                return m
            if nm in 'abs':
                faults.append(('bad value', 'own text', mut(lambda x: x.update(t='bad')), pos, pos))
            elif nm in 'zgr':                     # empty / element-only content: character data is not allowed
                faults.append(('bad value', 'own text', mut(lambda x: x.update(t='chars')), pos, pos))
            if nm in 'ab':
                faults.append(('extra attribute', 'own attribute', mut(lambda x: x['a'].update(bogus='1')), pos, pos))
                continue
            faults.append(('bad attribute value', 'own attribute', mut(lambda x: x['a'].update(n='x9')), pos, pos))
            faults.append(('bad attribute value', 'the inheritable attribute', mut(lambda x: x['a'].update(lang='!!')), pos, pos))
            faults.append(('extra attribute', 'own attribute', mut(lambda x: x['a'].update(bogus='1')), pos, pos))
            i = rng.randrange(len(n['c']) + 1)
            faults.append(('extra child', 'children', mut(lambda x: x['c'].insert(i, {'n': 'bogus', 'a': {}, 't': None, 'c': []})),
                           pos + (i,), pos))
            if nm == 'g' or (nm == 'r' and sum(1 for c in n['c'] if c['n'] == 'a') == 1):
                faults.append(('missing child', 'children', mut(lambda x: x['c'].pop(0)), pos, pos))
            if nm == 'g' and len(n['c']) >= 2:
                faults.append(('misplaced child', 'children', mut(lambda x: x['c'].insert(0, x['c'].pop())), pos + (0,), pos))
        for kind, what, m, damaged, owner in faults:
            carriers = [j for j in range(len(owner) + 1) if 'lang' in at(m, owner[:j])['a']]
            rel = 'no carrier above' if not carriers else \
                f'carrier is the reporting element ({at(m, owner)["n"]}): {what}' if carriers[-1] == len(owner) else \
                'carrier is the parent' if carriers[-1] == len(owner) - 1 else 'carrier is a farther ancestor'
            ctx.count(f'inheritable family: {kind} / {rel}')
            xml = inh_ser(m)
            k += 1
            for parser, hook in (('etree', None), ('lxml', None), ('etree', ['all', 'near', 'chain'][k % 3])):
                case = dict(base, fault=kind, what=what, node=list(owner), damaged=list(damaged), carrier=rel,
                            parser=parser, hook=hook, xml=xml)
                run_case(ctx, case, xml, 'inh11', parser, damaged, reqs, pend)
        if len(ctx.failures) >= 40:
            break
    if drv is not None:
        compare(ctx, drv, reqs, pend)


def clone_tail(d: dict) -> dict:
    out = {'n': d['n'], 'a': dict(d['a']), 't': d['t'], 'c': [clone_tail(c) for c in d['c']]}
    if 'tail' in d:
        out['tail'] = d['tail']
    return out


# ------------------------------------------------------------------------------------------------
# every compositor x every occurrence range x the single-fault operators "remove one occurrence" / "add one occurrence" at
# every boundary.  Models are generator-level ASTs of harness/lib_cm.py (children are xs:string leaves a, b, c, h); a
# document is a child word.  What is a fault is judged by the independent content-model reading `lib_cm.ref_accepts`
# (derivatives of the unrolled expression, xs:all = shuffle), NOT by the library: the word before the fault is in the
# language, the word after it is not.  Where the library accepts a word that is not in the language and the Lean port of the
# pinned ModelVisitor (drv_c01, property C01) accepts it too, that is the known deviation C01-F0 of ModelVisitor — counted
# and skipped here, it is C01's business; any other "reported valid" is a C19 failure.
CM_OCCS = [(0, 1), (1, 1), (2, 2), (2, 4), (0, None), (3, None)]


def cm_models(rng, v11: bool, n_random: int) -> list:
    def e(n, r=(1, 1)):
        return ('e', n, r[0], r[1])

    def g(kind, items, r=(1, 1), ref=False):
        return ('g', kind, r[0], r[1], items, 'ref') if ref else ('g', kind, r[0], r[1], items)
    out = []
    for R in CM_OCCS:
        part = [('seq(b, a{R}, c?)', g('sequence', [e('b'), e('a', R), e('c', (0, 1))])),
                ('seq(a{R}, b?)', g('sequence', [e('a', R), e('b', (0, 1))])),
                ('seq(b, seq(a{R}, c)?, h)', g('sequence', [e('b'), g('sequence', [e('a', R), e('c')], (0, 1)), e('h')])),
                ('seq(b, seq(a, c){R})', g('sequence', [e('b'), g('sequence', [e('a'), e('c')], R)])),
                ('seq(b, @seq(a{R}, c))', g('sequence', [e('b'), g('sequence', [e('a', R), e('c')], ref=True)])),
                ('choice(a{R} | b)', g('choice', [e('a', R), e('b')])),
                ('choice{R}(a | b)', g('choice', [e('a'), e('b')], R)),
                ('seq(h, choice(a{R} | b), c?)', g('sequence', [e('h'), g('choice', [e('a', R), e('b')]), e('c', (0, 1))])),
                ('choice(seq(a{R}, b) | c)', g('choice', [g('sequence', [e('a', R), e('b')]), e('c')])),
                ('seq(choice(a | b){R}, c)', g('sequence', [g('choice', [e('a'), e('b')], R), e('c')]))]
        if v11 or R in ((0, 1), (1, 1)):
            part += [('all(a{R}, b, c?)', g('all', [e('a', R), e('b'), e('c', (0, 1))])),
                    ('all?(a{R}, b)', g('all', [e('a', R), e('b')], (0, 1)))]
        if v11:
            part += [('all(a{R}, b{2,2})', g('all', [e('a', R), e('b', (2, 2))])),
                    ('all(a{R}, b{3,inf}, c{2,4})', g('all', [e('a', R), e('b', (3, None)), e('c', (2, 4))])),
                    ('all(@all(a{R}, b), c?)', g('all', [g('all', [e('a', R), e('b')], ref=True), e('c', (0, 1))]))]
        out += [(n.replace('{R}', '{%d,%s}' % (R[0], 'inf' if R[1] is None else R[1])), m) for n, m in part]

    def rnd(d: int, top: bool) -> tuple:
        kinds = ['sequence', 'sequence', 'choice', 'choice'] + (['all'] if top else [])
        kind = rng.choice(kinds)
        names = rng.sample(['a', 'b', 'c', 'h'], rng.randint(1, 3))
        if kind == 'all':
            occs = CM_OCCS if v11 else [(0, 1), (1, 1)]
            return g('all', [e(n, rng.choice(occs)) for n in names], rng.choice([(1, 1), (1, 1), (0, 1)]))
        items = []
        for n in names:
            if d > 1 and rng.random() < 0.35:
                items.append(rnd(d - 1, False))
            else:
                items.append(e(n, rng.choice(CM_OCCS)))
        return g(kind, items, rng.choice([(1, 1), (1, 1), (0, 1), (2, 2), (0, None), (2, 4)]))
    out += [('random', rnd(3, True)) for _ in range(n_random)]
    return out


def cm_sample(ast: tuple, rng) -> list:
    """a word of the language of the model, the occurrence counts drawn from the boundaries of the ranges"""
    lo, hi = ast[2], ast[3]
    n = rng.choice([lo, lo, hi if hi is not None else lo + 2, hi if hi is not None else lo + 1, min(lo + 1, hi if hi is not None else lo + 1)])
    if ast[0] == 'e':
        return [ast[1]] * n
    out: list = []
    for _ in range(min(n, 4) if ast[0] == 'g' and hi is None else n):
        if ast[1] == 'sequence':
            for i in ast[4]:
                out += cm_sample(i, rng)
        elif ast[1] == 'choice':
            if ast[4]:
                out += cm_sample(rng.choice(ast[4]), rng)
        else:                                     # xs:all: any interleaving of the items' words
            parts = [cm_sample(i, rng) for i in ast[4]]
            merged: list = []
            while any(parts):
                k = rng.choice([j for j, q in enumerate(parts) if q])
                merged.append(parts[k].pop(0))
            out += merged
    return out


def cm_xml(k: int, word: list) -> str:
    from harness import lib_cm as cm
    return f'<t:m{k} xmlns:t="{cm.TNS}">' + ''.join(f'<t:{x}>x</t:{x}>' for x in word) + f'</t:m{k}>'


def cm_schema(case: dict):
    """the schema of a replayed case: element m<k> with the model of the case"""
    from harness import lib_cm as cm

    def to_ast(x):
        if x[0] in ('e', 'a'):
            return tuple(x)
        return ('g', x[1], x[2], x[3], [to_ast(i) for i in x[4]]) + (('ref',) if len(x) > 5 else ())
    return cm.build_schema([('g', 'sequence', 1, 1, [])] * case['k'] + [to_ast(case['ast'])], case['v'] == '1.1')


def cm_family(ctx: Ctx, drv: Optional[Driver]) -> None:
    from harness import lib_cm as cm
    rng = ctx.rng
    port = Driver('drv_c01')
    have_port = drv is not None and port.path.exists()
    if not have_port:
        ctx.notes.append('content-model family: the Lean port of ModelVisitor (drv_c01) is not available: a damaged word '
                         'that the library accepts cannot be classified against C01-F0 and is only counted')
    reqs: list = []
    pend: list = []
    for v11 in (False, True):
        models = cm_models(rng, v11, ctx.pick(40, 400))
        for b0 in range(0, len(models), 40):
            batch = models[b0:b0 + 40]
            try:
                sch = cm.build_schema([m for _n, m in batch], v11)
            except Exception as exc:  # noqa
                ctx.count('content-model family: schema batch refused: ' + type(exc).__name__)
                continue
            for k, (name, ast) in enumerate(batch):
                xe = sch.elements[f'm{k}']
                group = xe.type.content
                built_ok = not xe.type.errors and not group.errors and all(not c.errors for c in group.iter_components())
                if not built_ok or cm.upa_ok(cm.strip_refs(ast), v11=v11) is not True:
                    ctx.count('content-model family: model not built or not deterministic (skipped)')
                    continue
                plain = cm.strip_refs(ast)
                top = 'all' if ast[1] == 'all' else ast[1]
                ctx.count(f"content-model family: models {'1.1' if v11 else '1.0'}/{top}"
                          + ('/nested' if any(i[0] == 'g' for i in ast[4]) else ''))
                base = {'doc': f'cm-{name}', 'form': 'cm', 'layout': 'prefixed', 'comments': False, 'v': '1.1' if v11 else '1.0',
                        'model': cm.show(ast), 'ast': ast, 'k': k}
                valid_words: dict = {}
                for _ in range(ctx.pick(10, 24)):
                    w = cm_sample(plain, rng)
                    if len(w) <= 14 and cm.ref_accepts(plain, w):
                        valid_words.setdefault(''.join(w), w)
                deferred: list = []           # (case, word, expected in language) reported valid / invalid against the reference
                seen: set = set()
                for w in valid_words.values():
                    wx = cm_xml(k, w)
                    ok = not list(sch.iter_errors(wx))
                    if not ok:
                        # a word of the language that the library rejects: not a document of this family
                        deferred.append((dict(base, fault=None, word=''.join(w), parser='etree', xml=wx), w, True))
                        continue
                    ctx.case(dict(base, fault=None, word=''.join(w)), False, tag='content-model family: valid word')
                    for i in range(len(w)):
                        for kind, w2, damaged in (('missing child', w[:i] + w[i + 1:], ()),
                                                  ('extra child', w[:i + 1] + [w[i]] + w[i + 1:], (i + 1,))):
                            key = kind + ''.join(w2)
                            if key in seen:
                                continue
                            seen.add(key)
                            n_before = w.count(w[i])
                            in_lang = cm.ref_accepts(plain, w2)
                            ctx.count(f"content-model family: {'remove' if kind[0] == 'm' else 'add'} one occurrence -> "
                                      + ('still in the language' if in_lang else 'not in the language'))
                            x2 = cm_xml(k, w2)
                            case = dict(base, fault=kind, word=''.join(w), after=''.join(w2), occurrences_before=n_before,
                                        node=[], damaged=list(damaged), xml=x2)
                            if in_lang:
                                # exactly min / exactly max: not a fault, the document must stay valid
                                if list(sch.iter_errors(x2)):
                                    deferred.append((dict(case, fault=None, parser='etree'), w2, True))
                                else:
                                    ctx.case(dict(case, fault=None), False, tag='content-model family: boundary word, still valid')
                                continue
                            for parser in ('etree', 'lxml'):
                                dv: list = []
                                run_case(ctx, dict(case, parser=parser), x2, 'cm', parser, damaged, reqs, pend, sch=sch,
                                         defer_valid=dv)
                                if dv and parser == 'etree':
                                    deferred.append((dv[0], w2, False))
                if not deferred:
                    continue
                # classification of the deviations from the reference language against the pinned ModelVisitor (C01-F0)
                answers = None
                if have_port:
                    intro = cm.Introspector(group)
                    if cm.ast_of_json(intro.json) == plain:
                        ans = port.query([{'n': len(intro.objs), 'model': intro.json,
                                           'words': [cm.word_json(w2) for _c, w2, _l in deferred], 'oc': None}])[0]
                        answers = ans.get('r') if isinstance(ans, dict) else None
                for j, (case, w2, in_lang) in enumerate(deferred):
                    a = answers[j] if answers is not None and j < len(answers) else None
                    impl_valid = not in_lang          # the deviation: library's verdict is the opposite of the reference
                    if a is None or a.get('f'):
                        ctx.count('content-model family: deviation from the reference language, not classified (no port)')
                    elif a['m'] == impl_valid and a['o'] == in_lang:
                        ctx.count('content-model family: skipped, C01-F0 (the pinned ModelVisitor port reproduces it): '
                                  + ('accepts a non-word' if impl_valid else 'rejects a word'))
                    elif impl_valid:
                        ctx.failure('a document damaged at a single node is reported valid', case,
                                    {'kind': 'valid', 'damaged': case['damaged'], 'reference language': 'rejects the word',
                                     'pinned ModelVisitor port (C01)': 'rejects the word' if not a['m'] else 'accepts',
                                     'oracle inModel (C01)': a['o']})
                    else:
                        ctx.failure('generated valid document reported invalid', case,
                                    {'reference language': 'accepts the word', 'pinned ModelVisitor port (C01)': a['m'],
                                     'oracle inModel (C01)': a['o']})
            if len(ctx.failures) >= 40:
                break
    if drv is not None:
        compare(ctx, drv, reqs, pend)


# ------------------------------------------------------------------------------------------------
# nilled elements (xsi:nil="true") in the VALID base documents, every operator applied AT the nilled element.  Independent
# rule (XSD Part 1, Element Locally Valid 3.2): a nilled element has no character or element children (comments and
# processing instructions are neither), must not have a fixed value, xsi:nil must be a boolean and is allowed only on a
# nillable element; its attributes (and xsi:type) are checked as usual.
NIL_TYPE = {'s': ('xs:int', 'xs:string'), 'd': ('xs:int', 'xs:string'), 'sc': ('SC', 'Z'), 'c': ('C', 'Z'), 'm': ('M', 'Z'),
            'z': ('Z', 'C')}
NIL_FALSE_VALID = {'d', 'm', 'z'}            # with xsi:nil="false" the EMPTY element is valid: default / optional / empty content


def nil_ser(d: dict) -> str:
    attrs = ''.join(f' {k}="{v}"' for k, v in d['a'].items())
    if d['n'] == 'r':
        attrs = ' xmlns:xsi="http://www.w3.org/2001/XMLSchema-instance" xmlns:xs="http://www.w3.org/2001/XMLSchema"' + attrs
    return f"<{d['n']}{attrs}>{d.get('raw', '')}{d['t'] or ''}{''.join(nil_ser(c) for c in d['c'])}</{d['n']}>"


def nil_family(ctx: Ctx, drv: Optional[Driver]) -> None:
    rng = ctx.rng
    reqs: list = []
    pend: list = []

    def el(n, t=None, c=(), **a) -> dict:
        return {'n': n, 'a': dict(a), 't': t, 'c': list(c)}

    def gen(n: str) -> dict:
        k = {'k': str(rng.randrange(9))} if n in ('sc', 'c', 'm', 'z') and rng.random() < 0.5 else {}
        if rng.random() < 0.6:
            return el(n, **{'xsi:nil': rng.choice(['true', '1'])}, **k)
        a = {'xsi:nil': rng.choice(['false', '0'])} if rng.random() < 0.3 else {}
        a.update(k)
        if n in ('s', 'sc'):
            return el(n, '3', **a)
        if n == 'd':
            return el(n, rng.choice(['4', None]), **a)
        if n == 'c':
            return el(n, None, [el('b', '1')], **a)
        if n == 'm':
            return el(n, 'txt ', [el('b', '1')] if rng.random() < 0.5 else [], **a)
        return el(n, **a)
    for di in range(ctx.pick(16, 120)):
        kids = [gen('s') for _ in range(rng.randrange(1, 3))] + ([gen('d')] if rng.random() < 0.6 else [])
        for n in ('sc', 'c', 'm'):
            kids += [gen(n) for _ in range(rng.randrange(3))]
        if rng.random() < 0.6:
            kids.append(gen('z'))
        if rng.random() < 0.5:
            kids.append(el('f', '7', **({'xsi:nil': 'false'} if rng.random() < 0.5 else {})))
        if rng.random() < 0.5:
            kids.append(el('n', '3'))
        doc = el('r', None, kids)
        form = 'nil11' if di % 2 else 'nil10'
        base = {'doc': f'nil-{di}', 'form': form, 'layout': 'none', 'comments': False}
        vx = nil_ser(doc)
        for parser in ('etree', 'lxml'):
            run_case(ctx, dict(base, fault=None, parser=parser, xml=vx), vx, form, parser, None, reqs, pend)
        ops = []                                   # (operator, kind of fault or None = still valid, mutated, damaged)
        for i, n in enumerate(kids):
            pos = (i,)
            nm = n['n']
            nilled = n['a'].get('xsi:nil') in ('true', '1')

            def mut(f) -> dict:
                m = clone_raw(doc)
                f(m['c'][i])
                return m
            if nm == 'f':
                ops.append(('xsi:nil=true on an element with a fixed value', 'bad attribute value',
                            mut(lambda x: (x['a'].update({'xsi:nil': 'true'}), x.update(t=None))), pos))
                continue
            if nm == 'n':
                ops.append(('xsi:nil on an element that is not nillable', 'extra attribute',
                            mut(lambda x: x['a'].update({'xsi:nil': rng.choice(['true', 'false'])})), pos))
                continue
            if not nilled:
                continue
            ops += [('add a child element (declared name)', 'extra child', mut(lambda x: x['c'].append(el('b', '1'))), pos + (0,)),
                    ('add a child element (undeclared name)', 'extra child', mut(lambda x: x['c'].append(el('bogus'))), pos + (0,)),
                    ('add text', 'bad value', mut(lambda x: x.update(t=rng.choice(['x', '5']))), pos),
                    ('add whitespace-only text', 'bad value', mut(lambda x: x.update(t=rng.choice([' ', '\n  ']))), pos),
                    ('add a comment', None, mut(lambda x: x.update(raw='<!--c-->')), pos),
                    ('add a processing instruction', None, mut(lambda x: x.update(raw='<?p i?>')), pos),
                    ('add a comment and a child element', 'extra child',
                     mut(lambda x: (x.update(raw='<!--c-->'), x['c'].append(el('bogus')))), pos + (0,)),
                    ('xsi:nil=false', None if nm in NIL_FALSE_VALID else 'bad attribute value',
                     mut(lambda x: x['a'].update({'xsi:nil': rng.choice(['false', '0'])})), pos),
                    ('xsi:nil=garbage', 'bad attribute value', mut(lambda x: x['a'].update({'xsi:nil': 'maybe'})), pos),
                    ('add xsi:type (the declared type)', None, mut(lambda x: x['a'].update({'xsi:type': NIL_TYPE[nm][0]})), pos),
                    ('add xsi:type (a type that cannot substitute)', 'bad attribute value',
                     mut(lambda x: x['a'].update({'xsi:type': NIL_TYPE[nm][1]})), pos)]
            if nm in ('sc', 'c', 'm', 'z'):
                ops.append(('bad value of an attribute of the nilled element', 'bad attribute value',
                            mut(lambda x: x['a'].update(k='x9')), pos))
        for op, kind, m, damaged in ops:
            xml = nil_ser(m)
            nm = at(m, damaged[:1])['n']
            ctx.count(f'nilled family: {op} ({nm}) -> ' + ('invalid' if kind else 'still valid'))
            for parser in ('etree', 'lxml'):
                case = dict(base, fault=kind, operator=op, node=list(damaged[:1]), damaged=list(damaged), parser=parser, xml=xml)
                if kind is None:
                    ctx.case(case, False, tag=f'nilled family: not a fault (still valid)/{parser}')
                    run_case(ctx, case, xml, form, parser, None, reqs, pend)
                else:
                    run_case(ctx, case, xml, form, parser, damaged, reqs, pend)
        if len(ctx.failures) >= 40:
            break
    if drv is not None:
        compare(ctx, drv, reqs, pend)


def clone_raw(d: dict) -> dict:
    out = {'n': d['n'], 'a': dict(d['a']), 't': d['t'], 'c': [clone_raw(c) for c in d['c']]}
    if 'raw' in d:
        out['raw'] = d['raw']
    return out


# ------------------------------------------------------------------------------------------------
# value constraints: attributes (and simple elements) of every kind of simple type — int, decimal, date, boolean, NCName,
# enumeration, QName, NOTATION, list, union, language — declared without constraint / with a default / with a fixed value,
# PRESENT in the valid document, damaged with (a) a lexically invalid value, (b) a different valid value (a fault iff the
# declaration is fixed), (c) another lexical form of the same value (never a fault), (d) for QNames an unmapped prefix.
# Independent rule: the value must be valid for the type, and equal to the fixed value in the value space when one is declared.
def vc_family(ctx: Ctx, drv: Optional[Driver]) -> None:
    rng = ctx.rng
    reqs: list = []
    pend: list = []
    names = [(t, v) for t in VC_TYPES for v in VC_KINDS]
    for di in range(ctx.pick(14, 100)):
        items = []
        for _ in range(rng.randrange(2, 4)):
            a = {'req': 'a'}
            for t, v in rng.sample(names, rng.randrange(2, 7)):
                val, same = VC_TYPES[t][1], VC_TYPES[t][2]
                a[f'a_{t}_{v}'] = same if same is not None and rng.random() < 0.3 else val
            items.append({'n': 'item', 'a': a, 't': '1.5', 'c': []})
        elems = []
        for t, v in names:                       # the schema's sequence order
            if rng.random() < 0.2:
                val, same = VC_TYPES[t][1], VC_TYPES[t][2]
                # (an element with a fixed QName written with another prefix of the same namespace is refused by the
                # library: a value-space question of C03, not generated here)
                txt = same if same is not None and t != 'qname' and rng.random() < 0.3 else val
                elems.append({'n': f'e_{t}_{v}', 'a': {}, 't': txt, 'c': []})
        doc = {'n': 'r', 'a': {}, 't': None, 'c': items + elems}
        k_on_item = rng.random() < 0.4               # the prefixes of the QName values declared on the element that uses them

        def ser(d: dict) -> str:
            def one(n: dict, root: bool) -> str:
                decl = ' xmlns:k="urn:kinds" xmlns:k2="urn:kinds"' if (root and not k_on_item) or \
                    (not root and k_on_item and (any('qname' in x for x in n['a']) or 'qname' in n['n'])) else ''
                attrs = ''.join(f' {x}="{y}"' for x, y in n['a'].items())
                return f"<{n['n']}{decl}{attrs}>{n['t'] or ''}{''.join(one(c, False) for c in n['c'])}</{n['n']}>"
            return one(d, True)
        base = {'doc': f'vc-{di}', 'form': 'attr', 'layout': 'none', 'comments': False}
        vx = ser(doc)
        for parser in ('etree', 'lxml'):
            run_case(ctx, dict(base, fault=None, parser=parser, xml=vx), vx, 'attr', parser, None, reqs, pend)
        ops = []                                       # (what, fault kind or None, mutated, damaged)
        for i, n in enumerate(doc['c']):
            targets = [(x, x.split('_')[1], x.split('_')[2]) for x in n['a'] if x.startswith('a_')] if n['n'] == 'item' \
                else [(None, n['n'].split('_')[1], n['n'].split('_')[2])]
            for aname, t, v in targets:
                _ty, val, same, other, bad = VC_TYPES[t]
                vals = [('a lexically invalid value', bad, True), ('a different valid value', other, v == 'f')]
                if same is not None and not (aname is None and t == 'qname'):
                    vals.append(('another lexical form of the same value', same if n['a'].get(aname, n['t']) != same else val, False))
                if t == 'qname':
                    vals.append(('a QName with an unmapped prefix', 'zz:metre', True))
                for what, newv, is_fault in vals:
                    m = clone(doc)
                    if aname is None:
                        m['c'][i]['t'] = newv
                    else:
                        m['c'][i]['a'][aname] = newv
                    where = 'attribute' if aname else 'element'
                    ops.append((f"{where} {t}/{ {'n': 'no constraint', 'd': 'default', 'f': 'fixed'}[v]}: {what}",
                                ('bad attribute value' if aname else 'bad value') if is_fault else None, m, (i,)))
        for what, kind, m, damaged in ops:
            xml = ser(m)
            ctx.count(f'value-constraint family: {what} -> ' + ('invalid' if kind else 'still valid'))
            for parser in ('etree', 'lxml'):
                case = dict(base, fault=kind, operator=what, node=list(damaged), damaged=list(damaged), parser=parser, xml=xml)
                if kind is None:
                    ctx.case(case, False, tag=f'value-constraint family: not a fault (still valid)/{parser}')
                    run_case(ctx, case, xml, 'attr', parser, None, reqs, pend)
                else:
                    run_case(ctx, case, xml, 'attr', parser, damaged, reqs, pend)
        if len(ctx.failures) >= 40:
            break
    if drv is not None:
        compare(ctx, drv, reqs, pend)


# ------------------------------------------------------------------------------------------------
# value constraints x complex content: elements with a fixed / default / no value constraint whose type is MIXED and admits
# optional children (FX_XSD), beside fixed simple / simple-content elements.  Operators at every such element: an admitted
# child added after / before the text (the text stays, or becomes the child's tail), an undeclared child, another text,
# whitespace-only text, emptied text, a bad attribute, a comment / PI.  Independent rule (Element Locally Valid 5.2.2): with a
# fixed value the element has no element children at all and (mixed) its text is the fixed string or absent; a default or no
# constraint forbids nothing the type admits.  An extra child is damaged node = the new child: the error is expected at its
# parent (the constrained element) and nowhere outside the chain.
def fx_ser(d: dict) -> str:
    attrs = ''.join(f' {k}="{v}"' for k, v in d['a'].items())
    return (f"<{d['n']}{attrs}>{d.get('raw', '')}{d['t'] or ''}"
            f"{''.join(fx_ser(c) + c.get('tail', '') for c in d['c'])}</{d['n']}>")


def fx_family(ctx: Ctx, drv: Optional[Driver]) -> None:
    import copy
    rng = ctx.rng
    reqs: list = []
    pend: list = []
    admitted = {'fm': ['b'], 'fc': ['b', 'i'], 'fz': [], 'dm': ['b'], 'nm': ['b']}
    fx_reqs: list = []
    fx_pend: list = []

    def tie(case: dict, xml: str, form: str, parser: str) -> None:
        """Model/FixedCC.lean `libErr` on (character data, number of element children) of every fixed mixed element of the parsed document against
        'an error "must have the fixed value" is reported at that element' (theorems fixed_lib_iff_spec,
        fixed_extra_child_reported, fixed_text_change_reported speak about libErr)"""
        if drv is None:
            return
        import xmlschema
        if parser == 'lxml':
            import lxml.etree as LE
            source = xmlschema.XMLResource(LE.fromstring(xml.encode()))
        else:
            source = xmlschema.XMLResource(xml)
        errors = list(schema(form).iter_errors(source))
        els, real = [], []
        for ch in source.root:
            if ch.tag in ('fm', 'fc', 'fz'):
                # (element children, character data): comment / PI nodes kept by lxml are not element children and only
                # split the character data (fix C19-F5, dce758b)
                kids = sum(1 for c in ch if isinstance(c.tag, str))
                text = ch.text if kids else (((ch.text or '') + ''.join(c.tail or '' for c in ch)) or None)
                els.append([text, kids])
                real.append(any(e.elem is ch and 'must have the fixed value' in str(e.reason) for e in errors))
        if els:
            fx_reqs.append({'op': 'fixedcc', 'fixed': FX_TEXT, 'els': els})
            fx_pend.append((case, els, real))

    def el(n, t=None, c=(), **a) -> dict:
        return {'n': n, 'a': dict(a), 't': t, 'c': list(c)}

    def gen(n: str) -> dict:
        k = {'k': str(rng.randrange(9))} if n in ('fm', 'dm', 'nm', 'fsc') and rng.random() < 0.4 else {}
        if n in ('fm', 'fc', 'fz'):
            return el(n, FX_TEXT if rng.random() < 0.8 else None, **k)
        if n in ('dm', 'nm'):
            kids = [el('b', str(rng.randrange(9))) for _ in range(rng.randrange(3))]
            return el(n, rng.choice([FX_TEXT, 'other', None]), kids, **k)
        return el(n, rng.choice(['7', '7', '07', None]), **k)
    for di in range(ctx.pick(12, 90)):
        kids = []
        for n in ('fm', 'fc', 'fz', 'dm', 'nm', 'fs', 'fsc'):            # the schema's sequence order
            kids += [gen(n) for _ in range(rng.choice([0, 1, 2, 3]) if n in ('fm', 'fc') else rng.randrange(3))]
        if not kids:
            kids = [gen('fm')]
        doc = el('r', None, kids)
        form = 'fx11' if di % 2 else 'fx10'
        base = {'doc': f'fx-{di}', 'form': form, 'layout': 'none', 'comments': False}
        vx = fx_ser(doc)
        for parser in ('etree', 'lxml'):
            run_case(ctx, dict(base, fault=None, parser=parser, xml=vx), vx, form, parser, None, reqs, pend)
            tie(dict(base, fault=None, parser=parser, xml=vx), vx, form, parser)
        ops = []                                   # (operator, kind of fault or None = still valid, mutated, damaged)
        for i, n in enumerate(kids):
            pos = (i,)
            nm = n['n']
            fixed = nm[0] == 'f'
            mixed = nm in admitted

            def mut(f) -> dict:
                m = copy.deepcopy(doc)
                f(m['c'][i])
                return m

            def child_after(x, name):
                x['c'].append(el(name, '1'))

            def child_before(x, name):
                c = el(name, '1')
                if x['t']:
                    c['tail'], x['t'] = x['t'], None
                x['c'].insert(0, c)
            nk = len(n['c'])
            for name in ((admitted[nm] or ['b']) if mixed else ['b']):
                adm = mixed and name in admitted[nm]
                kind = 'extra child' if fixed or not adm else None
                ops.append((f"add a child {'the type admits' if adm else 'not admitted'} after the text", kind,
                            mut(lambda x: child_after(x, name)), pos + (nk,) if kind else pos))
                ops.append((f"add a child {'the type admits' if adm else 'not admitted'} before the text (text becomes its tail)",
                            kind, mut(lambda x: child_before(x, name)), pos + (0,) if kind else pos))
            ops.append(('add an undeclared child', 'extra child', mut(lambda x: child_after(x, 'bogus')), pos + (nk,)))
            if mixed:
                ops.append(('another text', 'bad value' if fixed else None, mut(lambda x: x.update(t='see above')), pos))
                ops.append(('whitespace-only text', 'bad value' if fixed else None, mut(lambda x: x.update(t='  ')), pos))
                if n['t'] and not n['c']:
                    ops.append(('text removed (empty element)', None, mut(lambda x: x.update(t=None)), pos))
            else:
                ops.append(('a different valid value', 'bad value', mut(lambda x: x.update(t='8')), pos))
                ops.append(('another lexical form of the fixed value', None,
                            mut(lambda x: x.update(t='07' if x['t'] != '07' else '+7')), pos))
            if 'k' in n['a'] or nm in ('fm', 'dm', 'nm', 'fsc'):
                ops.append(('bad value of an attribute', 'bad attribute value', mut(lambda x: x['a'].update(k='x9')), pos))
            # (lxml keeps comments / PIs as children: a fixed mixed element with one was refused through lxml only,
            # finding C19-F5, fixed by dce758b: generated for every element, the defect coming back is a failing input)
            ops.append(('add a comment / processing instruction', None,
                        mut(lambda x: x.update(raw=rng.choice(['<!--c-->', '<?p i?>']))), pos))
        for op, kind, m, damaged in ops:
            xml = fx_ser(m)
            nm = m['c'][damaged[0]]['n']
            ctx.count(f'fixed/default x complex content family: {nm}: {op} -> ' + ('invalid' if kind else 'still valid'))
            for parser in ('etree', 'lxml'):
                case = dict(base, fault=kind, operator=op, node=list(damaged[:1]), damaged=list(damaged), parser=parser, xml=xml)
                if kind is None:
                    ctx.case(case, False, tag=f'fixed x complex family: not a fault (still valid)/{parser}')
                    run_case(ctx, case, xml, form, parser, None, reqs, pend)
                else:
                    run_case(ctx, case, xml, form, parser, damaged, reqs, pend)
                tie(case, xml, form, parser)
        if len(ctx.failures) >= 40:
            break
    if drv is not None:
        compare(ctx, drv, reqs, pend)
        bad = 0
        for (case, els, real), m in zip(fx_pend, drv.query(fx_reqs)):
            ctx.traces += len(els)
            if m.get('r') != real and bad < 3:
                bad += 1
                ctx.mismatch('fixed x mixed content: "must have the fixed value" at the element vs model libErr (FixedCC)',
                             dict(case, els=els), real, m.get('r'))
        ctx.count('fixed mixed elements compared with Model/FixedCC.libErr', sum(len(x[1]) for x in fx_pend))


def renders(ctx: Ctx, drv: Optional[Driver]) -> None:
    """get_prefixed_qname on random maps against the model; a rendered name must read back to the tag"""
    from xmlschema.utils.qnames import get_prefixed_qname
    rng = ctx.rng
    reqs, pend = [], []
    for _ in range(ctx.pick(1500, 15000)):
        ns: dict = {}
        for _ in range(rng.choice([0, 1, 2, 3, 4])):
            ns[rng.choice(['', 't', 'p', 'q'])] = rng.choice(['urn:t', 'urn:a', 'urn:b'])
        q = [rng.choice(['', 'urn:t', 'urn:a', 'urn:z']), rng.choice(['x', 'y'])]
        tag = '{%s}%s' % tuple(q) if q[0] else q[1]
        real = get_prefixed_qname(tag, ns)
        case = {'render': [[k, v] for k, v in ns.items()], 'q': q}
        ctx.case(case, bool(ns) and bool(q[0]), tag='render')
        back = expand(real, ns)
        if back != tag:
            detail = {'kind': 'path', 'namespaces': ns, 'nons_step': not q[0], 'selected': [], 'rendered': real, 'reads': back}
            fid = known_match(case, detail)
            if fid:
                ctx.known_hit(fid)
                ctx.count('known:' + fid + ' (render)')
            else:
                ctx.failure('a rendered step name does not read back to the tag', case, detail)
        reqs.append(case)
        pend.append((case, real))
    if drv is not None:
        for (case, real), m in zip(pend, drv.query(reqs)):
            ctx.traces += 1
            if m.get('name') != real:
                ctx.mismatch('get_prefixed_qname vs model renderName', case, real, m.get('name'))


def run(ctx: Ctx, driver_ok: bool) -> None:
    drv = Driver('drv_c19') if driver_ok else None
    ctx.known = ctx.known + [e for e in load_local_findings() if e['id'] not in {k['id'] for k in ctx.known}]
    tabs = Tables()
    explore(ctx, drv, tabs)
    # hypotheses of single_fault_localised on the real code (main schema family: no wildcards, no identity
    # constraints): own errors are a function of (declaration, tag, attributes, text, child names); the declaration
    # of a child is a function of (declaration of the parent, child name)
    ctx.traces += tabs.own_checks + tabs.gov_checks
    ctx.count('H-own observations compared', tabs.own_checks)
    ctx.count('H-gov observations compared', tabs.gov_checks)
    for c in tabs.own_conflicts[:3]:
        ctx.mismatch('H-own: own errors are not a function of (declaration, tag, attributes, text, child names)',
                     c['key'], c['now'], c['first'])
    for c in tabs.gov_conflicts[:3]:
        ctx.mismatch('H-gov (GovLocal): the declaration of a child is not a function of (parent declaration, name)',
                     c['key'], c['now'], c['first'])
    ctx.extra['hypotheses'] = {'H-own rows': len(tabs.own), 'H-own comparisons': tabs.own_checks,
                               'H-own conflicts': len(tabs.own_conflicts), 'H-gov rows': len(tabs.gov),
                               'H-gov comparisons': tabs.gov_checks, 'H-gov conflicts': len(tabs.gov_conflicts),
                               'declarations': len(tabs.decl)}
    wild_family(ctx, drv)
    na11_family(ctx, drv)
    same_family(ctx, drv)
    inh11_family(ctx, drv)
    cm_family(ctx, drv)
    nil_family(ctx, drv)
    vc_family(ctx, drv)
    fx_family(ctx, drv)
    renders(ctx, drv)
    lazy_paths(ctx, drv)
    ctx.extra['explanation'] = ('every fault of the catalogue at every node (documents <= 40 nodes exhaustively, 40 seeded '
                                'nodes beyond), ElementTree and lxml')


def search(ctx: Ctx) -> None:
    """a proof or the correspondence broke and nothing failed on the real code: more documents of the main family (every
    fault at every node, namespaces declared anywhere) and of the same-name family, property evaluation only (no
    driver), stopping at the first failing input and after 60 s"""
    import time
    deadline = time.time() + 60
    explore(ctx, None, None, n_docs=ctx.pick(150, 300), stop_after=1, deadline=deadline)
    if not ctx.failures and time.time() < deadline:
        same_family(ctx, None)
    if not ctx.failures and time.time() < deadline:
        fx_family(ctx, None)


def replay(ctx: Ctx, obj: dict) -> int:
    print(json.dumps(obj, indent=1, default=str)[:5000])
    case = obj.get('input')
    if not case or 'xml' not in case or 'lazy' in case:
        return 0
    ctx.known = ctx.known + [e for e in load_local_findings() if e['id'] not in {k['id'] for k in ctx.known}]
    reqs: list = []
    pend: list = []
    dmg = tuple(case['damaged']) if case.get('damaged') is not None else None
    sch = cm_schema(case) if case['form'] == 'cm' else schema(case['form'])
    run_case(ctx, case, case['xml'], case['form'], case['parser'], dmg, reqs, pend, sch=sch)
    import xmlschema
    for e in sch.iter_errors(xmlschema.XMLResource(case['xml'])):
        print('REAL  error:', e.path, '|', str(e.reason)[:100])
    try:
        for (c, positions), m in zip(pend, Driver('drv_c19').query(reqs)):
            for (pos, path, ns, _sel), r in zip(positions, m['r']):
                print('MODEL path :', r['path'], 'read with', ns, 'selects', r['sel'], '(element at', pos, ')')
    except Exception as e:  # noqa
        print('model not available:', e)
    for f in ctx.failures:
        print('FAILS ON THE REAL CODE:', f['what'], json.dumps(f['detail'], default=str)[:800])
    print('JUDGEMENT:', 'property violated' if ctx.failures else 'property holds on this input')
    return 1 if ctx.failures else 0
