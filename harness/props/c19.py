"""
C19 — errors point at the offending node and a single fault is always reported there.

Correspondence (I <-> M): for every validation error produced by the real validator on a faulted document, the
text of `error.path` is compared with the path the Lean model of `etree_getpath` (XsVerif/Model/Paths.lean)
computes for the position of `error.elem` in the tree (tags rendered with the error's namespace map by the
real `get_prefixed_qname`), and the model's evaluation of that path must be the singleton position
(`path_selects_unique`, proved for all trees).

Property evaluation on the real code (independent of Lean): an independent XPath child-step evaluator
resolves every step name with `error.namespaces` and must select exactly `error.elem` in the parsed
document; for every single-node fault from the catalogue, applied at every node of every generated valid
document, the document must be reported invalid, at least one error must be located at the damaged node or
its parent, and no error outside the damaged node's ancestor chain and subtree.  ElementTree and lxml trees.
Lazy resources: paths are explored and reported (no verdict).
"""
from __future__ import annotations

import json
import re
from typing import Any, Optional

from harness.core import Ctx, Driver

PROPS = 'XsVerif.Props.C19'
AUDIT = 'XsVerif.Audit.C19'
LEAN_TARGETS = ['XsVerif.Props.C19', 'drv_c19']
LEANCHECK = ['XsVerif.Model.Paths', 'XsVerif.Props.C19']
RULE = ('a case is (valid document, fault kind, damaged node, parser); non-trivial = the validator reported at '
        'least one error whose element has a same-named sibling (a positional predicate is needed) or lies at '
        'depth >= 2; distinct by canonical JSON of (document, fault, node, parser)')
TRUSTED = ['the XPath reading of a path (child steps, positional predicate among same-named siblings, names '
           'resolved with the error\'s namespace map, unprefixed names in the default namespace when one is bound) '
           'is the specification; it is implemented twice (Lean `select`, harness `xpath_select`)',
           'lxml / ElementTree tree construction']
ASSUMPTIONS = ['documents declare their namespaces on the root element only (three layouts: prefixed, default, '
               'both; qualified and unqualified local elements)',
               'faults are generated so that they invalidate by construction (required items removed, undeclared '
               'items added, order violated in a strictly ordered sequence, lexically invalid values for typed items)']

TNS = 'urn:t'


def xsd(form: str) -> str:
    return f'''<xs:schema xmlns:xs="http://www.w3.org/2001/XMLSchema" targetNamespace="{TNS}" xmlns:t="{TNS}"
 elementFormDefault="{form}">
 <xs:element name="root"><xs:complexType><xs:sequence>
   <xs:element name="head" type="t:Head"/>
   <xs:element name="item" type="t:Item" maxOccurs="unbounded"/>
   <xs:element name="note" type="xs:string" minOccurs="0" maxOccurs="3"/>
   <xs:element name="group" type="t:Group" minOccurs="0" maxOccurs="unbounded"/>
  </xs:sequence><xs:attribute name="version" type="xs:int" use="required"/></xs:complexType></xs:element>
 <xs:complexType name="Head"><xs:sequence>
   <xs:element name="title" type="xs:string"/>
   <xs:element name="date" type="xs:date"/>
   <xs:element name="flag" type="xs:boolean" minOccurs="0"/>
  </xs:sequence><xs:attribute name="lang" type="xs:language"/></xs:complexType>
 <xs:complexType name="Item"><xs:sequence>
   <xs:element name="name" type="xs:NCName"/>
   <xs:element name="qty" type="xs:positiveInteger"/>
   <xs:element name="price" type="xs:decimal" minOccurs="0"/>
   <xs:choice minOccurs="0" maxOccurs="2"><xs:element name="a" type="xs:int"/><xs:element name="b" type="xs:token"/></xs:choice>
  </xs:sequence><xs:attribute name="id" type="xs:int" use="required"/>
  <xs:attribute name="kind"><xs:simpleType><xs:restriction base="xs:string"><xs:enumeration value="x"/><xs:enumeration value="y"/></xs:restriction></xs:simpleType></xs:attribute>
 </xs:complexType>
 <xs:complexType name="Group"><xs:sequence>
   <xs:element name="item" type="t:Item" minOccurs="0" maxOccurs="unbounded"/>
   <xs:element name="group" type="t:Group" minOccurs="0" maxOccurs="unbounded"/>
  </xs:sequence><xs:attribute name="label" type="xs:NCName" use="required"/></xs:complexType>
</xs:schema>'''


# typed leaves: (valid value, invalid value or None when every string is valid)
LEAF = {'title': ('T', None), 'date': ('2020-01-31', '2020-13-45'), 'flag': ('true', 'maybe'),
        'name': ('n1', '1 bad'), 'qty': ('3', '-3'), 'price': ('1.50', '1,5'), 'a': ('7', 'seven'),
        'b': ('tok', None), 'note': ('text', None)}
ATTR_BAD = {'version': 'v1', 'id': 'x9', 'kind': 'z', 'label': '1 l', 'lang': '!!'}
REQUIRED_ATTR = {'root': ['version'], 'item': ['id'], 'group': ['label']}
# strictly ordered required prefix of each content model (names that must appear exactly once, in order)
REQUIRED_CHILDREN = {'root': ['head'], 'head': ['title', 'date'], 'item': ['name', 'qty']}

_SCHEMAS: dict = {}


def schema(form: str):
    if form not in _SCHEMAS:
        import xmlschema
        _SCHEMAS[form] = xmlschema.XMLSchema(xsd(form))
    return _SCHEMAS[form]


# ------------------------------------------------------------------------------------------------
# documents as nested dicts {'n': local name, 'a': {attr: value}, 't': text or None, 'c': [children]}
def gen_item(rng) -> dict:
    c = [{'n': 'name', 'a': {}, 't': 'n1', 'c': []}, {'n': 'qty', 'a': {}, 't': '3', 'c': []}]
    if rng.random() < 0.5:
        c.append({'n': 'price', 'a': {}, 't': '1.50', 'c': []})
    for _ in range(rng.choice([0, 0, 1, 2])):
        k = rng.choice('ab')
        c.append({'n': k, 'a': {}, 't': LEAF[k][0], 'c': []})
    a = {'id': str(rng.randrange(100))}
    if rng.random() < 0.4:
        a['kind'] = rng.choice('xy')
    return {'n': 'item', 'a': a, 't': None, 'c': c}


def gen_group(rng, depth: int) -> dict:
    c = [gen_item(rng) for _ in range(rng.choice([0, 1, 1, 2, 3]))]
    if depth > 0:
        c += [gen_group(rng, depth - 1) for _ in range(rng.choice([0, 0, 1, 2]))]
    return {'n': 'group', 'a': {'label': 'g'}, 't': None, 'c': c}


def gen_valid(rng, size: int) -> dict:
    head = {'n': 'head', 'a': ({'lang': 'en'} if rng.random() < 0.5 else {}), 't': None,
            'c': [{'n': 'title', 'a': {}, 't': 'T', 'c': []}, {'n': 'date', 'a': {}, 't': '2020-01-31', 'c': []}]
            + ([{'n': 'flag', 'a': {}, 't': 'true', 'c': []}] if rng.random() < 0.5 else [])}
    c = [head] + [gen_item(rng) for _ in range(rng.choice([1, 2, 3][:size + 1]))]
    c += [{'n': 'note', 'a': {}, 't': 'text', 'c': []} for _ in range(rng.choice([0, 1, 2, 3]))]
    c += [gen_group(rng, rng.choice([0, 1, 2][:size + 1])) for _ in range(rng.choice([0, 1, 2][:size + 1]))]
    return {'n': 'root', 'a': {'version': '1'}, 't': None, 'c': c}


def to_xml(d: dict, layout: str, form: str, comments: bool = False) -> str:
    """layout: 'prefixed' | 'default' | 'both'"""
    def name(n: dict, is_root: bool) -> str:
        if form == 'unqualified' and not is_root:
            return n['n']
        return 't:' + n['n'] if layout in ('prefixed', 'both') else n['n']

    def ser(n: dict, is_root: bool, depth: int = 0) -> str:
        tag = name(n, is_root)
        attrs = ''.join(f' {k}="{v}"' for k, v in n['a'].items())
        if depth == 1 and form == 'unqualified' and layout == 'default':
            attrs = ' xmlns=""' + attrs          # local elements are in no namespace
        if is_root:
            if layout in ('prefixed', 'both'):
                attrs = f' xmlns:t="{TNS}"' + attrs
            if layout in ('default', 'both'):
                attrs = f' xmlns="{TNS}"' + attrs
        inner = (n['t'] or '') + ''.join(('<!--c-->' if comments else '') + ser(c, False, depth + 1) for c in n['c'])
        return f'<{tag}{attrs}>{inner}</{tag}>'
    return ser(d, True)


def nodes(d: dict, pos: tuple = ()):
    yield pos, d
    for i, c in enumerate(d['c']):
        yield from nodes(c, pos + (i,))


def clone(d: dict) -> dict:
    return {'n': d['n'], 'a': dict(d['a']), 't': d['t'], 'c': [clone(c) for c in d['c']]}


def at(d: dict, pos: tuple) -> dict:
    for i in pos:
        d = d['c'][i]
    return d


def faults_at(d: dict, pos: tuple, rng) -> list:
    """single-node faults applicable at the node: (kind, mutated document, damaged position)"""
    n = at(d, pos)
    out = []
    nm = n['n']
    if nm in LEAF and LEAF[nm][1] is not None:
        m = clone(d)
        at(m, pos)['t'] = LEAF[nm][1]
        out.append(('bad value', m, pos))
    for k in n['a']:
        m = clone(d)
        at(m, pos)['a'][k] = ATTR_BAD[k]
        out.append(('bad attribute value', m, pos))
    for k in REQUIRED_ATTR.get(nm, []):
        m = clone(d)
        del at(m, pos)['a'][k]
        out.append(('missing attribute', m, pos))
    m = clone(d)
    at(m, pos)['a']['bogus'] = '1'
    out.append(('extra attribute', m, pos))
    if nm in REQUIRED_CHILDREN:
        req = REQUIRED_CHILDREN[nm]
        i = rng.randrange(len(req))
        m = clone(d)
        del at(m, pos)['c'][i]
        out.append(('missing child', m, pos))
        if len(req) >= 2:
            m = clone(d)
            c = at(m, pos)['c']
            c[0], c[1] = c[1], c[0]
            out.append(('misplaced child', m, pos + (0,)))
    if nm not in LEAF:
        m = clone(d)
        c = at(m, pos)['c']
        i = rng.randrange(len(c) + 1)
        c.insert(i, {'n': 'bogus', 'a': {}, 't': None, 'c': []})
        out.append(('extra child', m, pos + (i,)))
    else:
        m = clone(d)
        at(m, pos)['c'].append({'n': 'bogus', 'a': {}, 't': None, 'c': []})
        out.append(('extra child', m, pos + (0,)))
    return out


# ------------------------------------------------------------------------------------------------
STEP = re.compile(r'^(\{[^}]*\}[^\[\]/]+|[^\[\]/{}]+)(?:\[(\d+)\])?$')


def expand(name: str, ns: dict) -> Optional[str]:
    if name[:1] == '{':
        return name
    if ':' in name:
        p, loc = name.split(':', 1)
        return '{%s}%s' % (ns[p], loc) if ns.get(p) else None
    return '{%s}%s' % (ns[''], name) if ns.get('') else name


def xpath_select(root, path: str, ns: dict) -> Optional[list]:
    """elements selected by an absolute path of child steps; None = the path cannot be read"""
    if not path.startswith('/'):
        return None
    # split on '/' outside braces
    parts, cur, depth = [], '', 0
    for ch in path[1:]:
        if ch == '{':
            depth += 1
        elif ch == '}':
            depth -= 1
        if ch == '/' and depth == 0:
            parts.append(cur)
            cur = ''
        else:
            cur += ch
    parts.append(cur)
    sel = None
    for k, part in enumerate(parts):
        m = STEP.match(part)
        if not m:
            return None
        name = expand(m.group(1), ns)
        if name is None:
            return None
        idx = int(m.group(2)) if m.group(2) else None
        if k == 0:
            cand = [root] if root.tag == name else []
            sel = cand if idx in (None, 1) else []
        else:
            nxt = []
            for e in sel:
                same = [c for c in e if not callable(c.tag) and c.tag == name]
                if idx is None:
                    nxt.extend(same)
                elif 1 <= idx <= len(same):
                    nxt.append(same[idx - 1])
            sel = nxt
    return sel


def elem_children(e) -> list:
    return [c for c in e if not callable(c.tag)]


def position_of(root, elem) -> Optional[tuple]:
    """child-index path (element children only) of elem in the tree, by identity"""
    stack = [(root, ())]
    while stack:
        e, pos = stack.pop()
        if e is elem:
            return pos
        for i, c in enumerate(elem_children(e)):
            stack.append((c, pos + (i,)))
    return None


def rendered_tree(e, ns: dict) -> dict:
    from xmlschema.utils.qnames import get_prefixed_qname
    return {'t': get_prefixed_qname(e.tag, ns) if ns else e.tag, 'c': [rendered_tree(c, ns) for c in elem_children(e)]}


def known_match(case: dict, detail: dict) -> Optional[str]:
    """C19-F1: a step for an element in no namespace is written as a bare local name while the error's
    namespace map binds the empty prefix, so a reader takes it into the default namespace."""
    if detail.get('kind') == 'path' and (detail.get('namespaces') or {}).get('') and detail.get('nons_step') \
            and not detail.get('selected'):
        return 'C19-F1'
    return None


def load_local_findings() -> list:
    from harness.core import VERIF
    p = VERIF / 'notes' / 'findings' / 'C19.json'
    if not p.exists():
        return []
    return [e for e in json.loads(p.read_text()).get('findings', []) if e.get('property') == 'C19']


def run_case(ctx: Ctx, case: dict, xml: str, form: str, parser: str, damaged: Optional[tuple],
             reqs: list, pend: list) -> None:
    import xmlschema
    if parser == 'lxml':
        import lxml.etree as LE
        source = xmlschema.XMLResource(LE.fromstring(xml.encode()))
    else:
        source = xmlschema.XMLResource(xml)
    root = source.root
    errors = list(schema(form).iter_errors(source))
    ctx.count(f'errors per case:{min(len(errors), 4)}' + ('+' if len(errors) >= 4 else ''))
    if damaged is None:
        if errors:
            ctx.failure('generated valid document reported invalid', case, {'errors': [str(e.reason) for e in errors[:3]]})
        return
    if not errors:
        ctx.failure('a document damaged at a single node is reported valid', case, {'damaged': list(damaged)})
        return
    located = []
    nontrivial = False
    positions = []
    for e in errors:
        ctx.count('error class:' + type(e).__name__)
        if e.elem is None:
            ctx.failure('validation error without an element', case, {'reason': str(e.reason)})
            return
        pos = position_of(root, e.elem)
        if pos is None:
            ctx.failure('error element is not a node of the document', case, {'reason': str(e.reason)})
            return
        path = e.path
        ns = dict(e.namespaces or {})
        sel = xpath_select(root, path, ns) if path else None
        if sel is None or len(sel) != 1 or sel[0] is not e.elem:
            chain = [at_elem(root, pos[:k]) for k in range(1, len(pos) + 1)]
            detail = {'kind': 'path', 'path': path, 'namespaces': ns,
                      'selected': None if sel is None else [position_of(root, x) for x in sel],
                      'nons_step': any(x.tag[:1] != '{' for x in chain),
                      'element_position': list(pos), 'reason': str(e.reason)[:120]}
            fid = known_match(case, detail)
            if fid:
                ctx.known_hit(fid)
                ctx.count('known:' + fid)
            else:
                ctx.failure('error path does not select exactly the element the error is about', case, detail)
                return
        located.append(pos)
        positions.append((list(pos), path, ns))
        parent = at_elem(root, pos[:-1]) if pos else None
        if len(pos) >= 2 or (parent is not None and sum(1 for c in elem_children(parent) if c.tag == e.elem.tag) > 1):
            nontrivial = True
    # location clause
    anc = [damaged[:k] for k in range(len(damaged) + 1)]
    ok_zone = all(p in anc or p[:len(damaged)] == damaged for p in located)
    near = any(p == damaged or p == damaged[:-1] for p in located)
    if not ok_zone:
        ctx.failure('an error is located outside the damaged node\'s ancestor chain and subtree', case,
                    {'damaged': list(damaged), 'located': [list(p) for p in located]})
    elif not near:
        ctx.failure('no error is located at the damaged node or its parent', case,
                    {'damaged': list(damaged), 'located': [list(p) for p in located]})
    ctx.case(case, nontrivial, tag=f"{case['fault']}/{parser}")
    # model side
    ns0 = positions[0][2]
    reqs.append({'tree': rendered_tree(root, ns0), 'pos': [p for p, _, _ in positions]})
    pend.append((case, positions))


def at_elem(root, pos: tuple):
    e = root
    for i in pos:
        e = elem_children(e)[i]
    return e


def compare(ctx: Ctx, drv: Driver, reqs: list, pend: list) -> None:
    for (case, positions), m in zip(pend, drv.query(reqs)):
        if 'err' in m:
            ctx.mismatch('driver error', case, None, m)
            continue
        for (pos, path, ns), r in zip(positions, m['r']):
            ctx.traces += 1
            if r['path'] != path:
                ctx.mismatch('error.path vs model getPath', case, path, r['path'])
            elif r['sel'] != [pos]:
                ctx.mismatch('model select of the path', case, [pos], r['sel'])


def explore(ctx: Ctx, drv: Optional[Driver]) -> None:
    rng = ctx.rng
    n_docs = ctx.pick(70, 700)
    reqs: list = []
    pend: list = []
    layouts = ['prefixed', 'default', 'both']
    for di in range(n_docs):
        size = rng.choice([0, 1, 1, 2])
        doc = gen_valid(rng, size)
        form = 'qualified' if di % 3 else 'unqualified'
        layout = layouts[di % 3] if form == 'qualified' else ('default' if di % 2 else 'prefixed')
        comments = rng.random() < 0.3
        nn = list(nodes(doc))
        ctx.count(f'document nodes:{len(nn) // 10 * 10}+')
        base = {'doc': di, 'form': form, 'layout': layout, 'comments': comments}
        for parser in ('etree', 'lxml'):
            run_case(ctx, dict(base, fault=None, parser=parser, xml=to_xml(doc, layout, form, comments)),
                     to_xml(doc, layout, form, comments), form, parser, None, reqs, pend)
        exhaustive = len(nn) <= 40
        chosen = nn if exhaustive else rng.sample(nn, 40)
        for pos, _ in chosen:
            for kind, mutated, damaged in faults_at(doc, pos, rng):
                xml = to_xml(mutated, layout, form, comments)
                for parser in ('etree', 'lxml'):
                    case = dict(base, fault=kind, node=list(pos), damaged=list(damaged), parser=parser, xml=xml)
                    try:
                        run_case(ctx, case, xml, form, parser, tuple(damaged), reqs, pend)
                    except Exception as e:  # noqa
                        ctx.failure('validation raised', case, {'exception': repr(e)[:300]})
        if ctx.time_left() < 120:
            ctx.notes.append('exploration stopped early (time budget)')
            break
    if drv is not None:
        compare(ctx, drv, reqs, pend)


def lazy_report(ctx: Ctx) -> None:
    """lazy resources: paths of pruned trees, explored and reported only"""
    import xmlschema
    rng = ctx.rng
    same = diff = 0
    examples = []
    for _ in range(ctx.pick(12, 60)):
        doc = gen_valid(rng, 1)
        nn = list(nodes(doc))
        pos, _ = rng.choice(nn)
        fl = faults_at(doc, pos, rng)
        kind, mutated, damaged = rng.choice(fl)
        xml = to_xml(mutated, 'prefixed', 'qualified')
        full = sorted(str(e.path) for e in schema('qualified').iter_errors(xmlschema.XMLResource(xml)))
        try:
            lazy = sorted(str(e.path) for e in schema('qualified').iter_errors(xmlschema.XMLResource(xml, lazy=True)))
        except Exception as e:  # noqa
            lazy = ['raised ' + type(e).__name__]
        if full == lazy:
            same += 1
        else:
            diff += 1
            if len(examples) < 3:
                examples.append({'fault': kind, 'full': full[:3], 'lazy': lazy[:3]})
    ctx.extra['lazy_paths'] = {'same_as_full': same, 'different': diff, 'examples': examples,
                               'note': 'reported only; lazy resources prune the tree, positions may differ'}


def renders(ctx: Ctx, drv: Optional[Driver]) -> None:
    """get_prefixed_qname on random maps against the model; a rendered name must read back to the tag"""
    from xmlschema.utils.qnames import get_prefixed_qname
    rng = ctx.rng
    reqs, pend = [], []
    for _ in range(ctx.pick(1500, 15000)):
        ns: dict = {}
        for _ in range(rng.choice([0, 1, 2, 3, 4])):
            ns[rng.choice(['', 't', 'p', 'q'])] = rng.choice(['urn:t', 'urn:a', 'urn:b'])
        q = [rng.choice(['', 'urn:t', 'urn:a', 'urn:z']), rng.choice(['x', 'y'])]
        tag = '{%s}%s' % tuple(q) if q[0] else q[1]
        real = get_prefixed_qname(tag, ns)
        case = {'render': [[k, v] for k, v in ns.items()], 'q': q}
        ctx.case(case, bool(ns) and bool(q[0]), tag='render')
        back = expand(real, ns)
        if back != tag:
            detail = {'kind': 'path', 'namespaces': ns, 'nons_step': not q[0], 'selected': [], 'rendered': real, 'reads': back}
            fid = known_match(case, detail)
            if fid:
                ctx.known_hit(fid)
                ctx.count('known:' + fid + ' (render)')
            else:
                ctx.failure('a rendered step name does not read back to the tag', case, detail)
        reqs.append(case)
        pend.append((case, real))
    if drv is not None:
        for (case, real), m in zip(pend, drv.query(reqs)):
            ctx.traces += 1
            if m.get('name') != real:
                ctx.mismatch('get_prefixed_qname vs model renderName', case, real, m.get('name'))


def run(ctx: Ctx, driver_ok: bool) -> None:
    drv = Driver('drv_c19') if driver_ok else None
    ctx.known = ctx.known + load_local_findings()
    explore(ctx, drv)
    renders(ctx, drv)
    lazy_report(ctx)
    ctx.extra['explanation'] = ('every fault of the catalogue at every node (documents <= 40 nodes exhaustively, 40 seeded '
                                'nodes beyond), ElementTree and lxml')


def search(ctx: Ctx) -> None:
    if ctx.quick():
        saved = ctx.tier
        ctx.tier = 'thorough'
        try:
            explore(ctx, None)
        finally:
            ctx.tier = saved


def replay(ctx: Ctx, obj: dict) -> int:
    print(json.dumps(obj, indent=1, default=str)[:5000])
    case = obj.get('input')
    if not case or 'xml' not in case:
        return 0
    reqs: list = []
    pend: list = []
    dmg = tuple(case['damaged']) if case.get('damaged') is not None else None
    run_case(ctx, case, case['xml'], case['form'], case['parser'], dmg, reqs, pend)
    import xmlschema
    for e in schema(case['form']).iter_errors(xmlschema.XMLResource(case['xml'])):
        print('REAL  error:', e.path, '|', str(e.reason)[:100])
    try:
        for (c, positions), m in zip(pend, Driver('drv_c19').query(reqs)):
            for (pos, path, ns), r in zip(positions, m['r']):
                print('MODEL path :', r['path'], 'selects', r['sel'], '(element at', pos, ')')
    except Exception as e:  # noqa
        print('model not available:', e)
    for f in ctx.failures:
        print('FAILS ON THE REAL CODE:', f['what'], json.dumps(f['detail'], default=str)[:800])
    print('JUDGEMENT:', 'property violated' if ctx.failures else 'property holds on this input')
    return 1 if ctx.failures else 0
