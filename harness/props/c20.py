"""
C20 — schema paths match instance paths; partial validation/decoding equals the full result.

Correspondence (implementation vs Lean models XsVerif/Model/SchemaPaths.lean + Model/PathEval.lean + Model/Lazy.lean,
driver drv_c20):
  * `schema.findall(path)` for every element path of the document vs `findAll` on the introspected schema graph
    (children, substitution members, wildcards with the names they admit, global elements in XPath order),
  * `schema.get_element(tag, '/root/*')` and `get_element(tag, full path)` vs the port with its fall-backs,
  * every generated path form (child / `*` / `//` steps, positional predicates, absolute / relative) evaluated in the
    model on the instance tree (`selC`) vs `resource.iterfind` — same elements in the same order — and, for the forms
    without `//`, evaluated in the model on the schema graph (`findAllP`, SchemaFindParser's predicate rule) vs
    `schema.findall` of the schema path,
  * `iter_errors(doc, path='*' | '*/*')` and `iter_errors(doc, max_depth=k)` vs the compositional validator of the
    model instantiated with the error segments measured on the full run.
Property evaluation on the real code (independent of Lean):
  * find(path) has the name and type of the declaration recorded by `validation_hook` for that element
    (all spellings: Clark, prefixed, default namespace, with and without positional predicates),
  * get_element(tag, path) — the lookup of the path-driven runs — is that declaration too (same spellings),
  * errors/data of `path=`-selected parts == the matching part of the full result, for every sampled element in the
    path forms abs, abs+positions, rel, rel+positions, last-step position, `//n`, `.//n`, `/r//n`, `c//n`, `*/…/n`,
    `…/*`, and for every substitution-group member of the substitution family in all of them,
  * identity-constraint errors of path-selected parts == what a partial run can and must report (see ASSUMPTIONS:
    scope inside a part -> the full run's; scope = proper ancestor -> per scope instance among the selected nodes),
    on schemas with key/unique/keyref on the root, on repeated intermediate ancestors and on the selected elements
    (identity family), in every path form; the loop of iter_errors that re-binds the counters is ported (`loopC`,
    Model/IdentScope.lean) and compared on every such case,
  * errors/data with max_depth == the full result above the cut.
Known deviations are matched only through an exact prediction: the fall-back rule of get_element applied by the
harness to schema.find (`port_get_element`, never a call of get_element) names the declaration each selected element
is processed with, `errors_as` replays the loop's own call with it, and the run must report exactly that.
"""
from __future__ import annotations

import json
import re
from pathlib import Path
from typing import Any, Optional

from harness.core import Ctx, Driver, VERIF
from harness import lib_lazy as L
from harness.props import c06 as C6

PROPS = 'XsVerif.Props.C20'
AUDIT = 'XsVerif.Audit.C20'
LEAN_TARGETS = ['XsVerif.Props.C20', 'drv_c20']
LEANCHECK = ['XsVerif.Model.SchemaPaths', 'XsVerif.Model.PathEval', 'XsVerif.Model.IdentScope', 'XsVerif.Model.Lazy', 'XsVerif.Lemmas.Lazy',
             'XsVerif.Lemmas.PathEval', 'XsVerif.Props.C20']
RULE = ('a case is one (generated schema, generated document, element path spelling | path form | path= selection | '
        'max_depth) — schemas with local declarations, references, substitution groups (members with restricted, '
        'extended and unrelated simple types), wildcard tails, xsi:type-extensible named types and the same local name '
        'with different types in different contexts; non-trivial = the path has >= 2 steps, or the selected part / the '
        'cut separates errors, or the step goes through a reference, a substitution member, a wildcard or an xsi:type; '
        'distinct by canonical JSON')
TRUSTED = ['elementpath evaluates the XPath: for the generated path forms its selection on the instance (elements and '
           'order) is compared with the in-model evaluator on every case; on the schema the forms with a `//` step are '
           'exercised on the real code only (schema-side descendant iteration is not modelled)',
           'the abstract validator of the model is instantiated from error segments measured on the real full run']
ASSUMPTIONS = ['ID/IDREF errors depend on document-wide tables and are left out when a part or a depth-limited run is compared '
               'with the whole. Identity constraints ARE compared for path-selected parts: a constraint whose scope element '
               'lies inside a selected part -> exactly the errors of the full run for that scope instance (keyrefs included); '
               'a key/unique whose scope is a proper ancestor of the selection (the root included) -> for every scope '
               'instance separately, a duplicate for the node at which a value occurs for the second time among its nodes '
               'inside the selected parts and a missing-field error for every such node of a key (evaluated by the harness '
               'from the selector/field paths, after checking that this evaluation agrees with the full run on the whole '
               'document); keyrefs whose scope is a proper ancestor need key nodes outside the parts and are excluded, as '
               'are nested selections and selections that are not in document order; for max_depth cuts identity errors '
               'are still left out',
               'namespace-declaration pseudo-attributes at the root of a separately decoded part follow the documented '
               '"single decoding process" rule (only for global elements, then all namespaces in scope) and are not compared',
               'the claim about find(path) is made for valid documents; invalid ones are explored too (same rule)',
               'findings repaired in /repo have no rule (C20-F2 d54abee; of C20-F3 the case "prefix declared on the selected '
               'element itself", c3a1309): a recurrence is a violation',
               'the parts of a nested selection (`//d` with d inside d) are compared element by element: the inner part is '
               'reported twice; `a//b` selections are taken in the order elementpath yields them (not document order)',
               'spurious nodes that a run leaves in the schema\'s XPath tree (finding C20-F6) are removed by the harness '
               'before every lookup and run, so that a case never depends on the previous ones']

FINDINGS_FILE = VERIF / 'notes' / 'findings' / 'C20.json'
XSI_TYPE = '{%s}type' % L.XSI


def load_findings() -> list[dict]:
    if FINDINGS_FILE.exists():
        return json.loads(FINDINGS_FILE.read_text()).get('findings', [])
    return []


def local(tag: str) -> str:
    return tag.split('}')[-1]


# ---------------------------------------------------------------------------------------------------
# introspection of the schema graph

def schema_graph(schema, universe: list[str]) -> tuple[dict, dict]:
    """rows of the model's Schema + map id(component) -> row id"""
    from xmlschema.validators import XsdElement, XsdAnyElement
    ids: dict[int, int] = {}
    rows: list[dict] = []
    types: dict[int, int] = {}
    todo = list(schema)

    def rid(c) -> int:
        if id(c) not in ids:
            ids[id(c)] = len(ids)
            todo.append(c)
        return ids[id(c)]
    globals_ = [rid(g) for g in schema]
    seen = set()
    while todo:
        c = todo.pop()
        if id(c) in seen:
            continue
        seen.add(id(c))
        me = rid(c)
        if isinstance(c, XsdAnyElement):
            rows.append({'id': me, 'subst': [], 'wc': [n for n in universe if c.is_matching(n)], 'ty': 0, 'kids': []})
            continue
        kids = [rid(k) for k in c]
        rows.append({'id': me, 'name': c.name, 'subst': sorted(c.substitutes or ()), 'wc': [],
                     'ty': types.setdefault(id(c.type), len(types) + 1), 'kids': kids})
    return {'decls': rows, 'globals': globals_}, ids


class Doc:
    """a document, its full run and the path bookkeeping"""

    def __init__(self, schema, spec, xml: bytes):
        unpollute(schema)
        self.eg = C6.Eager(schema, xml)
        eg = self.eg
        self.polluted = unpollute(schema)     # finding C20-F6: the full run left nodes in the schema's XPath tree
        self.tns = spec.tns
        self.schema = schema
        # plain step: the element is governed by a named child of the declared type of its parent's declaration
        self.plain: dict[int, bool] = {}
        from xmlschema.validators import XsdElement
        for nid, depth, parent, node in eg.flat:
            g = eg.gov.get(nid)
            if parent is None:
                self.plain[nid] = g is not None and g.name == node['tag'] and XSI_TYPE not in eg.elem[nid].attrib
                continue
            pg = eg.gov.get(parent)
            ok = False
            if g is not None and pg is not None and XSI_TYPE not in eg.elem[parent].attrib:
                named = [c for c in pg if isinstance(c, XsdElement)]
                ok = any((c is g or (c.ref is not None and c.ref is g) or (g.ref is not None and g.ref is c) or
                          (c.name == g.name and c.type is g.type)) and c.name == node['tag'] for c in named)
            self.plain[nid] = ok

    def chain(self, nid: int) -> list[int]:
        out = []
        while nid is not None:
            out.append(nid)
            nid = self.eg.parent[nid]
        return out[::-1]

    def all_plain(self, nid: int) -> bool:
        return all(self.plain[i] for i in self.chain(nid))

    def position(self, nid: int) -> tuple[int, int]:
        """(position among equally named siblings, number of them)"""
        p = self.eg.parent[nid]
        if p is None:
            return 1, 1
        sib = [c['id'] for c in self.eg.node[p]['cs'] if c['tag'] == self.eg.node[nid]['tag']]
        return sib.index(nid) + 1, len(sib)

    def spell(self, nid: int, form: str, positions: bool) -> tuple[str, Optional[dict]]:
        steps = []
        for i in self.chain(nid):
            tag = self.eg.node[i]['tag']
            if form == 'clark' or not self.tns:
                s = tag
            elif form == 'prefix':
                s = 'w0:' + local(tag)      # a prefix that no generated document binds or uses in a QName value
            else:
                s = local(tag)
            if positions:
                k, n = self.position(i)
                if n > 1:
                    s += f'[{k}]'
            steps.append(s)
        ns = None
        if self.tns and form == 'prefix':
            ns = {'w0': L.TNS}
        elif self.tns and form == 'default':
            ns = {'': L.TNS}
        return '/' + '/'.join(steps), ns


def note_pollution(ctx: Ctx, doc: 'Doc', base: dict) -> None:
    """C20-F6 observed directly: after the full validation of the document the schema's XPath tree has top-level nodes
    that are not global elements (schema.findall('/*') returns them)"""
    if doc.polluted:
        ctx.known_hit('C20-F6', dict(base, api="schema.findall('/*') after a full validation"),
                      {'kind': 'pollution', 'spurious top-level nodes': doc.polluted})
        ctx.count('full-run-pollutes-schema-xpath-tree')


def is_qname_decl(xe: Any) -> bool:
    """the declaration has the simple type xs:QName (namespace-sensitive text content)"""
    try:
        t = xe.type
        return bool(t.is_simple() and t.root_type.name == '{http://www.w3.org/2001/XMLSchema}QName')
    except AttributeError:
        return False


# ---------------------------------------------------------------------------------------------------
# generated path forms.  A path is {'abs': bool, 'steps': [[axis, name, pos], ...]}: axis 'child' | 'desc'
# (`/name` | `//name`), name = an expanded element name or '*', pos = None | k (predicate [k]).  An absolute
# path starts at the document node (its first child step names the root element), a relative one at the root
# element (a leading descendant step is written `.//name`).

def spell_path(P: dict, form: str, tns: bool) -> tuple[str, Optional[dict]]:
    out = ''
    for i, (axis, name, pos) in enumerate(P['steps']):
        if name == '*' or form == 'clark' or not tns or not name.startswith('{'):
            s_ = name
        elif form == 'prefix':
            s_ = 'w0:' + local(name)
        else:
            s_ = local(name)
        if pos is not None:
            s_ += f'[{pos}]'
        sep = '/' if axis == 'child' else '//'
        if i == 0 and not P['abs']:
            sep = '' if axis == 'child' else './/'
        out += sep + s_
    ns = None
    if tns and form == 'prefix':
        ns = {'w0': L.TNS}
    elif tns and form == 'default':
        ns = {'': L.TNS}
    return out, ns


def sel_eval(tree: dict, P: dict) -> list[int]:
    """the elements the path denotes (XPath reading of child / descendant-or-self::node()/child steps with a
    positional predicate per context node), as preorder ids in document order — independent of elementpath"""
    DOC = {'id': -1, 'tag': None, 'cs': [tree]}
    cur = [DOC if P['abs'] else tree]

    def dos(n: dict, out: list) -> list:
        out.append(n)
        for c in n['cs']:
            dos(c, out)
        return out
    for axis, name, pos in P['steps']:
        nxt: dict[int, dict] = {}
        for c in cur:
            for d in (dos(c, []) if axis == 'desc' else [c]):
                kids = [k for k in d['cs'] if name == '*' or k['tag'] == name]
                if pos is not None:
                    kids = kids[pos - 1:pos]
                for k in kids:
                    nxt[k['id']] = k
        cur = [nxt[i] for i in sorted(nxt)]
    return [n['id'] for n in cur]


def to_clark(path: str, namespaces: Any) -> str:
    """a generated path (child / descendant steps, names with an optional prefix, `*`, `[k]`) in Clark spelling"""
    namespaces = namespaces or {}
    out = []
    for step in path.split('/'):
        m = re.match(r'^([A-Za-z_][\w.-]*:)?([A-Za-z_][\w.-]*)(\[\d+\])?$', step)
        if not m:
            out.append(step)            # '', '.', '*', '*[k]', '{uri}name…'
            continue
        pfx = (m.group(1) or ':')[:-1]
        uri = namespaces.get(pfx)
        out.append(('{%s}%s' % (uri, m.group(2)) if uri else m.group(2)) + (m.group(3) or ''))
    return '/'.join(out)


def abs_schema_path(root_tag: str, path: str) -> str:
    """xml_loader.py:207-215 get_absolute_path(path) for a path that is given"""
    return path if path.startswith('/') else f'/{root_tag}/{path}'


def port_get_element(schema: Any, tag: str, path: str, namespaces: Any) -> Any:
    """schemas.py:946-963 get_element as it is specified by its three fall-backs, on top of `schema.find` (the XPath
    machinery, finding C20-F1 lives there) — NOT a call of get_element: this is the reference the real lookup of a
    path-driven run is judged against"""
    from xmlschema.validators import XsdElement
    if not path or path == tag or path == f'/{tag}':
        return schema.maps.elements.get(tag)
    if path[-1] == '*':
        d = schema.find(path[:-1] + tag, namespaces)
        return d if isinstance(d, XsdElement) else schema.maps.elements.get(tag)
    d = schema.find(path, namespaces)
    if not isinstance(d, XsdElement):
        return None
    if d.name != tag:
        return schema.maps.elements.get(tag)
    return d


def gov_equal(d: Any, g: Any) -> bool:
    from xmlschema.validators import XsdElement
    return d is g or (isinstance(d, XsdElement) and g is not None and d.name == g.name and d.type is g.type)


def errors_as(eg: Any, elem: Any, xsd_element: Any, namespaces: Any, ancestors: Optional[list] = None) -> list:
    """(path, error) of the path-driven loop for one selected element validated against `xsd_element`
    (schemas.py:1364-1385 as it is now: context at level 1 on the document, the element's own declarations
    pushed, XsdElement.raw_decode); fresh context: no document-wide tables.
    `ancestors` (elements strictly between the root and `elem`): their declarations are pushed first, at lower
    levels - what notes/fixes/C20-path-ancestors-xmlns.patch makes the loop do."""
    from xmlschema.namespaces import NamespaceMapper
    from xmlschema.validators.validation import ValidationContext
    from xmlschema.validators.exceptions import XMLSchemaStopValidation
    context = ValidationContext(source=eg.res, converter=NamespaceMapper(namespaces, source=eg.res), level=1,
                                check_identities=True, use_defaults=True)
    for k, e in enumerate(ancestors or [], 1 - len(ancestors or [])):
        context.converter.set_xmlns_context(e, k)
    context.converter.set_xmlns_context(elem, context.level)
    try:
        xsd_element.raw_decode(elem, 'lax', context)
    except XMLSchemaStopValidation:
        pass
    return [(C6.bare_path(e.path), C6.canon_err(e)) for e in context.errors]


# ---------------------------------------------------------------------------------------------------
# finding C20-F6: a validation run can append spurious top-level nodes to the schema's XPath tree
# (XsdElement.xpath_node / XsdAnyElement.xpath_node -> build_schema_node_tree(global_elements=schema_node.children)).
# The harness removes them before every lookup / run so that one case cannot influence the next one, and re-runs a
# deviating call with exactly that defect repaired (the two call sites get a copy of the list) to attribute it.

def unpollute(schema: Any) -> int:
    node = schema.xpath_node
    globals_ = {id(e) for e in schema.maps.elements.values()}
    keep = [c for c in node.children if id(getattr(c, 'value', None)) in globals_]
    n = len(node.children) - len(keep)
    if n:
        node.children[:] = keep
    return n


class repaired_xpath_nodes:
    """context manager: elements.py:431 / wildcards.py:479 pass a copy of the schema node's children"""

    def __enter__(self):
        import xmlschema.validators.elements as E_
        import xmlschema.validators.wildcards as W_
        self.mods = (E_, W_)
        self.orig = E_.build_schema_node_tree

        def safe(root, uri=None, elements=None, global_elements=None):
            return self.orig(root, uri, elements, None if global_elements is None else list(global_elements))
        for m in self.mods:
            m.build_schema_node_tree = safe
        return self

    def __exit__(self, *a):
        for m in self.mods:
            m.build_schema_node_tree = self.orig


NOT_FOUND_RE = re.compile(r"global component .* not found")


def known_match(case: dict, detail: dict) -> Optional[str]:
    kind = detail.get('kind')
    if kind == 'find':
        # the path goes through a step that is not a plain named child (substitution member, wildcard-admitted
        # element, xsi:type on an ancestor), or a positional predicate > 1 meets a wildcard sibling
        if detail.get('non_plain_step') or detail.get('predicate_meets_wildcard'):
            return 'C20-F1'
        return None
    if kind == 'get_element':
        # the lookup of the path-driven runs: also its fall-back rule applied to schema.find (port_get_element) does
        # not give the governing declaration, and the path has a step that is not a plain named child
        if detail.get('port_governing') is False and (detail.get('non_plain_step') or detail.get('predicate_meets_wildcard')):
            return 'C20-F1'
        return None
    # (an AttributeError of path= validation with a wildcard on an ancestor level was finding C20-F2, fixed by d54abee:
    #  no rule, any exception of partial validation is a failure)
    if kind == 'partial':
        # some selected elements are looked up (fall-back rule on schema.find, not the real get_element) to another
        # declaration than the governing one - each for a listed reason - and the result is exactly the one
        # predicted with those declarations (the other selected elements agree with the full result)
        reasons = detail.get('reasons') or []
        if not reasons or not detail.get('as_predicted') or any(r is None for r in reasons):
            return None
        return 'C20-F4' if 'F4' in reasons else 'C20-F1'
    if kind == 'partial-scope':
        # what remains of C20-F3 after c3a1309: a prefix used by an xsi:type inside the selected part is bound by an
        # element strictly between the root and the selected element; outside such elements the results agree
        return 'C20-F3' if detail.get('unscoped_type_nodes') and detail.get('same_outside') else None
    if kind == 'selection':
        # C20-F5: split_path drops every './' - a relative descendant path './/x' is read as '/x' and selects nothing
        if case.get('path', '').startswith('.//') and detail.get('real') == [] and detail.get('denoted'):
            return 'C20-F5'
        return None
    return None


def non_stateful(seq: list) -> list:
    return [x for x in seq if not C6.STATEFUL.search(x[1])]


# ---------------------------------------------------------------------------------------------------

def check_find(ctx: Ctx, spec, doc: Doc, reqs: list, pend: list, base: dict) -> None:
    from xmlschema.validators import XsdElement, XsdAnyElement
    eg, schema = doc.eg, doc.schema
    valid = not eg.errors
    universe = sorted({n['tag'] for _, _, _, n in eg.flat} | {g.name for g in schema} | {('{%s}zz' % L.TNS) if spec.tns else 'zz'})
    graph, gid = schema_graph(schema, universe)
    forms = ['clark', 'prefix', 'default'] if spec.tns else ['clark']
    for nid, depth, parent, node in eg.flat:
        g = eg.gov.get(nid)
        if g is None:
            ctx.count('element:not-visited')
            continue
        allp = doc.all_plain(nid)
        ctx.count('step:' + ('plain' if doc.plain[nid] else 'non-plain'))
        by_clark: dict = {}
        for form in forms:
            for positions in (False, True):
                path, ns = doc.spell(nid, form, positions)
                case = dict(base, api='find', path=path, namespaces=ns, valid_document=valid)
                try:
                    d = schema.find(path, ns)
                except Exception as ex:  # noqa
                    ctx.failure('schema.find raised on an instance path', case, repr(ex))
                    continue
                # the spelling of the namespace (Clark, prefix, default namespace) must not change the lookup
                if form == 'clark':
                    by_clark[positions] = d
                elif positions in by_clark and d is not by_clark[positions]:
                    ctx.failure('schema.find(path of the element) depends on the spelling of the namespace in the path',
                                case, {'kind': 'spelling', 'found': repr(d), 'found with the Clark spelling': repr(by_clark[positions]),
                                       'governing': repr(g)})
                    continue
                ctx.case(case, depth >= 1 or not allp, 'api:find')
                same = d is g or (isinstance(d, XsdElement) and d.name == g.name and d.type is g.type)
                ctx.count('find:%s' % ('governing' if same else 'other'))
                if not same:
                    pred_wild = False
                    if positions:
                        for i in doc.chain(nid)[1:]:
                            k, n = doc.position(i)
                            pg = eg.gov.get(eg.parent[i])
                            if k > 1 and pg is not None and any(isinstance(c, XsdAnyElement) and c.is_matching(eg.node[i]['tag'])
                                                                for c in pg):
                                pred_wild = True
                    detail = {'kind': 'find', 'found': repr(d), 'governing': repr(g), 'non_plain_step': not allp,
                              'predicate_meets_wildcard': pred_wild}
                    fid = known_match(case, detail)
                    if fid:
                        ctx.known_hit(fid)
                    else:
                        ctx.failure('schema.find(path of the element) is not the declaration that governs the element', case, detail)
                # the lookup used by the path-driven runs (find + the fall-backs of get_element) in the same spelling
                if depth >= 1:
                    case_g = dict(case, api='get_element', tag=node['tag'])
                    try:
                        ge = schema.get_element(node['tag'], path, ns)
                    except Exception as ex:  # noqa
                        ctx.failure('schema.get_element raised on an instance path', case_g, repr(ex))
                        continue
                    ctx.case(case_g, True, 'api:get_element')
                    if form == 'clark':
                        by_clark[('ge', positions)] = ge
                    elif ('ge', positions) in by_clark and ge is not by_clark[('ge', positions)]:
                        ctx.failure('schema.get_element(tag, path of the element) depends on the spelling of the namespace '
                                    'in the path', case_g, {'kind': 'spelling', 'found': repr(ge), 'governing': repr(g),
                                                            'found with the Clark spelling': repr(by_clark[('ge', positions)])})
                        continue
                    if gov_equal(ge, g):
                        ctx.count('get_element:governing')
                    else:
                        ctx.count('get_element:other')
                        pg_ = port_get_element(schema, node['tag'], to_clark(path, ns), None)
                        pred_wild = positions and any(
                            doc.position(i)[0] > 1 and eg.gov.get(eg.parent[i]) is not None and
                            any(isinstance(c, XsdAnyElement) and c.is_matching(eg.node[i]['tag']) for c in eg.gov[eg.parent[i]])
                            for i in doc.chain(nid)[1:])
                        detail = {'kind': 'get_element', 'found': repr(ge), 'governing': repr(g),
                                  'by the fall-back rule on schema.find': repr(pg_), 'port_governing': gov_equal(pg_, g),
                                  'non_plain_step': not allp, 'predicate_meets_wildcard': pred_wild}
                        fid = known_match(case_g, detail)
                        if fid:
                            ctx.known_hit(fid)
                        else:
                            ctx.failure('schema.get_element(tag, path of the element) is not the declaration that governs '
                                        'the element', case_g, detail)
        # model: findall on the Clark path without positions
        path, _ = doc.spell(nid, 'clark', False)
        steps = [eg.node[i]['tag'] for i in doc.chain(nid)]
        real = [gid.get(id(x), -1) for x in schema.findall(path)]
        reqs.append(dict(graph, op='findall', steps=steps))
        pend.append(('findall', dict(base, api='findall', path=path), real, gid.get(id(g), -1) if allp else None))
        # get_element with the star path of the lazy driver and with the full path
        if depth >= 1:
            tag = node['tag']
            psteps = steps[:-1]
            star = '/' + '/'.join(psteps) + '/*'
            r1 = schema.get_element(tag, star)
            reqs.append(dict(graph, op='get_element', tag=tag, steps=psteps, star=True))
            pend.append(('get_element', dict(base, api='get_element', tag=tag, path=star), None if r1 is None else gid.get(id(r1), -1), None))
            r2 = schema.get_element(tag, path)
            reqs.append(dict(graph, op='get_element', tag=tag, steps=steps, star=False))
            pend.append(('get_element', dict(base, api='get_element', tag=tag, path=path), None if r2 is None else gid.get(id(r2), -1), None))


def truth_part(eg: C6.Eager, selected: list[int]) -> list:
    """the matching part of the full result for a selection: the errors owned inside each selected element, element
    by element in document order (a nested selection repeats the inner part) — (path, error, owner)"""
    out = []
    for s_ in selected:
        for i, o in enumerate(eg.owner):
            if eg.in_subtree(o, s_):
                out.append((C6.bare_path(eg.paths[i]), eg.canon[i], o))
    return out


def expected_part(eg: C6.Eager, selected: list[int]) -> list:
    return non_stateful([x[1] for x in truth_part(eg, selected)])


def forms_for(doc: Doc, nid: int) -> list:
    """the generated spellings of the ways to select element `nid` (depth >= 1) by a path"""
    chain = doc.chain(nid)
    tags = [doc.eg.node[i]['tag'] for i in chain]
    pos = [doc.position(i) for i in chain]
    k = len(chain) - 1

    def st(i: int, withpos: bool) -> list:
        return ['child', tags[i], pos[i][0] if withpos and pos[i][1] > 1 else None]
    star = ['child', '*', None]
    forms = [('abs', {'abs': True, 'steps': [st(i, False) for i in range(k + 1)]}),
             ('abs-pos', {'abs': True, 'steps': [st(i, True) for i in range(k + 1)]}),
             ('rel', {'abs': False, 'steps': [st(i, False) for i in range(1, k + 1)]}),
             ('rel-pos', {'abs': False, 'steps': [st(i, True) for i in range(1, k + 1)]}),
             ('desc', {'abs': True, 'steps': [['desc', tags[k], None]]}),
             ('dot-desc', {'abs': False, 'steps': [['desc', tags[k], None]]}),
             ('root-desc', {'abs': True, 'steps': [st(0, False), ['desc', tags[k], None]]}),
             ('parent-star', {'abs': True, 'steps': [st(i, False) for i in range(k)] + [star]})]
    if pos[k][1] > 1:
        forms.append(('last-pos', {'abs': True, 'steps': [st(i, False) for i in range(k)] + [st(k, True)]}))
    if k >= 2:
        forms.append(('child-desc', {'abs': False, 'steps': [st(1, False), ['desc', tags[k], None]]}))
        forms.append(('star-name', {'abs': False, 'steps': [star] * (k - 1) + [st(k, False)]}))
    return forms


# ---------------------------------------------------------------------------------------------------
# identity constraints in a path-driven run.  What a partial validation CAN and MUST report (the spec the harness
# evaluates by itself, from the document and the selector / field paths of the constraints):
#   * ID / IDREF tables are document-wide: excluded from every part / cut comparison;
#   * a key / unique / keyref whose SCOPE element lies inside a selected part (the selected element itself or below):
#     all its nodes are inside the part -> exactly the errors of the full run for that scope instance;
#   * a key / unique whose scope element is a PROPER ANCESTOR of selected elements (between the root and the
#     selection, the root included): decidable per scope instance among the selected nodes -> a "duplicated value" for
#     the node at which a field tuple occurs for the second time among the nodes of that scope instance that lie in
#     the selected parts (processing order), a "missing key field" for every such node of a key without the field;
#     every scope instance separately (the counter of the 2nd, 3rd ... instance of a repeated ancestor starts empty);
#   * a keyref whose scope is a proper ancestor would need the key nodes outside the parts: excluded (the run reports
#     such references, if at all, at the root when it ends).
IDENT_TEXT = re.compile(r"^(duplicated value \(.*?\) for Xsd\w+\(name='[^']*'\)|missing key field '[^']*'|"
                        r"value \(.*?\) not found for Xsd\w+\(name='[^']*'\)(?: \(\d+ times\))?)")
KEYREF_TEXT = re.compile(r"^value \(.*?\) not found for Xsd")


def ident_text(text: str) -> Optional[str]:
    m = IDENT_TEXT.match(text)
    return re.sub(r"name='(?:\{[^}]*\}|[^':]*:)", "name='", m.group(1)) if m else None


def parse_simple_selector(path: str, nsmap: dict) -> Optional[list]:
    """a selector `p:a/p:b|p:c` -> alternatives of lists of expanded names; None: a form the harness does not evaluate"""
    alts = []
    for alt in path.replace(' ', '').split('|'):
        if alt.startswith('./'):
            alt = alt[2:]
        steps = []
        for st in alt.split('/'):
            if not re.match(r'^([A-Za-z_][\w.-]*:)?[A-Za-z_][\w.-]*$', st):
                return None
            if ':' in st:
                pfx, loc = st.split(':')
                if pfx not in nsmap:
                    return None
                steps.append('{%s}%s' % (nsmap[pfx], loc) if nsmap[pfx] else loc)
            else:
                steps.append(st)          # XPath 1/2 selectors: an unprefixed name is in no namespace
        alts.append(steps)
    return alts


class IdentSpec:
    """scope instances of the key/unique constraints of one document with their selected nodes and field values"""

    def __init__(self, doc: 'Doc'):
        from xmlschema.validators import XsdKeyref
        eg = doc.eg
        self.ok = True
        self.scopes: list = []          # (scope nid, identity, is_key, field attr name, [(nid, value)])
        for nid, depth, parent, node in eg.flat:
            g = eg.gov.get(nid)
            if g is None:
                continue
            try:
                idents = list(g.identities)
            except Exception:  # noqa
                continue
            for ident in idents:
                if isinstance(ident, XsdKeyref):
                    continue
                if ident.selector is None or len(ident.fields) != 1 or not re.match(r'^@[A-Za-z_][\w.-]*$', ident.fields[0].path):
                    self.ok = False
                    continue
                alts = parse_simple_selector(ident.selector.path, dict(ident.namespaces))
                if alts is None:
                    self.ok = False
                    continue
                attr = ident.fields[0].path[1:]
                nodes = []
                for alt in alts:
                    cur = [eg.node[nid]]
                    for name in alt:
                        cur = [k for c in cur for k in c['cs'] if k['tag'] == name]
                    nodes.extend(k['id'] for k in cur)
                vals = []
                for i in sorted(set(nodes)):
                    v = eg.elem[i].attrib.get(attr)
                    if v is not None:
                        try:
                            v = int(v.strip())
                        except ValueError:
                            self.ok = False
                    vals.append((i, v))
                self.scopes.append((nid, ident, type(ident).__name__ == 'XsdKey', attr, vals))

    def loop_events(self, doc: 'Doc', selected: list[int]) -> list:
        """for every key/unique that has a scope instance which is a PROPER ANCESTOR of a selected element: (identity,
        is_key, attr, j = depth of its scope, events (chain of the selected element's ancestors, node, value), and
        whether some scope instance of it lies inside a part)"""
        eg = doc.eg
        by_ident: dict = {}
        for scope, ident, is_key, attr, vals in self.scopes:
            by_ident.setdefault(id(ident), [ident, is_key, attr, []])[3].append((scope, vals))
        out = []
        for ident, is_key, attr, insts in by_ident.values():
            events = []
            j = None
            inside = False
            for s_ in selected:
                chain = doc.chain(s_)[:-1]
                for scope, vals in insts:
                    if eg.in_subtree(scope, s_):
                        inside = True
                    elif scope in chain:
                        j = chain.index(scope)
                        events.extend((chain, i, v) for i, v in vals if eg.in_subtree(i, s_))
            if events:
                out.append((ident, is_key, attr, j, events, inside))
        return out

    @staticmethod
    def k_of(a: list, p_: list) -> int:
        """schemas.py:1349-1352 as written"""
        k = 0
        for k in range(min(len(a), len(p_))):
            if a[k] != p_[k]:
                break
        return k

    @classmethod
    def loop_port(cls, is_key: bool, j: int, events: list) -> list:
        """python reading of `loopC` (Model/IdentScope.lean): the loop of iter_errors(path=…) as it is written"""
        prev: list = []
        seen: list = []
        out = []
        for chain, node, val in events:
            if chain != prev and cls.k_of(chain, prev) <= j:
                seen = []
            prev = chain
            if val is None:
                if is_key:
                    out.append(('missing', node))
                continue
            if seen.count(val) == 1:
                out.append(('dup', node))
            seen.append(val)
        return out

    def expected(self, eg: Any, selected: list[int]) -> list:
        """(node id, text) of the key/unique errors a run over the parts `selected` must report"""
        out = []
        inpart = lambda i: any(eg.in_subtree(i, s_) for s_ in selected)  # noqa
        for scope, ident, is_key, attr, vals in self.scopes:
            if not (inpart(scope) or any(eg.in_subtree(s_, scope) for s_ in selected)):
                continue
            seen: dict = {}
            for i, v in vals:
                if not inpart(i):
                    continue
                if v is None:
                    if is_key:
                        out.append((i, "missing key field '@%s'" % attr))
                    continue
                seen[v] = seen.get(v, 0) + 1
                if seen[v] == 2:
                    out.append((i, ident_text('duplicated value %r for %r' % ((v,), ident))))
        return out


class Partial:
    """path-driven validation / decoding of one document against the matching part of its full result"""

    def __init__(self, ctx: Ctx, spec, doc: Doc, xml: bytes, base: dict, reqs: Optional[list] = None,
                 pend: Optional[list] = None):
        from xmlschema.utils.etree import etree_getpath
        self.ctx, self.spec, self.doc, self.xml, self.base = ctx, spec, doc, xml, base
        self.reqs, self.pend = reqs, pend
        self.graph = None
        self.eg, self.schema = doc.eg, doc.schema
        self.scope = L.in_scope(self.eg.tree)
        self.root_scope = dict(self.scope[0])
        self.getpath = etree_getpath
        self.full_data: Any = None
        self.full_done = False
        self.polluted_last = 0
        self.ident: Optional[IdentSpec] = None
        self.ident_checked = False

    # ---- the real runs
    def run(self, path: str, namespaces: Any) -> list:
        from xmlschema import XMLResource
        unpollute(self.schema)
        try:
            errs = list(self.schema.iter_errors(XMLResource(self.xml), path=path, namespaces=namespaces))
        finally:
            self.polluted_last = unpollute(self.schema)
        return [(C6.bare_path(e.path), C6.canon_err(e)) for e in errs]

    def decode_part(self, path: str, namespaces: Any) -> Any:
        from xmlschema import XMLResource
        unpollute(self.schema)
        try:
            part, _ = self.schema.decode(XMLResource(self.xml), validation='lax', path=path, namespaces=namespaces)
        finally:
            self.polluted_last = unpollute(self.schema)
        return part

    def selection(self, path: str, namespaces: Any) -> list[int]:
        return [self.eg.ids.get(id(e), -1) for e in self.eg.res.iterfind(path, namespaces)]

    # ---- finding C20-F3 (what remains of it)
    def unscoped(self, selected: list) -> list:
        """elements inside the selected parts whose xsi:type / QName prefix is resolved differently by the path-driven run:
        that run knows the declarations of the root (namespace map of the resource), of the selected element itself
        (schemas.py:1374-1376, commit c3a1309) and of the elements below it (pushed by their parent groups), but
        not those of the elements strictly between the root and the selected element"""
        eg, doc = self.eg, self.doc
        out = []
        for s_ in selected:
            for i, d, _, n in eg.flat:
                if not eg.in_subtree(i, s_):
                    continue
                # namespace-sensitive content of the element: the value of xsi:type, the text of an xs:QName element
                used = []
                if XSI_TYPE in eg.elem[i].attrib:
                    used.append(eg.elem[i].attrib[XSI_TYPE])
                if is_qname_decl(eg.gov.get(i)) and (eg.elem[i].text or '').strip():
                    used.append(eg.elem[i].text.strip())
                if not used:
                    continue
                seen = dict(self.root_scope)
                for j in doc.chain(i)[len(doc.chain(s_)) - 1:]:
                    for p_, u_ in eg.node[j]['decls']:
                        seen[p_] = u_
                for v in used:
                    pfx = v.split(':')[0] if ':' in v else ''
                    if seen.get(pfx) != self.scope[i].get(pfx):
                        out.append((i, s_))
                        break
        return out

    def f3_explains(self, selected: list, got: list, pred: list) -> Optional[dict]:
        """C20-F3 (what remains): outside the elements found by `unscoped` the errors agree.  Since 13aae48 the
        unresolvable xsi:type of a CHILD is also reported by the parent's group (groups.py:1024-1027) at the parent:
        one "global component … not found" at the parent of such an element (when the parent is inside the part) is
        part of the same defect."""
        eg = self.eg
        pairs = self.unscoped(selected)
        if not pairs:
            return None
        hit = sorted({i for i, _ in pairs})
        pth = lambda i: C6.bare_path(self.getpath(eg.elem[i], eg.res.root, None, False, True))  # noqa
        prefixes = [pth(i) for i in hit]
        inside = lambda q: any(q == pf or (q or '').startswith(pf + '/') for pf in prefixes)  # noqa
        a = [(q, c) for q, c in got if not inside(q)]
        # the parent's report of a child's unresolvable xsi:type (one per unscoped child that is not the selected element)
        for i, s_ in pairs:
            if i == s_ or XSI_TYPE not in eg.elem[i].attrib:
                continue
            pp = pth(eg.parent[i])
            for n_, (q, c) in enumerate(a):
                if q == pp and NOT_FOUND_RE.search(c[1]):
                    del a[n_]
                    break
        b = [(q, c) for q, c, o in pred
             if not (any(eg.in_subtree(o, h) for h in hit) if o is not None else inside(q))]
        return {'kind': 'partial-scope', 'unscoped_type_nodes': hit,
                'same_outside': sorted(non_stateful([c for _, c in a])) == sorted(non_stateful([c for _, c in b])),
                'got': [c for _, c in got]}

    # ---- the lookup of a path-driven run, by the rule of its fall-backs on schema.find
    def lookups(self, path: str, namespaces: Any, selected: list[int]) -> dict:
        """the reference lookup is made with the path in CLARK spelling: the spelling of the namespace (prefix,
        default namespace) must not change which declaration a path finds"""
        from xmlschema.namespaces import NamespaceMapper
        eg = self.eg
        nsm = dict(NamespaceMapper(None, source=eg.res).namespaces)
        nsm.pop('', None)
        sp = abs_schema_path(eg.res.root.tag, to_clark(path, namespaces))
        out = {}
        for s_ in selected:
            try:
                out[s_] = port_get_element(self.schema, eg.node[s_]['tag'], sp, nsm)
            except Exception as ex:  # noqa
                out[s_] = ex
        return out

    def pred_wild(self, nid: int) -> bool:
        from xmlschema.validators import XsdAnyElement
        eg, doc = self.eg, self.doc
        for i in doc.chain(nid)[1:]:
            kk, nn = doc.position(i)
            pg = eg.gov.get(eg.parent[i])
            if kk > 1 and pg is not None and any(isinstance(c, XsdAnyElement) and c.is_matching(eg.node[i]['tag']) for c in pg):
                return True
        return False

    def ident_spec(self) -> Optional[IdentSpec]:
        """the harness's own evaluation of the key/unique constraints of the document; None when a constraint has a
        form it does not evaluate, or when it disagrees with the FULL run (then nothing is claimed for the parts)"""
        if not self.ident_checked:
            self.ident_checked = True
            eg = self.eg
            try:
                sp = IdentSpec(self.doc)
            except Exception:  # noqa
                sp = None
            if sp is not None and sp.ok and sp.scopes:
                pth = lambda i: C6.bare_path(self.getpath(eg.elem[i], eg.res.root, None, False, True))  # noqa
                want = sorted((pth(i), t) for i, t in sp.expected(eg, [0]))
                full = sorted((C6.bare_path(eg.paths[i]), ident_text(eg.canon[i][1])) for i in range(len(eg.errors))
                              if ident_text(eg.canon[i][1]) and not KEYREF_TEXT.match(eg.canon[i][1]))
                if want == full:
                    self.ident = sp
                    self.ctx.count('identity-spec:agrees-with-the-full-run')
                else:
                    self.ctx.count('identity-spec:differs-on-the-full-run (nothing claimed)')
            elif sp is not None and not sp.ok:
                self.ctx.count('identity-spec:form-not-evaluated')
        return self.ident

    def check_identities(self, case: dict, path: str, nsx: Any, selected: list[int], got: list, tag: str) -> None:
        """the identity-constraint errors of the partial run against what such a run can and must report"""
        ctx, eg = self.ctx, self.eg
        sp = self.ident_spec()
        if sp is None or not selected:
            return
        if selected != sorted(selected) or any(a != b and eg.in_subtree(a, b) for a in selected for b in selected):
            ctx.count('identity:not-compared (nested selection or not in document order)')
            return
        pth = lambda i: C6.bare_path(self.getpath(eg.elem[i], eg.res.root, None, False, True))  # noqa
        part_paths = [pth(s_) for s_ in selected]
        inside = lambda q: any(q == pf or (q or '').startswith(pf + '/') for pf in part_paths)  # noqa
        want = [(pth(i), t) for i, t in sp.expected(eg, selected)]
        # keyrefs: only those whose scope instance is inside a selected part (then the full run's, by ownership)
        want += [(C6.bare_path(eg.paths[i]), ident_text(eg.canon[i][1])) for i, o in enumerate(eg.owner)
                 if KEYREF_TEXT.match(eg.canon[i][1]) and any(eg.in_subtree(o, s_) for s_ in selected)]
        have = [(q, ident_text(c[1])) for q, c in got if ident_text(c[1])
                and not (KEYREF_TEXT.match(c[1]) and not inside(q))]
        # the loop as it is written, per constraint with an ancestor scope: Lean `loopC` (driver) and its python reading
        loops = sp.loop_events(self.doc, selected)
        id_of = {pth(i): i for i, _, _, _ in eg.flat}
        as_written = [(q, t) for q, t in want]
        ties: list = []       # model tie of the loop: made only where the elements are processed with their own declarations

        def tie() -> None:
            for rq, pd in ties:
                self.reqs.append(rq)
                self.pend.append(pd)
        for ident, is_key, attr, j, events, inside_too in loops:
            name = ident_text('duplicated value (0,) for %r' % ident).split(' for ')[1]
            mine = lambda t: t.endswith(' for ' + name) or (is_key and t == "missing key field '@%s'" % attr)  # noqa
            port = IdentSpec.loop_port(is_key, j, events)
            if not inside_too:
                # replace the spec's errors of this constraint by those of the loop as written
                as_written = [(q, t) for q, t in as_written if not mine(t)]
                as_written += [(pth(n), ident_text('duplicated value %r for %r' % ((dict((e[1], e[2]) for e in events)[n],), ident))
                                if kind == 'dup' else "missing key field '@%s'" % attr) for kind, n in port]
                if self.reqs is not None:
                    # ("missing key field" texts do not name their constraint: only the duplicates are attributed to it;
                    #  the missing-field errors are compared in the aggregate below and, model side, with the python reading)
                    real = sorted(['dup', id_of.get(q, -1)] for q, t in have if t.startswith('dup') and mine(t))
                    ties.append(({'op': 'identloop', 'key': is_key, 'j': j,
                                  'events': [{'chain': c, 'node': n, 'val': v} for c, n, v in events]},
                                 ('identloop', dict(case, api='iter_errors(path): identity loop', identity=name), real,
                                  sorted([k_, n_] for k_, n_ in port))))
        if sorted(want) == sorted(have):
            ctx.count('identity:' + ('same' if want else 'none'))
            if want:
                ctx.case(dict(case, api='iter_errors(path): identity errors'), True, 'api:partial-identity')
            tie()
            return
        mixed = len({len(self.doc.chain(s_)) for s_ in selected}) > 1
        if mixed and sorted(as_written) == sorted(have):
            # C20-F7: the selection mixes depths and the run reports exactly what the loop as written yields
            # (k = min-1 when one chain of ancestors is a prefix of the other: the counter of the unchanged ancestor is emptied)
            ctx.known_hit('C20-F7', dict(case, api='iter_errors(path): identity errors'),
                          {'kind': 'partial-identity', 'got': sorted(have), 'want': sorted(want)})
            ctx.count('identity:C20-F7')
            tie()
            return
        # not claimed where the elements are known to be processed with another declaration / scope (F1, F3, F4, F6)
        lk = self.lookups(path, nsx, selected)
        if self.polluted_last or self.unscoped(selected) or \
                any(isinstance(lk[s_], Exception) or not gov_equal(lk[s_], eg.gov.get(s_)) for s_ in selected):
            ctx.count('identity:not-compared (deviating lookup or scope: known findings)')
            return
        ctx.failure('identity-constraint errors of the selected part(s) differ from what a partial validation must report',
                    dict(case, api='iter_errors(path): identity errors'),
                    {'kind': 'partial-identity', 'got': sorted(have), 'want': sorted(want),
                     'rule': 'scope inside a part: the errors of the full run; scope = proper ancestor: duplicates / '
                             'missing key fields among the selected nodes of each scope instance; keyrefs of ancestor '
                             'scopes and ID/IDREF excluded'})

    def evaluate(self, case: dict, path: str, nsx: Any, selected: list[int], wild_path: bool, has_pos: bool,
                 tag: str) -> Optional[list]:
        """errors of `iter_errors(path=)` against the matching part of the full result; returns the errors"""
        ctx, eg, doc = self.ctx, self.eg, self.doc
        try:
            got = self.run(path, nsx)
        except Exception as ex:  # noqa
            ctx.failure('partial validation raised', case, {'exception': repr(ex)})
            return None
        self.check_identities(case, path, nsx, selected, got, tag)
        truth = truth_part(eg, selected)
        got_ns = non_stateful([c for _, c in got])
        if got_ns == non_stateful([c for _, c, _ in truth]):
            ctx.count(tag + ':same')
            return got_ns
        if self.polluted_last:
            # C20-F6: this very run appended nodes to the schema's XPath tree, its later lookups saw them.
            # The same call with exactly that repaired:
            with repaired_xpath_nodes():
                got2 = self.run(path, nsx)
            if [c for _, c in got2] != [c for _, c in got]:
                ctx.known_hit('C20-F6')
                ctx.count(tag + ':C20-F6')
                got = got2
                got_ns = non_stateful([c for _, c in got])
                if got_ns == non_stateful([c for _, c, _ in truth]):
                    return got_ns
        # what the current code does when the declaration found by the path is not the governing one
        lk = self.lookups(path, nsx, selected)
        pred: list = []
        pred2: list = []
        reasons: list = []
        deviating: list = []
        for s_ in selected:
            d = lk[s_]
            g = eg.gov.get(s_)
            if not isinstance(d, Exception) and g is not None and gov_equal(d, g):
                pred.extend(truth_part(eg, [s_]))
                pred2.extend(truth_part(eg, [s_]))
                continue
            deviating.append(s_)
            if g is None or not doc.all_plain(s_) or (has_pos and self.pred_wild(s_)):
                reasons.append('F1')
            elif wild_path:
                reasons.append('F4')
            else:
                reasons.append(None)
            if isinstance(d, Exception):
                continue
            if d is None:
                if XSI_TYPE not in eg.elem[s_].attrib:
                    continue                    # the loop skips the element (schemas.py:1364-1369)
                d = self.schema.builders.create_element(eg.node[s_]['tag'], self.schema)
            try:
                pred.extend((q, c, None) for q, c in errors_as(eg, eg.elem[s_], d, nsx))
                anc = [eg.elem[i] for i in doc.chain(s_)[1:-1]]
                pred2.extend((q, c, None) for q, c in errors_as(eg, eg.elem[s_], d, nsx, anc))
            except Exception:  # noqa
                reasons[-1] = None
        as_pred = got_ns == non_stateful([c for _, c, _ in pred])
        if not as_pred and got_ns == non_stateful([c for _, c, _ in pred2]):
            as_pred = True          # the declarations of the intermediate ancestors are in scope (C20-F3 repaired)
            pred = pred2
        detail = {'kind': 'partial', 'got': got_ns, 'want': non_stateful([c for _, c, _ in truth]),
                  'deviating_lookups': [(s_, repr(lk[s_])[:80], repr(eg.gov.get(s_))[:80]) for s_ in deviating][:6],
                  'reasons': reasons, 'as_predicted': as_pred,
                  'predicted with these lookups': non_stateful([c for _, c, _ in pred]) if deviating else None}
        fid = known_match(case, detail)
        if fid:
            ctx.known_hit(fid)
            ctx.count(tag + ':' + fid)
            return got_ns
        f3 = self.f3_explains(selected, got, pred)
        if f3 is not None and known_match(case, f3) and all(r is not None for r in reasons):
            ctx.known_hit('C20-F3')
            ctx.count(tag + ':unscoped-xsi-type')
            return got_ns
        if f3 is not None:
            detail['scope (C20-F3)'] = {k_: f3[k_] for k_ in ('unscoped_type_nodes', 'same_outside')}
        ctx.failure('errors of the selected part(s) differ from the matching part of the full result', case, detail)
        return got_ns

    def full(self) -> Any:
        from xmlschema import XMLResource
        if not self.full_done:
            self.full_done = True
            try:
                self.full_data, _ = self.schema.decode(XMLResource(self.xml), validation='lax')
            except Exception as ex:  # noqa
                self.full_data = ex
            unpollute(self.schema)
        return self.full_data

    def evaluate_data(self, case: dict, path: str, nsx: Any, nid: int, wild_path: bool, has_pos: bool) -> None:
        """decoded data of a single selected element against the matching part of the full data"""
        from xmlschema import XMLResource
        ctx, eg, doc = self.ctx, self.eg, self.doc
        full = self.full()
        if isinstance(full, Exception):
            ctx.count('partial-decode:full-raises:' + type(full).__name__)
            return
        try:
            part = self.decode_part(path, nsx)
        except Exception as ex:  # noqa
            ctx.failure('partial decoding raised', case, {'exception': repr(ex)})
            return
        sub = navigate(full, doc, nid)
        if sub is NOTFOUND:
            ctx.count('partial-decode:not-navigable')
            return
        try:
            a, b = norm_data(part), norm_data(sub)
        except Collision:
            ctx.count('partial-decode:prefix-collision')
            return
        if a == b and type(a) is type(b):
            ctx.count('partial-decode:same')
            return
        if self.polluted_last:
            with repaired_xpath_nodes():       # C20-F6, see evaluate()
                part2 = self.decode_part(path, nsx)
            try:
                a2 = norm_data(part2)
            except Collision:
                a2 = a
            if a2 != a:
                ctx.known_hit('C20-F6')
                ctx.count('partial-decode:C20-F6')
                a = a2
                if a == b and type(a) is type(b):
                    return
        hit = [i for i, _ in self.unscoped([nid])]
        if hit:
            # C20-F3 (what remains): the values of the elements whose xsi:type is not resolved are left out
            blanked = all(blank(a, doc, nid, j) and blank(b, doc, nid, j) for j in hit)
            detail = {'kind': 'partial-scope', 'unscoped_type_nodes': hit, 'same_outside': (a == b) if blanked else True,
                      'values located': blanked, 'part': repr(a)[:600], 'matching part of the whole': repr(b)[:600]}
            if known_match(case, detail):
                ctx.known_hit('C20-F3')
                ctx.count('partial-decode:unscoped-xsi-type' + ('' if blanked else ':not-located'))
                return
        d = self.lookups(path, nsx, [nid])[nid]
        g = eg.gov.get(nid)
        reason = None
        if isinstance(d, Exception) or not gov_equal(d, g):
            if g is None or not doc.all_plain(nid) or (has_pos and self.pred_wild(nid)):
                reason = 'F1'
            elif wild_path:
                reason = 'F4'
        detail = {'kind': 'partial', 'part': repr(a)[:600], 'matching part of the whole': repr(b)[:600],
                  'reasons': [reason] if reason else [], 'as_predicted': True,
                  'lookup by the fall-back rule': repr(d)[:80], 'governing': repr(g)[:80]}
        fid = known_match(case, detail)
        if fid:
            ctx.known_hit(fid)
            ctx.count('partial-decode:' + fid)
        else:
            ctx.failure('decoded data of the selected part differs from the matching part of the full result', case, detail)

    def model_tie(self, case: dict, P: dict, path: str, nsx: Any, real: list) -> None:
        """in-model evaluation of the path (Model/PathEval.lean) against the real machinery: `selI` on the instance
        tree vs resource.iterfind (same elements, same order); `findAllP` on the schema graph vs schema.findall of the
        schema path (child-step forms; first occurrence of a declaration kept)"""
        if self.reqs is None:
            return
        eg = self.eg
        steps = [{'desc': ax == 'desc', 'name': None if nm_ == '*' else nm_, 'pos': ps} for ax, nm_, ps in P['steps']]
        if not (path.startswith('.//') and real == []):        # (finding C20-F5 is judged by the caller)
            self.reqs.append({'op': 'select', 'tree': eg.tree, 'abs': P['abs'], 'steps': steps})
            self.pend.append(('select', dict(case, api='iterfind'), real, None))
        if any(st['desc'] for st in steps):
            self.ctx.count('schema-path-not-modelled:descendant-step')
            return
        if self.graph is None:
            universe = sorted({n['tag'] for _, _, _, n in eg.flat} | {g.name for g in self.schema} |
                              {('{%s}zz' % L.TNS) if self.spec.tns else 'zz'})
            self.graph = schema_graph(self.schema, universe)
        graph, gid = self.graph
        ssteps = steps if P['abs'] else [{'desc': False, 'name': eg.res.root.tag, 'pos': None}] + steps
        unpollute(self.schema)
        try:
            found = self.schema.findall(abs_schema_path(eg.res.root.tag, path), nsx)
        except Exception as ex:  # noqa
            self.ctx.failure('schema.findall raised on a generated path', case, repr(ex))
            return
        ids: list = []
        for x in found:
            i = gid.get(id(x), -1)
            if i not in ids:
                ids.append(i)
        self.reqs.append(dict(graph, op='findallp', steps=ssteps))
        self.pend.append(('findallp', dict(case, api='findall'), ids, None))

    def one_form(self, nid: int, label: str, P: dict, form: str, data: bool = True) -> None:
        """one generated path form that selects (at least) element nid"""
        ctx, eg = self.ctx, self.eg
        path, nsx = spell_path(P, form, bool(self.spec.tns))
        case = dict(self.base, api='iter_errors(path)', path=path, namespaces=nsx, form=label)
        ctx.case(case, True, 'api:partial-one')
        ctx.count('path-form:' + label)
        denoted = sel_eval(eg.tree, P)
        try:
            real = self.selection(path, nsx)
        except Exception as ex:  # noqa
            ctx.failure('resource.iterfind raised on a generated path', case, repr(ex))
            return
        self.model_tie(case, P, path, nsx, real)
        if real != denoted and sorted(real) == denoted and len(set(real)) == len(real):
            # the same elements, not in document order: `a//b` is evaluated context node by context node (the children
            # of a node before those of its earlier descendants); the parts are then processed in that order
            ctx.count('selection:same-set-other-order')
            denoted = real
        if real != denoted:
            detail = {'kind': 'selection', 'real': real, 'denoted': denoted}
            fid = known_match(case, detail)
            if fid:
                ctx.known_hit(fid)
            else:
                ctx.failure('the path does not select the elements it denotes on the document', case, detail)
            return
        if nid not in denoted:
            ctx.failure('harness: the generated path does not denote its element', case, {'denoted': denoted, 'nid': nid})
            return
        wild_path = any(ax == 'desc' or nm_ == '*' for ax, nm_, _ in P['steps'])
        has_pos = any(ps is not None for _, _, ps in P['steps'])
        self.evaluate(case, path, nsx, denoted, wild_path, has_pos, 'partial-one')
        if data and len(denoted) == 1:
            self.evaluate_data(dict(case, api='decode(path)'), path, nsx, nid, wild_path, has_pos)


def check_partial(ctx: Ctx, spec, doc: Doc, xml: bytes, reqs: list, pend: list, base: dict,
                  every: Optional[list] = None) -> None:
    """`every`: elements for which all path forms are run (substitution family); else a sample"""
    eg, schema = doc.eg, doc.schema
    depth_max = max(eg.depth.values())
    static_of, created_of = C6.static_lookup(schema, eg)
    ns = {'': L.TNS} if spec.tns else None
    pt = Partial(ctx, spec, doc, xml, base, reqs, pend)
    # select-all paths: model + property
    for k in (1, 2):
        if depth_max < k:
            continue
        path = '/'.join('*' * k)
        selected = [i for i, d, _, _ in eg.flat if d == k]
        case = dict(base, api='iter_errors(path)', path=path)
        ctx.case(case, bool(eg.errors), 'api:partial-all')
        got = pt.evaluate(case, path, ns, selected, True, False, 'partial-all')
        if got is None:
            continue
        npl = not all(doc.all_plain(i) for i in selected)
        # model (k = 1 uses the lazy driver's static lookup '/root/*' which is what get_element receives)
        tb = C6.build_tables(eg, schema, static_of, created_of) if k == 1 else None
        if tb is not None and not tb['alt_failed'] and not npl:
            reqs.append({'op': 'part', 'tree': eg.tree, 'k': 1, 'root': tb['root'], 'segs': tb['segs'], 'govs': tb['govs'],
                         'static': tb['static'], 'created': tb['created']})
            pend.append(('part', case, {'got': got, 'table': tb['table']}, None))
    # single elements in the generated path forms
    forms3 = ['default', 'prefix', 'clark'] if spec.tns else ['clark']
    if every is not None:
        for nid in every:
            for label, P in forms_for(doc, nid):
                fs = forms3        # every path form in every spelling
                for form in fs:
                    pt.one_form(nid, label, P, form)
        return
    cands = [i for i, d, _, _ in eg.flat if d >= 1 and eg.gov.get(i) is not None]
    ctx.rng.shuffle(cands)
    for nid in cands[:ctx.pick(4, 8)]:
        fl = forms_for(doc, nid)
        pick = ctx.rng.choice(['abs-pos', 'rel-pos'])
        main_ = [f for f in fl if f[0] == pick]
        other = [f for f in fl if f[0] not in ('abs-pos', 'rel-pos')]
        for label, P in main_ + ctx.rng.sample(other, min(2, len(other))):
            pt.one_form(nid, label, P, ctx.rng.choice(forms3), data=label in ('abs-pos', 'rel-pos') or ctx.rng.random() < 0.5)


NOTFOUND = object()


def unprefixed(k: str) -> str:
    return k.split(':', 1)[1] if ':' in k and not k.startswith('@') else k


def navigate(full: Any, doc: Doc, nid: int) -> Any:
    cur = full
    for i in doc.chain(nid)[1:]:
        if not isinstance(cur, dict):
            return NOTFOUND
        name = local(doc.eg.node[i]['tag'])
        k, n = doc.position(i)
        vals = []
        nkeys = 0
        for key, v in cur.items():
            if isinstance(key, str) and key[:1] not in '@$' and unprefixed(key) == name:
                vals.extend(v if isinstance(v, list) else [v])
                nkeys += 1
        if len(vals) != n or nkeys != 1:
            return NOTFOUND
        cur = vals[k - 1]
    return cur


def blank(data: Any, doc: Doc, top: int, nid: int) -> bool:
    """replace, inside the (normalised) decoded value of element `top`, the value of its descendant `nid` by a
    marker; False when the value cannot be located"""
    if nid == top:
        return False
    chain = doc.chain(nid)[len(doc.chain(top)):]
    cur = data
    for depth_, i in enumerate(chain):
        if not isinstance(cur, dict):
            return False
        name = local(doc.eg.node[i]['tag'])
        k, n = doc.position(i)
        if name not in cur:
            return False
        v = cur[name]
        last = depth_ == len(chain) - 1
        if isinstance(v, list):
            if len(v) != n:
                return False
            if last:
                v[k - 1] = '<<unscoped xsi:type>>'
                return True
            cur = v[k - 1]
        else:
            if n != 1:
                return False
            if last:
                cur[name] = '<<unscoped xsi:type>>'
                return True
            cur = v
    return False


class Collision(Exception):
    pass


def norm_data(x: Any, top: bool = True) -> Any:
    if isinstance(x, dict):
        d = {}
        for k, v in x.items():
            if isinstance(k, str) and k.startswith('@xmlns'):
                continue
            k2 = unprefixed(k) if isinstance(k, str) else k
            if k2 in d:
                raise Collision()     # one element name spelled with two prefixes: order of the merged list is unknown
            d[k2] = norm_data(v, False)
        if top and set(d) == {'$'}:
            return d['$']
        if top and not d and x:
            return None       # only namespace declarations: the (empty or undecodable) value itself is None
        return d
    if isinstance(x, list):
        return [norm_data(v, False) for v in x]
    return x


def prune_data(x: Any, k: int) -> Any:
    """keep k levels of a decoded element value; child values at the cut become 'HOLE'"""
    if not isinstance(x, dict):
        return x
    out = {}
    for key, v in x.items():
        if isinstance(key, str) and key[:1] in '@$' or not isinstance(key, str):
            out[key] = v
        elif isinstance(v, list):
            out[key] = ['HOLE' if k <= 1 else prune_data(i, k - 1) for i in v]
        else:
            out[key] = 'HOLE' if k <= 1 else prune_data(v, k - 1)
    return out


def check_depth(ctx: Ctx, spec, doc: Doc, xml: bytes, reqs: list, pend: list, base: dict) -> None:
    from xmlschema import XMLResource
    eg, schema = doc.eg, doc.schema
    static_of, created_of = C6.static_lookup(schema, eg)
    tb = C6.build_tables(eg, schema, static_of, created_of)
    if tb is not None and tb['alt_failed']:
        tb = None
    wild_gov = any(not doc.plain[i] for i in doc.plain)
    try:
        full, _ = schema.decode(XMLResource(xml), validation='lax')
    except Exception:  # noqa
        full = None
    for k in (0, 1, 2, 3, 4):
        case = dict(base, api='max_depth', max_depth=k)
        keep = max(k, 1)
        want_idx = [i for i, o in enumerate(eg.owner) if eg.depth[o] < keep]
        want = non_stateful([eg.canon[i] for i in want_idx])
        separates = any(eg.depth[o] >= keep for o in eg.owner)
        ctx.case(case, separates or max(eg.depth.values()) >= keep, 'api:max_depth')
        try:
            got = non_stateful([C6.canon_err(e) for e in schema.iter_errors(XMLResource(xml), max_depth=k)])
        except Exception as ex:  # noqa
            ctx.failure('validation with max_depth raised', case, repr(ex))
            continue
        if got != want:
            ctx.failure('max_depth changes the errors above the cut', case, {'got': got, 'want': want})
        if tb is not None:
            reqs.append({'op': 'part', 'tree': eg.tree, 'k': k, 'root': tb['root'], 'segs': tb['segs'], 'govs': tb['govs'],
                         'static': tb['static'], 'created': tb['created']})
            pend.append(('cut', case, {'got': got, 'table': tb['table']}, None))
        if full is not None and isinstance(full, dict) and not wild_gov:
            try:
                cut, _ = schema.decode(XMLResource(xml), validation='lax', max_depth=k, depth_filler=lambda x: 'HOLE')
            except Exception as ex:  # noqa
                ctx.failure('decoding with max_depth raised', case, repr(ex))
                continue
            wantd = prune_data(full, keep)

            def holes(x):
                if isinstance(x, dict):
                    return {k_: holes(v) for k_, v in x.items()}
                if isinstance(x, list):
                    y = [holes(v) for v in x]
                    return 'HOLE' if y and all(v == 'HOLE' for v in y) else y
                return x
            cut, wantd = holes(cut), holes(wantd)
            if cut != wantd:
                ctx.failure('max_depth changes the decoded data above the cut', case,
                            {'got': repr(cut)[:800], 'want': repr(wantd)[:800]})
            else:
                ctx.count('max_depth-data:same')


def compare(ctx: Ctx, reqs: list, pend: list, drv: Optional[Driver]) -> None:
    if drv is None:
        return
    for (kind, case, real, extra), m in zip(pend, drv.query(reqs)):
        ctx.traces += 1
        if 'err' in m:
            ctx.mismatch('driver error', case, None, m)
            continue
        if kind == 'findall':
            if m['ids'] != real:
                ctx.mismatch('findall', case, real, m['ids'])
            if extra is not None and m['gov'] is not None and m['gov'] != extra:
                # the model's governing declaration is name/type-equal, not necessarily the same particle
                ctx.count('gov-particle-differs')
        elif kind == 'get_element':
            if m['id'] != real:
                ctx.mismatch('get_element', case, real, m['id'])
        elif kind == 'identloop':
            ctx.count('model-tie:identity-loop')
            # the loop as it is written, or as repaired by C20-ancestors-first-difference.patch (they differ on
            # selections of mixed depth only: finding C20-F7, judged by check_identities)
            dups = lambda l: sorted(x for x in l if x[0] == 'dup')  # noqa
            if sorted(m['errs']) != extra:
                ctx.mismatch('python reading of loopC differs from the Lean model', case, extra, sorted(m['errs']))
            if dups(m['errs']) != real and dups(m['errs_repaired']) != real:
                ctx.mismatch('identity errors of the path-driven loop (loopC)', case, real, dups(m['errs']))
            elif dups(m['errs']) != dups(m['errs_repaired']):
                ctx.count('model-tie:identity-loop:' + ('as-written' if dups(m['errs']) == real else 'as-repaired'))
        elif kind == 'select':
            ctx.count('model-tie:iterfind')
            if m['ids'] != real:
                ctx.mismatch('iterfind (in-model path evaluation on the instance tree)', case, real, m['ids'])
            if not m['chains_match']:
                ctx.mismatch('model: a selected chain does not match the path pattern', case, None, m)
        elif kind == 'findallp':
            ctx.count('model-tie:findall-path-forms')
            if m['ids'] != real:
                ctx.mismatch('findall (in-model path evaluation on the schema graph)', case, real, m['ids'])
        elif kind == 'part':
            got = [list(x) for x in real['got']]
            model = [list(x) for x in non_stateful([real['table'][i] for i in m['part']])]
            deep = [list(x) for x in non_stateful([real['table'][i] for i in m['deep']])]
            if model != got:
                ctx.mismatch('errors of the selected parts', case, got, model)
            if m['local'] and model != deep:
                ctx.mismatch('model: partial != restriction although PathLocal', case, deep, model)
        elif kind == 'cut':
            got = [list(x) for x in real['got']]
            model = [list(x) for x in non_stateful([real['table'][i] for i in m['cut']])]
            if model != got:
                ctx.mismatch('errors with max_depth', case, got, model)


def family(ctx: Ctx, drv: Optional[Driver], deadline: Optional[float] = None) -> None:
    import time
    n_schemas = ctx.pick(250, 1500)
    n_docs = ctx.pick(3, 6)
    built = 0
    attempts = 0
    while built < n_schemas and attempts < n_schemas * 4:
        if deadline is not None and time.time() > deadline:
            break
        attempts += 1
        spec = L.gen_schema(ctx.rng, maxdepth=ctx.rng.choice([2, 3, 3, 4]), identities=ctx.rng.random() < 0.3)
        try:
            schema = L.build_schema(spec)
        except Exception:  # noqa
            ctx.count('schema-rejected')
            continue
        built += 1
        for f in sorted(spec.features):
            ctx.count('schema-feature:' + f.split(':')[0])
        names = [p[-1] for p, d in spec.root.walk()]
        if len(names) != len(set(names)):
            ctx.count('schema-feature:repeated-local-name')
        reqs: list = []
        pend: list = []
        for _ in range(n_docs):
            xml, _, defects, style = L.gen_doc(ctx.rng, spec, perr=ctx.rng.choice([0.0, 0.0, 0.04]))
            base = {'xsd': spec.xsd, 'xml': xml.decode()}
            try:
                doc = Doc(schema, spec, xml)
            except Exception as ex:  # noqa
                ctx.count('full-run-raises:' + type(ex).__name__)
                continue
            note_pollution(ctx, doc, base)
            ctx.count('document:%s' % ('valid' if not doc.eg.errors else 'invalid'))
            check_find(ctx, spec, doc, reqs, pend, base)
            check_partial(ctx, spec, doc, xml, reqs, pend, base)
            check_depth(ctx, spec, doc, xml, reqs, pend, base)
        compare(ctx, reqs, pend, drv)


# ------------------------------------------------------------------------------------------------
# substitution groups: members whose type differs from the head's (built-in restriction, facet restriction with
# another decoded Python type, complex extension, complex restriction, another simple type under xs:anySimpleType),
# used in place of a head that is referenced in local content models at depth 1..3, and selected by path in every
# generated form.  The lookup must give the member's own global declaration; partial validation / decoding must
# report the errors / data of the member's type (values valid for the head only are generated on purpose).

SUBST_GROUPS = {
    # head: (head type attr or inline, {member: (type attr | inline simpleType, ok values, head-only values)})
    'h1': ('type="xs:int"', ['7', '300'], {
        'm1': ('type="xs:short"', ['7', '-5'], ['70000', '40000']),
        'n1': ('><xs:simpleType><xs:restriction base="xs:int"><xs:maxInclusive value="100"/></xs:restriction>'
               '</xs:simpleType></xs:element>', ['7', '100'], ['250', '101'])}),
    'h2': ('type="xs:decimal"', ['1.5', '12'], {
        'm2': ('><xs:simpleType><xs:restriction base="xs:integer"><xs:minInclusive value="0"/>'
               '<xs:maxInclusive value="100"/></xs:restriction></xs:simpleType></xs:element>', ['12', '0'], ['250', '1.5']),
        'n2': ('type="xs:long"', ['12', '-3'], ['1.5', '0.25'])}),
    'h4': ('type="xs:anySimpleType"', ['zz', '1'], {
        'm4': ('type="xs:boolean"', ['true', '0'], ['zz', '7']),
        'n4': ('type="xs:date"', ['2020-01-01'], ['zz', '2020-13-01'])}),
}


def gen_subst(rng) -> Any:
    """-> (spec, xml bytes, ids of nothing yet): a schema with substitution groups and one document"""
    spec = L.Spec()
    spec.tns = rng.random() < 0.5
    t = 't:' if spec.tns else ''
    head = '<xs:schema xmlns:xs="http://www.w3.org/2001/XMLSchema"'
    if spec.tns:
        head += f' targetNamespace="{L.TNS}" xmlns:t="{L.TNS}" elementFormDefault="qualified"'
    head += '>\n'
    g = (f' <xs:complexType name="B"><xs:sequence><xs:element name="a" type="xs:int"/></xs:sequence>'
         f'<xs:attribute name="k" type="xs:int"/></xs:complexType>\n'
         f' <xs:complexType name="D"><xs:complexContent><xs:extension base="{t}B"><xs:sequence>'
         f'<xs:element name="x" type="xs:int"/></xs:sequence></xs:extension></xs:complexContent></xs:complexType>\n'
         f' <xs:complexType name="R"><xs:complexContent><xs:restriction base="{t}B"><xs:sequence>'
         f'<xs:element name="a" type="xs:short"/></xs:sequence><xs:attribute name="k" type="xs:int" use="required"/>'
         f'</xs:restriction></xs:complexContent></xs:complexType>\n')
    abstract4 = rng.random() < 0.3
    for h, (ht, _, members) in SUBST_GROUPS.items():
        g += f' <xs:element name="{h}" {ht}{" abstract=\"true\"" if h == "h4" and abstract4 else ""}/>\n'
        for m, (mt, _, _) in members.items():
            g += (f' <xs:element name="{m}" substitutionGroup="{t}{h}" {mt}/>\n' if mt.startswith('type=')
                  else f' <xs:element name="{m}" substitutionGroup="{t}{h}"{mt}\n')
    g += (f' <xs:element name="h3" type="{t}B"/>\n <xs:element name="m3" type="{t}D" substitutionGroup="{t}h3"/>\n'
          f' <xs:element name="n3" type="{t}R" substitutionGroup="{t}h3"/>\n')
    heads = ['h1', 'h2', 'h3', 'h4']

    # content: r( c1( e?, head+, d( head* )? ), c2( ... ) ... ) ; a local element with a member's NAME and another type
    # sits in a container that does not reference that member's head (name-only lookups go wrong there)
    def container(name: str, depth: int) -> tuple[str, dict]:
        hs = rng.sample(heads, rng.choice([1, 1, 2]))
        info = {'name': name, 'heads': hs, 'sub': None, 'clash': None, 'e': rng.random() < 0.5,
                'occ': rng.choice([1, 2])}
        ind = ' ' * (depth + 2)
        x = f'{ind}<xs:element name="{name}"' + (' maxOccurs="2"' if info['occ'] == 2 else '') + '>\n'
        x += f'{ind} <xs:complexType><xs:sequence>\n'
        if info['e']:
            x += f'{ind}  <xs:element name="e" type="xs:string" minOccurs="0"/>\n'
        for h in hs:
            x += f'{ind}  <xs:element ref="{t}{h}" maxOccurs="unbounded"/>\n'
        others = [m for h in heads if h not in hs and h != 'h3' for m in SUBST_GROUPS[h][2]]
        if others and rng.random() < 0.4:
            info['clash'] = rng.choice(others)
            x += f'{ind}  <xs:element name="{info["clash"]}" type="xs:string" minOccurs="0"/>\n'
        if depth < 2 and rng.random() < 0.5:
            sx, sinfo = container('d', depth + 1)
            info['sub'] = sinfo
            x += sx
        x += f'{ind} </xs:sequence><xs:attribute name="k" type="xs:int"/></xs:complexType>\n{ind}</xs:element>\n'
        return x, info
    conts = []
    body = ' <xs:element name="r">\n  <xs:complexType><xs:sequence>\n'
    for nm_ in rng.sample(['c1', 'c2', 'c3'], rng.choice([1, 2, 2, 3])):
        cx, ci = container(nm_, 1)
        conts.append(ci)
        body += cx
    body += '  </xs:sequence></xs:complexType>\n </xs:element>\n'
    spec.xsd = head + g + body + '</xs:schema>\n'

    # the document
    style = rng.choice(['default', 'prefix']) if spec.tns else 'plain'
    pre = 't:' if style == 'prefix' else ''
    perr = rng.choice([0.0, 0.3, 0.5])

    def val(ok: list, headonly: list) -> str:
        r = rng.random()
        if headonly and r < perr:
            return rng.choice(headonly)
        if r > 0.97:
            return 'q q'
        return rng.choice(ok)

    def occurrence(h: str) -> str:
        if h == 'h3':
            tag = rng.choice(['h3', 'm3', 'm3', 'n3'])
            a_ = rng.choice(['1', '7', '70000' if rng.random() < perr else '2'])
            k_ = f' k="{rng.choice([1, 2, 3])}"' if (tag == 'n3' and rng.random() > perr / 2) or rng.random() < 0.3 else ''
            x_ = ''
            if tag == 'm3' and rng.random() > perr / 2:
                x_ = f'<{pre}x>{rng.choice(["1", "2", "zz" if rng.random() < perr else "3"])}</{pre}x>'
            return f'<{pre}{tag}{k_}><{pre}a>{a_}</{pre}a>{x_}</{pre}{tag}>'
        ht, hok, members = SUBST_GROUPS[h]
        names = list(members) * 2 + ([] if (h == 'h4' and abstract4) else [h])
        tag = rng.choice(names)
        v = val(hok, []) if tag == h else val(members[tag][1], members[tag][2])
        return f'<{pre}{tag}>{v}</{pre}{tag}>'

    def inst(ci: dict) -> str:
        out = ''
        for _ in range(rng.randint(1, ci['occ'])):
            k_ = f' k="{rng.choice([1, 2])}"' if rng.random() < 0.3 else ''
            out += f'<{pre}{ci["name"]}{k_}>'
            if ci['e'] and rng.random() < 0.6:
                out += f'<{pre}e>s</{pre}e>'
            for h in ci['heads']:
                for _ in range(rng.choice([1, 2, 2, 3])):
                    out += occurrence(h)
            if ci['clash'] and rng.random() < 0.7:
                out += f'<{pre}{ci["clash"]}>text</{pre}{ci["clash"]}>'
            if ci['sub']:
                out += inst(ci['sub'])
            out += f'</{pre}{ci["name"]}>'
        return out
    decl = {'default': f' xmlns="{L.TNS}"', 'prefix': f' xmlns:t="{L.TNS}"', 'plain': ''}[style]
    xml = f'<{pre}r{decl}>' + ''.join(inst(c) for c in conts) + f'</{pre}r>'
    return spec, xml.encode()


def subst_family(ctx: Ctx, drv: Optional[Driver], n_schemas: Optional[int] = None) -> None:
    from xmlschema.validators import XsdElement
    n_schemas = n_schemas or ctx.pick(36, 400)
    for _ in range(n_schemas):
        spec, xml = gen_subst(ctx.rng)
        try:
            schema = L.build_schema(spec)
        except Exception as ex:  # noqa
            ctx.count('subst-schema-rejected:' + type(ex).__name__)
            continue
        base = {'family': 'substitution', 'xsd': spec.xsd, 'xml': xml.decode()}
        try:
            doc = Doc(schema, spec, xml)
        except Exception as ex:  # noqa
            ctx.count('subst-full-run-raises:' + type(ex).__name__)
            continue
        note_pollution(ctx, doc, base)
        eg = doc.eg
        ctx.count('subst-document:%s' % ('valid' if not eg.errors else 'invalid'))
        reqs: list = []
        pend: list = []
        check_find(ctx, spec, doc, reqs, pend, base)
        # the members (the head's declaration is referenced by the parent's content model, the element is governed by
        # the member's own global declaration) and a few other elements
        members = []
        for nid, depth, parent, node in eg.flat:
            g = eg.gov.get(nid)
            pg = eg.gov.get(parent) if parent is not None else None
            if g is None or pg is None:
                continue
            if any(isinstance(c, XsdElement) and c.name != node['tag'] and node['tag'] in (c.substitutes or ()) for c in pg):
                members.append(nid)
                ctx.count('subst-member:' + local(node['tag']) + (':own-error' if nid in eg.owner else ''))
        ctx.rng.shuffle(members)
        others = [i for i, d, _, _ in eg.flat if d >= 1 and i not in members and eg.gov.get(i) is not None]
        ctx.rng.shuffle(others)
        check_partial(ctx, spec, doc, xml, reqs, pend, base, every=members[:ctx.pick(5, 8)] + others[:2])
        compare(ctx, reqs, pend, drv)


# ------------------------------------------------------------------------------------------------
# identity constraints on intermediate repeated ancestors, on the root and on the selected elements themselves:
# r( a+( x+( y* ), z*, g*( w+ ) ) ) with key/unique/keyref declared on a (selector x | x|z), unique/key on r
# (selector a/x, a/g/w or a/z), unique on x (selector y), key on g (selector w); small value ranges so that duplicates
# fall under the 1st, 2nd and 3rd instance of the repeated ancestors; every element selected in every path form.

def gen_ident(rng) -> Any:
    spec = L.Spec()
    spec.tns = rng.random() < 0.5
    t = 't:' if spec.tns else ''
    head = '<xs:schema xmlns:xs="http://www.w3.org/2001/XMLSchema"'
    if spec.tns:
        head += f' targetNamespace="{L.TNS}" xmlns:t="{L.TNS}" elementFormDefault="qualified"'
    head += '>\n'
    on_x = rng.random() < 0.6
    on_g = rng.random() < 0.7
    a_kind = rng.choice(['key', 'key', 'unique'])
    a_sel = rng.choice([f'{t}x', f'{t}x|{t}z', f'{t}x'])
    a_ref = rng.random() < 0.5
    r_kind = rng.choice([None, 'unique', 'unique', 'key'])
    r_sel = rng.choice([f'{t}a/{t}x', f'{t}a/{t}g/{t}w', f'{t}a/{t}z'])
    idattr = '<xs:attribute name="id" type="xs:int"/><xs:attribute name="rf" type="xs:int"/>'
    uy = f'<xs:unique name="uy"><xs:selector xpath="{t}y"/><xs:field xpath="@k"/></xs:unique>' if on_x else ''
    kg = f'<xs:key name="kg"><xs:selector xpath="{t}w"/><xs:field xpath="@id"/></xs:key>' if on_g else ''
    kra = (f'<xs:keyref name="kra" refer="{t}ka"><xs:selector xpath="{t}x"/><xs:field xpath="@rf"/></xs:keyref>'
           if a_ref else '')
    ur = (f'<xs:{r_kind} name="ur"><xs:selector xpath="{r_sel}"/><xs:field xpath="@id"/></xs:{r_kind}>'
          if r_kind else '')
    spec.xsd = (
        head + ' <xs:element name="r"><xs:complexType><xs:sequence>\n'
        '  <xs:element name="a" maxOccurs="unbounded"><xs:complexType><xs:sequence>\n'
        '    <xs:element name="x" maxOccurs="unbounded"><xs:complexType><xs:sequence>\n'
        '      <xs:element name="y" minOccurs="0" maxOccurs="unbounded"><xs:complexType><xs:attribute name="k" type="xs:int"/>'
        '<xs:attribute name="v" type="xs:int"/></xs:complexType></xs:element>\n'
        f'     </xs:sequence>{idattr}</xs:complexType>{uy}</xs:element>\n'
        f'    <xs:element name="z" minOccurs="0" maxOccurs="unbounded"><xs:complexType>{idattr}</xs:complexType></xs:element>\n'
        '    <xs:element name="g" minOccurs="0" maxOccurs="unbounded"><xs:complexType><xs:sequence>\n'
        f'      <xs:element name="w" maxOccurs="unbounded"><xs:complexType>{idattr}</xs:complexType></xs:element>\n'
        f'     </xs:sequence></xs:complexType>{kg}</xs:element>\n'
        '   </xs:sequence><xs:attribute name="n" type="xs:int"/></xs:complexType>\n'
        f'   <xs:{a_kind} name="ka"><xs:selector xpath="{a_sel}"/><xs:field xpath="@id"/></xs:{a_kind}>{kra}\n'
        '  </xs:element>\n'
        f' </xs:sequence></xs:complexType>{ur}</xs:element>\n</xs:schema>\n')
    style = rng.choice(['default', 'prefix']) if spec.tns else 'plain'
    pre = 't:' if style == 'prefix' else ''
    rangek = rng.choice([2, 3, 5])
    pmiss = rng.choice([0.0, 0.1, 0.25])
    pbad = rng.choice([0.0, 0.0, 0.1])

    def ids() -> str:
        out = ''
        if rng.random() >= pmiss:
            out += f' id="{rng.randint(1, rangek)}"'
        if rng.random() < 0.3:
            out += f' rf="{rng.randint(1, rangek + 1)}"'
        return out
    body = ''
    for _ in range(rng.choice([1, 2, 2, 3, 3])):
        body += f'<{pre}a>'
        for _ in range(rng.choice([1, 2, 3, 4])):
            ys = ''.join(f'<{pre}y k="{rng.randint(1, rangek)}"' + (' v="zz"' if rng.random() < pbad else '') + '/>'
                         for _ in range(rng.choice([0, 0, 1, 2, 3])))
            body += f'<{pre}x{ids()}>{ys}</{pre}x>'
        for _ in range(rng.choice([0, 0, 1, 2])):
            body += f'<{pre}z{ids()}/>'
        for _ in range(rng.choice([0, 1, 1, 2])):
            body += f'<{pre}g>' + ''.join(f'<{pre}w{ids()}/>' for _ in range(rng.choice([1, 2, 3]))) + f'</{pre}g>'
        body += f'</{pre}a>'
    decl = {'default': f' xmlns="{L.TNS}"', 'prefix': f' xmlns:t="{L.TNS}"', 'plain': ''}[style]
    return spec, (f'<{pre}r{decl}>' + body + f'</{pre}r>').encode()


def identity_family(ctx: Ctx, drv: Optional[Driver], n_schemas: Optional[int] = None) -> None:
    n_schemas = n_schemas or ctx.pick(40, 400)
    for _ in range(n_schemas):
        spec, xml = gen_ident(ctx.rng)
        try:
            schema = L.build_schema(spec)
        except Exception as ex:  # noqa
            ctx.count('ident-schema-rejected:' + type(ex).__name__)
            continue
        base = {'family': 'identity', 'xsd': spec.xsd, 'xml': xml.decode()}
        try:
            doc = Doc(schema, spec, xml)
        except Exception as ex:  # noqa
            ctx.count('ident-full-run-raises:' + type(ex).__name__)
            continue
        note_pollution(ctx, doc, base)
        eg = doc.eg
        n_ident = sum(1 for c in eg.canon if ident_text(c[1]))
        ctx.count('ident-document:%s' % ('identity-errors' if n_ident else 'no-identity-error'))
        reqs: list = []
        pend: list = []
        # one element of every kind under every instance of `a` (so that the 2nd and 3rd instances are reached by
        # single-instance forms like a[2]/x too), all path forms
        every = []
        for a_ in eg.tree['cs']:
            for kind in ('x', 'z', 'g', 'w', 'y'):
                c = [i for i, d, _, n in eg.flat if eg.in_subtree(i, a_['id']) and local(n['tag']) == kind]
                if c:
                    every.append(ctx.rng.choice(c))
        ctx.rng.shuffle(every)
        check_partial(ctx, spec, doc, xml, reqs, pend, base,
                      every=every[:ctx.pick(6, 10)] + [c['id'] for c in eg.tree['cs']][:2])
        compare(ctx, reqs, pend, drv)


# ------------------------------------------------------------------------------------------------
# the same path strings on documents of different namespaces, interleaved in one process: a path denotes
# element names only together with the namespace map it is used with (prefix -> URI, default namespace)
TWIN_XSD = '''<xs:schema xmlns:xs="http://www.w3.org/2001/XMLSchema" targetNamespace="{ns}" xmlns:t="{ns}"
   elementFormDefault="qualified">
 <xs:element name="root"><xs:complexType><xs:sequence>
   <xs:element name="x"><xs:complexType><xs:sequence><xs:element name="item" type="xs:int" maxOccurs="3"/></xs:sequence></xs:complexType></xs:element>
   <xs:element name="y"><xs:complexType><xs:sequence><xs:element name="item" type="xs:boolean" maxOccurs="3"/></xs:sequence>
        <xs:attribute name="k" type="xs:int"/></xs:complexType></xs:element>
   <xs:element ref="t:z" minOccurs="0"/>
 </xs:sequence></xs:complexType></xs:element>
 <xs:element name="z" type="xs:date"/>
</xs:schema>'''


def twin_namespaces(ctx: Ctx) -> None:
    import xmlschema
    from xml.etree import ElementTree as ET
    nss = ['urn:twin:a', 'urn:twin:b', 'urn:twin:c']
    schemas = {ns: xmlschema.XMLSchema(TWIN_XSD.format(ns=ns)) for ns in nss}
    bodies = {
        'valid': '<x><item>1</item><item>2</item></x><y k="3"><item>true</item></y><z>2020-01-01</z>',
        'bad-x': '<x><item>1</item><item>oops</item></x><y><item>false</item></y>',
        'bad-y': '<x><item>5</item></x><y k="q"><item>7</item><item>true</item></y><z>nope</z>',
    }
    styles = {'default': ('<root xmlns="{ns}">{b}</root>', '', None),
              'prefix': ('<t:root xmlns:t="{ns}">{b}</t:root>', 't:', 't')}
    jobs = []
    for ns in nss:
        for bname, body in bodies.items():
            for sname, (tpl, pre, pfx) in styles.items():
                b = body
                if pre:
                    b = b.replace('<', '<' + pre).replace('<' + pre + '/', '</' + pre)
                xml = tpl.format(ns=ns, b=b)
                for path_tpl in ('/{p}root/{p}x', '/{p}root/{p}x/{p}item', '/{p}root/{p}y', '/{p}root/{p}y/{p}item',
                                 '/{p}root/{p}x/{p}item[2]', '/{p}root/{p}z', '{p}x/{p}item', '{p}y/{p}item',
                                 '/{p}root/{p}y/{p}item[1]'):   # no `*` before the last step: known finding C20-F4
                    jobs.append((ns, bname, sname, xml, path_tpl.format(p=pre)))
    ctx.rng.shuffle(jobs)
    for ns, bname, sname, xml, path in jobs[:ctx.pick(220, 10 ** 6)]:
        twin_one(ctx, ns, bname, sname, xml, path, schemas[ns])


def twin_one(ctx: Ctx, ns: str, bname: str, sname: str, xml: str, path: str, schema: Any = None) -> None:
    import xmlschema
    from xml.etree import ElementTree as ET
    if schema is None:
        schema = xmlschema.XMLSchema(TWIN_XSD.format(ns=ns))
    if True:
        case = {'family': 'twin-namespaces', 'ns': ns, 'doc': bname, 'style': sname, 'path': path, 'xml': xml}
        ctx.case(case, True, tag='twin/' + sname)
        root = ET.fromstring(xml)
        nsmap = {'t': ns} if sname == 'prefix' else {'': ns}
        # the elements the path selects, by an independent reading of the child steps
        steps = [st for st in path.strip('/').split('/')]
        if path.startswith('/'):
            steps = steps[1:]              # the first step names the root itself
        cur = [root]
        for st in steps:
            pos = None
            if '[' in st:
                st, pos = st[:-1].split('[')
                pos = int(pos)
            name = st.split(':')[-1]
            nxt = []
            for e in cur:
                kids = [c for c in e if st == '*' or c.tag == '{%s}%s' % (ns, name)]
                if pos is not None:
                    kids = kids[pos - 1:pos]
                nxt.extend(kids)
            cur = nxt
        full_errors = list(schema.iter_errors(xml))
        selected_ids = set()
        for e in cur:
            for d in e.iter():
                selected_ids.add(id(d))
        # compare through positions (the full run works on its own parse of the same text)
        order = {id(e): i for i, e in enumerate(root.iter())}
        sel_pos = {order[i] for i in selected_ids}
        full_root = None
        exp = []
        for err in full_errors:
            if full_root is None:
                r = err.elem
                # climb is not available on ElementTree: map by document order in the error's own root
                full_root = err.source.root if err.source is not None else None
            if full_root is not None and err.elem is not None:
                pos_map = {id(e): i for i, e in enumerate(full_root.iter())}
                if pos_map.get(id(err.elem)) in sel_pos:
                    exp.append(norm_reason(err))
        try:
            got = [norm_reason(e) for e in schema.iter_errors(xml, path=path, namespaces=nsmap)]
            valid = schema.is_valid(xml, path=path, namespaces=nsmap)
        except Exception as ex:   # noqa
            ctx.failure('path-selected validation raised', case, {'error': type(ex).__name__, 'msg': str(ex)[:200]})
            return
        if cur and not any('IDREF' in x or 'key' in x for x in exp + got):
            if sorted(got) != sorted(exp) or valid != (not exp):
                ctx.failure('validating only the part selected by a path differs from the full result for that part',
                            case, {'selected_elements': len(cur), 'partial_errors': got, 'full_errors_in_part': exp,
                                   'partial_is_valid': valid})


def norm_reason(e: Any) -> str:
    import re
    return re.sub(r' at 0x[0-9a-f]+', '', str(e.reason or ''))[:120]


def run_one(ctx: Ctx, drv: Optional[Driver], xsd: str, xml: bytes, only: Optional[dict] = None) -> None:
    """all the checks of one (schema, document); `only` = a stored case: its own path is evaluated first"""
    import xmlschema
    schema = xmlschema.XMLSchema(xsd)
    spec = L.Spec()
    spec.xsd = xsd
    spec.tns = 'targetNamespace="urn:t"' in xsd
    reqs: list = []
    pend: list = []
    base = {'xsd': xsd, 'xml': xml.decode()}
    if only and only.get('family'):
        base = dict(base, family=only['family'])
    doc = Doc(schema, spec, xml)
    note_pollution(ctx, doc, base)
    if only and only.get('path') and str(only.get('api', '')).startswith(('iter_errors', 'decode')):
        # the stored path itself, as it was spelled
        pt = Partial(ctx, spec, doc, xml, base)
        path, nsx = only['path'], only.get('namespaces')
        case = dict(base, api=only['api'], path=path, namespaces=nsx, form=only.get('form'))
        try:
            sel = pt.selection(path, nsx)
            wild = '*' in path or '//' in path
            pt.evaluate(case, path, nsx, sel, wild, '[' in path, 'replay')
            if len(sel) == 1 and sel[0] > 0:
                pt.evaluate_data(dict(case, api='decode(path)'), path, nsx, sel[0], wild, '[' in path)
        except Exception as ex:  # noqa
            ctx.failure('path-driven run raised', case, repr(ex))
    check_find(ctx, spec, doc, reqs, pend, base)
    every = None
    if base.get('family') in ('substitution', 'identity'):
        every = [i for i, d, _, _ in doc.eg.flat if d >= 1 and doc.eg.gov.get(i) is not None]
    check_partial(ctx, spec, doc, xml, reqs, pend, base, every=every)
    check_depth(ctx, spec, doc, xml, reqs, pend, base)
    compare(ctx, reqs, pend, drv)


WIT_XSD = '''<xs:schema xmlns:xs="http://www.w3.org/2001/XMLSchema">
 <xs:element name="h" type="xs:int"/><xs:element name="m" type="xs:short" substitutionGroup="h"/>
 <xs:element name="s"><xs:complexType><xs:sequence><xs:element ref="h" maxOccurs="unbounded"/></xs:sequence></xs:complexType></xs:element>
 <xs:element name="r"><xs:complexType><xs:sequence>
  <xs:element name="a"><xs:complexType><xs:sequence><xs:element name="x" type="xs:int"/></xs:sequence></xs:complexType></xs:element>
  <xs:element name="b"><xs:complexType><xs:sequence><xs:element name="x" type="xs:short"/></xs:sequence></xs:complexType></xs:element>
 </xs:sequence></xs:complexType></xs:element>
</xs:schema>'''


def lean_witnesses(ctx: Ctx) -> None:
    """the concrete witnesses of the Lean `_counterexample` theorems (schema wS of Props/C20.lean) on the real code"""
    import xmlschema
    schema = xmlschema.XMLSchema(WIT_XSD)
    gm, gh = schema.elements['m'], schema.elements['h']
    base = {'xsd': WIT_XSD, 'family': 'lean-witness'}
    # find_subst_counterexample: find('/s/m') is the head's reference; get_element with the `*` path returns it too
    case = dict(base, api='find', path='/s/m', xml='<s><m>70000</m></s>')
    ctx.case(case, True, 'lean-witness')
    d = schema.find('/s/m')
    if d is not None and d.name == 'h' and d.type is gh.type and schema.get_element('m', '/s/*') is d:
        ctx.known_hit('C20-F1')
    else:
        ctx.count('lean-witness:find_subst_counterexample-no-longer-reproduces')
    # getElement_name: the name branch never answers with another name (this is what seeded change C20-2 broke)
    ge = schema.get_element('m', '/s/m')
    if ge is not gm:
        ctx.failure('schema.get_element(tag, path ending with the name) returns a declaration with another name',
                    dict(case, api='get_element', tag='m'), {'kind': 'get_element', 'found': repr(ge), 'governing': repr(gm)})
    errs = [C6.canon_err(e)[1] for e in schema.iter_errors('<s><m>70000</m></s>', path='/s/m')]
    if len(errs) != 1:
        ctx.failure('errors of the selected part(s) differ from the matching part of the full result',
                    dict(case, api='iter_errors(path)'), {'kind': 'partial', 'got': errs, 'want': ['value must be -2^15 <= x < 2^15']})
    # paths_agree_star_counterexample: '/r/*/x' resolves to a's x (int) for the x inside b (short)
    xml = '<r><a><x>1</x></a><b><x>70000</x></b></r>'
    case = dict(base, api='iter_errors(path)', path='*/x', xml=xml)
    ctx.case(case, True, 'lean-witness')
    lk = schema.get_element('x', '/r/*/x')
    gb = schema.find('/r/b/x')
    full = [C6.canon_err(e)[1] for e in schema.iter_errors(xml)]
    part = [C6.canon_err(e)[1] for e in schema.iter_errors(xml, path='*/x')]
    if lk is not None and lk.name == 'x' and lk.type is not gb.type and len(full) == 1 and part == []:
        ctx.known_hit('C20-F4')
    elif part != full:
        ctx.failure('errors of the selected part(s) differ from the matching part of the full result', case,
                    {'kind': 'partial', 'got': part, 'want': full})
    else:
        ctx.count('lean-witness:paths_agree_star_counterexample-no-longer-reproduces')


def run(ctx: Ctx, driver_ok: bool) -> None:
    ctx.known = list(ctx.known) + [e for e in load_findings() if e.get('property') == 'C20']
    drv = Driver('drv_c20') if driver_ok else None
    d = VERIF / 'corpus' / 'C20'
    if d.exists():
        for f in sorted(d.glob('*.json')):
            obj = json.loads(f.read_text())
            run_one(ctx, drv, obj['xsd'], obj['xml'].encode(), only={'family': obj['family']} if obj.get('family') else None)
    lean_witnesses(ctx)
    twin_namespaces(ctx)
    subst_family(ctx, drv)
    identity_family(ctx, drv)
    family(ctx, drv)


def search(ctx: Ctx) -> None:
    """widened exploration after a broken obligation / correspondence without a failing input: about one minute in
    the quick tier (the thorough tier has explored its families already)"""
    import time
    if ctx.quick():
        deadline = time.time() + 60
        subst_family(ctx, None, 60)
        if not ctx.failures and time.time() < deadline:
            identity_family(ctx, None, 40)
        if not ctx.failures and time.time() < deadline:
            family(ctx, None, deadline)


def replay_case(ctx: Ctx, drv: Optional[Driver], case: dict) -> bool:
    if not case or 'xsd' not in case:
        if case and case.get('family') == 'twin-namespaces':
            twin_one(ctx, case['ns'], case['doc'], case['style'], case['xml'], case['path'])
            return True
        return False
    run_one(ctx, drv, case['xsd'], case['xml'].encode(), only=case)
    return True


def replay(ctx: Ctx, obj: dict) -> int:
    print(json.dumps(obj, indent=1)[:6000])
    ctx.known = list(ctx.known) + [e for e in load_findings() if e.get('property') == 'C20']
    drv = Driver('drv_c20') if Path(Driver('drv_c20').path).exists() else None
    cases = [obj.get('input')] if obj.get('input') else [m.get('case') for m in obj.get('first_mismatches', [])]
    ran = [replay_case(ctx, drv, c) for c in cases]
    if not any(ran):
        print('nothing to replay (no stored input)')
        return 0
    for m in ctx.mismatches[:3]:
        print('MODEL != IMPLEMENTATION:', m['correspondence'], 'impl=', m['impl'], 'model=', m['model'])
    for f in ctx.failures[:5]:
        print('FAILS ON THE REAL CODE:', f['what'], json.dumps(f['case'].get('path')), json.dumps(f['detail'], default=str)[:1500])
    status = {e['id']: e.get('status') for e in ctx.known}
    for fid, n in sorted(ctx.known_hits.items()):
        what = next((e['what'] for e in ctx.known if e['id'] == fid), '')
        print(f'KNOWN-FINDING: property=C20 {fid} (status {status.get(fid)}) matched by {n} case(s) of this input: {what[:200]}')
    if not ctx.failures and not ctx.mismatches:
        print('REPLAY: the stored input does not fail on this tree' +
              (' beyond the listed known finding(s) above' if ctx.known_hits else ''))
    return 1 if ctx.failures else 0
