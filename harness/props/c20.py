"""
C20 — schema paths match instance paths; partial validation/decoding equals the full result.

Correspondence (implementation vs Lean models XsVerif/Model/SchemaPaths.lean + Model/Lazy.lean, driver drv_c20):
  * `schema.findall(path)` for every element path of the document vs `findAll` on the introspected schema graph
    (children, substitution members, wildcards with the names they admit, global elements in XPath order),
  * `schema.get_element(tag, '/root/*')` and `get_element(tag, full path)` vs the port with its fall-backs,
  * `iter_errors(doc, path='*' | '*/*')` and `iter_errors(doc, max_depth=k)` vs the compositional validator of the
    model instantiated with the error segments measured on the full run.
Property evaluation on the real code (independent of Lean):
  * find(path) has the name and type of the declaration recorded by `validation_hook` for that element
    (all spellings: Clark, prefixed, default namespace, with and without positional predicates),
  * errors/data of `path=`-selected parts == the matching part of the full result,
  * errors/data with max_depth == the full result above the cut.
"""
from __future__ import annotations

import json
import re
from pathlib import Path
from typing import Any, Optional

from harness.core import Ctx, Driver, VERIF
from harness import lib_lazy as L
from harness.props import c06 as C6

PROPS = 'XsVerif.Props.C20'
AUDIT = 'XsVerif.Audit.C20'
LEAN_TARGETS = ['XsVerif.Props.C20', 'drv_c20']
LEANCHECK = ['XsVerif.Model.SchemaPaths', 'XsVerif.Model.Lazy', 'XsVerif.Lemmas.Lazy', 'XsVerif.Props.C20']
RULE = ('a case is one (generated schema, generated document, element path spelling | path= selection | max_depth) — '
        'schemas with local declarations, references, a substitution group, wildcard tails, xsi:type-extensible named '
        'types and the same local name with different types in different contexts; non-trivial = the path has >= 2 '
        'steps, or the selected part / the cut separates errors, or the step goes through a reference, a substitution '
        'member, a wildcard or an xsi:type; distinct by canonical JSON')
TRUSTED = ['elementpath evaluates the XPath; the model covers paths of child steps (names, `*`), the predicates and the '
           'other axes are exercised on the real code only',
           'the abstract validator of the model is instantiated from error segments measured on the real full run']
ASSUMPTIONS = ['errors that depend on document-wide tables (ID/IDREF, key/keyref resolution) are document-level and are left '
               'out when a part or a depth-limited run is compared with the whole',
               'namespace-declaration pseudo-attributes at the root of a separately decoded part follow the documented '
               '"single decoding process" rule (only for global elements, then all namespaces in scope) and are not compared',
               'the claim about find(path) is made for valid documents; invalid ones are explored too (same rule)',
               'findings repaired in /repo have no rule (C20-F2 d54abee; of C20-F3 the case "prefix declared on the selected '
               'element itself", c3a1309): a recurrence is a violation']

FINDINGS_FILE = VERIF / 'notes' / 'findings' / 'C20.json'
XSI_TYPE = '{%s}type' % L.XSI


def load_findings() -> list[dict]:
    if FINDINGS_FILE.exists():
        return json.loads(FINDINGS_FILE.read_text()).get('findings', [])
    return []


def local(tag: str) -> str:
    return tag.split('}')[-1]


# ---------------------------------------------------------------------------------------------------
# introspection of the schema graph

def schema_graph(schema, universe: list[str]) -> tuple[dict, dict]:
    """rows of the model's Schema + map id(component) -> row id"""
    from xmlschema.validators import XsdElement, XsdAnyElement
    ids: dict[int, int] = {}
    rows: list[dict] = []
    types: dict[int, int] = {}
    todo = list(schema)

    def rid(c) -> int:
        if id(c) not in ids:
            ids[id(c)] = len(ids)
            todo.append(c)
        return ids[id(c)]
    globals_ = [rid(g) for g in schema]
    seen = set()
    while todo:
        c = todo.pop()
        if id(c) in seen:
            continue
        seen.add(id(c))
        me = rid(c)
        if isinstance(c, XsdAnyElement):
            rows.append({'id': me, 'subst': [], 'wc': [n for n in universe if c.is_matching(n)], 'ty': 0, 'kids': []})
            continue
        kids = [rid(k) for k in c]
        rows.append({'id': me, 'name': c.name, 'subst': sorted(c.substitutes or ()), 'wc': [],
                     'ty': types.setdefault(id(c.type), len(types) + 1), 'kids': kids})
    return {'decls': rows, 'globals': globals_}, ids


class Doc:
    """a document, its full run and the path bookkeeping"""

    def __init__(self, schema, spec, xml: bytes):
        self.eg = C6.Eager(schema, xml)
        eg = self.eg
        self.tns = spec.tns
        self.schema = schema
        # plain step: the element is governed by a named child of the declared type of its parent's declaration
        self.plain: dict[int, bool] = {}
        from xmlschema.validators import XsdElement
        for nid, depth, parent, node in eg.flat:
            g = eg.gov.get(nid)
            if parent is None:
                self.plain[nid] = g is not None and g.name == node['tag'] and XSI_TYPE not in eg.elem[nid].attrib
                continue
            pg = eg.gov.get(parent)
            ok = False
            if g is not None and pg is not None and XSI_TYPE not in eg.elem[parent].attrib:
                named = [c for c in pg if isinstance(c, XsdElement)]
                ok = any((c is g or (c.ref is not None and c.ref is g) or (g.ref is not None and g.ref is c) or
                          (c.name == g.name and c.type is g.type)) and c.name == node['tag'] for c in named)
            self.plain[nid] = ok

    def chain(self, nid: int) -> list[int]:
        out = []
        while nid is not None:
            out.append(nid)
            nid = self.eg.parent[nid]
        return out[::-1]

    def all_plain(self, nid: int) -> bool:
        return all(self.plain[i] for i in self.chain(nid))

    def position(self, nid: int) -> tuple[int, int]:
        """(position among equally named siblings, number of them)"""
        p = self.eg.parent[nid]
        if p is None:
            return 1, 1
        sib = [c['id'] for c in self.eg.node[p]['cs'] if c['tag'] == self.eg.node[nid]['tag']]
        return sib.index(nid) + 1, len(sib)

    def spell(self, nid: int, form: str, positions: bool) -> tuple[str, Optional[dict]]:
        steps = []
        for i in self.chain(nid):
            tag = self.eg.node[i]['tag']
            if form == 'clark' or not self.tns:
                s = tag
            elif form == 'prefix':
                s = 'w0:' + local(tag)      # a prefix that no generated document binds or uses in a QName value
            else:
                s = local(tag)
            if positions:
                k, n = self.position(i)
                if n > 1:
                    s += f'[{k}]'
            steps.append(s)
        ns = None
        if self.tns and form == 'prefix':
            ns = {'w0': L.TNS}
        elif self.tns and form == 'default':
            ns = {'': L.TNS}
        return '/' + '/'.join(steps), ns


def is_qname_decl(xe: Any) -> bool:
    """the declaration has the simple type xs:QName (namespace-sensitive text content)"""
    try:
        t = xe.type
        return bool(t.is_simple() and t.root_type.name == '{http://www.w3.org/2001/XMLSchema}QName')
    except AttributeError:
        return False


def known_match(case: dict, detail: dict) -> Optional[str]:
    kind = detail.get('kind')
    if kind == 'find':
        # the path goes through a step that is not a plain named child (substitution member, wildcard-admitted
        # element, xsi:type on an ancestor), or a positional predicate > 1 meets a wildcard sibling
        if detail.get('non_plain_step') or detail.get('predicate_meets_wildcard'):
            return 'C20-F1'
        return None
    # (an AttributeError of path= validation with a wildcard on an ancestor level was finding C20-F2, fixed by d54abee:
    #  no rule, any exception of partial validation is a failure)
    if kind == 'partial':
        return 'C20-F1' if detail.get('non_plain_step') or detail.get('predicate_meets_wildcard') else None
    if kind == 'partial-scope':
        # what remains of C20-F3 after c3a1309: a prefix used by an xsi:type inside the selected part is bound by an
        # element strictly between the root and the selected element; outside such elements the results agree
        return 'C20-F3' if detail.get('unscoped_type_nodes') and detail.get('same_outside') else None
    return None


def non_stateful(seq: list) -> list:
    return [x for x in seq if not C6.STATEFUL.search(x[1])]


# ---------------------------------------------------------------------------------------------------

def check_find(ctx: Ctx, spec, doc: Doc, reqs: list, pend: list, base: dict) -> None:
    from xmlschema.validators import XsdElement, XsdAnyElement
    eg, schema = doc.eg, doc.schema
    valid = not eg.errors
    universe = sorted({n['tag'] for _, _, _, n in eg.flat} | {g.name for g in schema} | {('{%s}zz' % L.TNS) if spec.tns else 'zz'})
    graph, gid = schema_graph(schema, universe)
    forms = ['clark', 'prefix', 'default'] if spec.tns else ['clark']
    for nid, depth, parent, node in eg.flat:
        g = eg.gov.get(nid)
        if g is None:
            ctx.count('element:not-visited')
            continue
        allp = doc.all_plain(nid)
        ctx.count('step:' + ('plain' if doc.plain[nid] else 'non-plain'))
        for form in forms:
            for positions in (False, True):
                path, ns = doc.spell(nid, form, positions)
                case = dict(base, api='find', path=path, namespaces=ns, valid_document=valid)
                try:
                    d = schema.find(path, ns)
                except Exception as ex:  # noqa
                    ctx.failure('schema.find raised on an instance path', case, repr(ex))
                    continue
                ctx.case(case, depth >= 1 or not allp, 'api:find')
                same = d is g or (isinstance(d, XsdElement) and d.name == g.name and d.type is g.type)
                ctx.count('find:%s' % ('governing' if same else 'other'))
                if not same:
                    pred_wild = False
                    if positions:
                        for i in doc.chain(nid)[1:]:
                            k, n = doc.position(i)
                            pg = eg.gov.get(eg.parent[i])
                            if k > 1 and pg is not None and any(isinstance(c, XsdAnyElement) and c.is_matching(eg.node[i]['tag'])
                                                                for c in pg):
                                pred_wild = True
                    detail = {'kind': 'find', 'found': repr(d), 'governing': repr(g), 'non_plain_step': not allp,
                              'predicate_meets_wildcard': pred_wild}
                    fid = known_match(case, detail)
                    if fid:
                        ctx.known_hit(fid)
                    else:
                        ctx.failure('schema.find(path of the element) is not the declaration that governs the element', case, detail)
        # model: findall on the Clark path without positions
        path, _ = doc.spell(nid, 'clark', False)
        steps = [eg.node[i]['tag'] for i in doc.chain(nid)]
        real = [gid.get(id(x), -1) for x in schema.findall(path)]
        reqs.append(dict(graph, op='findall', steps=steps))
        pend.append(('findall', dict(base, api='findall', path=path), real, gid.get(id(g), -1) if allp else None))
        # get_element with the star path of the lazy driver and with the full path
        if depth >= 1:
            tag = node['tag']
            psteps = steps[:-1]
            star = '/' + '/'.join(psteps) + '/*'
            r1 = schema.get_element(tag, star)
            reqs.append(dict(graph, op='get_element', tag=tag, steps=psteps, star=True))
            pend.append(('get_element', dict(base, api='get_element', tag=tag, path=star), None if r1 is None else gid.get(id(r1), -1), None))
            r2 = schema.get_element(tag, path)
            reqs.append(dict(graph, op='get_element', tag=tag, steps=steps, star=False))
            pend.append(('get_element', dict(base, api='get_element', tag=tag, path=path), None if r2 is None else gid.get(id(r2), -1), None))


def expected_part(eg: C6.Eager, selected: list[int]) -> list:
    out = []
    for i, o in enumerate(eg.owner):
        if any(eg.in_subtree(o, s) for s in selected):
            out.append(eg.canon[i])
    return non_stateful(out)


def check_partial(ctx: Ctx, spec, doc: Doc, xml: bytes, reqs: list, pend: list, base: dict) -> None:
    from xmlschema.validators import XsdAnyElement
    from xmlschema import XMLResource
    eg, schema = doc.eg, doc.schema
    depth_max = max(eg.depth.values())
    static_of, created_of = C6.static_lookup(schema, eg)
    ns = {'': L.TNS} if spec.tns else None

    last_paths: list = []

    def run(path: str, namespaces) -> Any:
        errs = list(schema.iter_errors(XMLResource(xml), path=path, namespaces=namespaces))
        last_paths[:] = [C6.norm_path(e.path) for e in errs]
        return [C6.canon_err(e) for e in errs]

    from xmlschema.utils.etree import etree_getpath
    scope = L.in_scope(eg.tree)
    root_scope = dict(scope[0])

    def unscoped(selected: list) -> list:
        """elements inside the selected parts whose xsi:type / QName prefix is resolved differently by the path-driven run:
        that run knows the declarations of the root (namespace map of the resource), of the selected element itself
        (schemas.py:1374-1376, commit c3a1309) and of the elements below it (pushed by their parent groups), but
        not those of the elements strictly between the root and the selected element"""
        out = []
        for s_ in selected:
            for i, d, _, n in eg.flat:
                if not eg.in_subtree(i, s_):
                    continue
                # namespace-sensitive content of the element: the value of xsi:type, the text of an xs:QName element
                used = []
                if XSI_TYPE in eg.elem[i].attrib:
                    used.append(eg.elem[i].attrib[XSI_TYPE])
                if is_qname_decl(eg.gov.get(i)) and (eg.elem[i].text or '').strip():
                    used.append(eg.elem[i].text.strip())
                if not used:
                    continue
                seen = dict(root_scope)
                for j in doc.chain(i)[len(doc.chain(s_)) - 1:]:
                    for p_, u_ in eg.node[j]['decls']:
                        seen[p_] = u_
                for v in used:
                    pfx = v.split(':')[0] if ':' in v else ''
                    if seen.get(pfx) != scope[i].get(pfx):
                        out.append(i)
                        break
        return out

    def f3_explains(selected: list, got: list) -> Optional[dict]:
        """C20-F3 (what remains): outside the elements found by `unscoped` the errors agree"""
        hit = unscoped(selected)
        if not hit:
            return None
        bare = lambda q: re.sub(r'\{[^}]*\}', '', q or '')  # noqa
        prefixes = [bare(C6.norm_path(etree_getpath(eg.elem[i], eg.res.root, None, False, True))) for i in hit]
        inside = lambda q: any(bare(q) == pf or bare(q).startswith(pf + '/') for pf in prefixes)  # noqa
        a = [c for q, c in zip(last_paths, got) if not inside(q)]
        b = [eg.canon[i] for i, o in enumerate(eg.owner)
             if any(eg.in_subtree(o, s_) for s_ in selected) and not any(eg.in_subtree(o, h) for h in hit)]
        return {'kind': 'partial-scope', 'unscoped_type_nodes': hit,
                'same_outside': sorted(non_stateful(a)) == sorted(non_stateful(b)), 'got': got}

    def wildcard_on_levels(nids: list[int]) -> bool:
        for i in nids:
            for a in doc.chain(i)[:-1]:
                g = eg.gov.get(a)
                if g is not None and any(isinstance(c, XsdAnyElement) for c in g):
                    return True
        return False
    # select-all paths: model + property
    for k in (1, 2):
        if depth_max < k:
            continue
        path = '/'.join('*' * k)
        selected = [i for i, d, _, _ in eg.flat if d == k]
        case = dict(base, api='iter_errors(path)', path=path)
        ctx.case(case, bool(eg.errors), 'api:partial-all')
        try:
            got = run(path, ns)
        except Exception as ex:  # noqa
            ctx.failure('partial validation raised', case, {'exception': repr(ex),
                                                            'wildcard on an ancestor level (C20-F2, fixed by d54abee)':
                                                            wildcard_on_levels(selected)})
            continue
        want = expected_part(eg, selected)
        npl = not all(doc.all_plain(i) for i in selected)
        if k >= 2 and non_stateful(got) != want:
            # C20-F4: with a `*` step before the last step the declaration is the first schema match of '/root/*/tag'
            from xmlschema.validators import XsdElement
            star = '/' + eg.res.root.tag + '/' + '/'.join('*' * k)
            nonloc = []
            for i in selected:
                lk = schema.get_element(eg.node[i]['tag'], star)
                g = eg.gov.get(i)
                if not (lk is g or (isinstance(lk, XsdElement) and g is not None and lk.name == g.name and lk.type is g.type)):
                    nonloc.append(i)
            if nonloc:
                ctx.known_hit('C20-F4')
                ctx.count('star-lookup-nonlocal', len(nonloc))
                continue
        if non_stateful(got) != want:
            detail = f3_explains(selected, got)
            if detail is not None and known_match(case, detail):
                ctx.known_hit('C20-F3')
                ctx.count('partial-all:unscoped-xsi-type')
                continue
            detail = {'kind': 'partial', 'got': got, 'want': want, 'non_plain_step': npl}
            fid = known_match(case, detail)
            ctx.known_hit(fid) if fid else ctx.failure('errors of the selected parts differ from the matching part of the full result', case, detail)
        # model (k = 1 uses the lazy driver's static lookup '/root/*' which is what get_element receives)
        tb = C6.build_tables(eg, schema, static_of, created_of) if k == 1 else None
        if tb is not None and not tb['alt_failed'] and not npl:
            reqs.append({'op': 'part', 'tree': eg.tree, 'k': 1, 'root': tb['root'], 'segs': tb['segs'], 'govs': tb['govs'],
                         'static': tb['static'], 'created': tb['created']})
            pend.append(('part', case, {'got': non_stateful(got), 'table': tb['table']}, None))
    # single elements: relative / absolute, with positions
    cands = [i for i, d, _, _ in eg.flat if d >= 1 and eg.gov.get(i) is not None]
    ctx.rng.shuffle(cands)
    for nid in cands[:ctx.pick(4, 8)]:
        form = ctx.rng.choice(['default', 'prefix', 'clark']) if spec.tns else 'clark'
        absolute = ctx.rng.random() < 0.5
        path, nsx = doc.spell(nid, form, True)
        if not absolute:
            path = path.split('/', 2)[2]
        case = dict(base, api='iter_errors(path)', path=path, namespaces=nsx)
        ctx.case(case, True, 'api:partial-one')
        npl = not doc.all_plain(nid)
        k, n = doc.position(nid)
        pred_wild = False
        for i in doc.chain(nid)[1:]:
            kk, nn = doc.position(i)
            pg = eg.gov.get(eg.parent[i])
            if kk > 1 and pg is not None and any(isinstance(c, XsdAnyElement) and c.is_matching(eg.node[i]['tag']) for c in pg):
                pred_wild = True
        try:
            got = run(path, nsx)
        except Exception as ex:  # noqa
            ctx.failure('partial validation raised', case, {'exception': repr(ex),
                                                            'wildcard on an ancestor level (C20-F2, fixed by d54abee)':
                                                            wildcard_on_levels([nid])})
            continue
        want = expected_part(eg, [nid])
        got_ns = non_stateful(got)
        # a path that selects nothing on the schema yields one "doesn't select any element" error
        if got_ns != want:
            detail = f3_explains([nid], got)
            if detail is not None and known_match(case, detail):
                ctx.known_hit('C20-F3')
                ctx.count('partial-one:unscoped-xsi-type')
                continue
        if got_ns != want:
            detail = {'kind': 'partial', 'got': got, 'want': want, 'non_plain_step': npl, 'predicate_meets_wildcard': pred_wild}
            fid = known_match(case, detail)
            ctx.known_hit(fid) if fid else ctx.failure('errors of the selected part differ from the matching part of the full result', case, detail)
        else:
            ctx.count('partial-one:same')
        # decoded data of the part
        try:
            full, _ = schema.decode(XMLResource(xml), validation='lax')
            part, _ = schema.decode(XMLResource(xml), validation='lax', path=path, namespaces=nsx)
        except Exception as ex:  # noqa
            ctx.count('partial-decode:raises:' + type(ex).__name__)
            continue
        sub = navigate(full, doc, nid)
        if sub is NOTFOUND:
            ctx.count('partial-decode:not-navigable')
            continue
        try:
            a, b = norm_data(part), norm_data(sub)
        except Collision:
            ctx.count('partial-decode:prefix-collision')
            continue
        hit = unscoped([nid]) if a != b else []
        if hit:
            # C20-F3 (what remains): the values of the elements whose xsi:type is not resolved are left out
            blanked = all(blank(a, doc, nid, j) and blank(b, doc, nid, j) for j in hit)
            detail = {'kind': 'partial-scope', 'unscoped_type_nodes': hit, 'same_outside': (a == b) if blanked else True,
                      'values located': blanked, 'part': repr(a)[:600], 'matching part of the whole': repr(b)[:600]}
            if known_match(case, detail):
                ctx.known_hit('C20-F3')
                ctx.count('partial-decode:unscoped-xsi-type' + ('' if blanked else ':not-located'))
                continue
        if a != b:
            detail = {'kind': 'partial', 'part': repr(a)[:600], 'matching part of the whole': repr(b)[:600],
                      'non_plain_step': npl, 'predicate_meets_wildcard': pred_wild}
            fid = known_match(case, detail)
            ctx.known_hit(fid) if fid else ctx.failure('decoded data of the selected part differs from the matching part of the full result', case, detail)
        else:
            ctx.count('partial-decode:same')


NOTFOUND = object()


def unprefixed(k: str) -> str:
    return k.split(':', 1)[1] if ':' in k and not k.startswith('@') else k


def navigate(full: Any, doc: Doc, nid: int) -> Any:
    cur = full
    for i in doc.chain(nid)[1:]:
        if not isinstance(cur, dict):
            return NOTFOUND
        name = local(doc.eg.node[i]['tag'])
        k, n = doc.position(i)
        vals = []
        nkeys = 0
        for key, v in cur.items():
            if isinstance(key, str) and key[:1] not in '@$' and unprefixed(key) == name:
                vals.extend(v if isinstance(v, list) else [v])
                nkeys += 1
        if len(vals) != n or nkeys != 1:
            return NOTFOUND
        cur = vals[k - 1]
    return cur


def blank(data: Any, doc: Doc, top: int, nid: int) -> bool:
    """replace, inside the (normalised) decoded value of element `top`, the value of its descendant `nid` by a
    marker; False when the value cannot be located"""
    if nid == top:
        return False
    chain = doc.chain(nid)[len(doc.chain(top)):]
    cur = data
    for depth_, i in enumerate(chain):
        if not isinstance(cur, dict):
            return False
        name = local(doc.eg.node[i]['tag'])
        k, n = doc.position(i)
        if name not in cur:
            return False
        v = cur[name]
        last = depth_ == len(chain) - 1
        if isinstance(v, list):
            if len(v) != n:
                return False
            if last:
                v[k - 1] = '<<unscoped xsi:type>>'
                return True
            cur = v[k - 1]
        else:
            if n != 1:
                return False
            if last:
                cur[name] = '<<unscoped xsi:type>>'
                return True
            cur = v
    return False


class Collision(Exception):
    pass


def norm_data(x: Any, top: bool = True) -> Any:
    if isinstance(x, dict):
        d = {}
        for k, v in x.items():
            if isinstance(k, str) and k.startswith('@xmlns'):
                continue
            k2 = unprefixed(k) if isinstance(k, str) else k
            if k2 in d:
                raise Collision()     # one element name spelled with two prefixes: order of the merged list is unknown
            d[k2] = norm_data(v, False)
        if top and set(d) == {'$'}:
            return d['$']
        return d
    if isinstance(x, list):
        return [norm_data(v, False) for v in x]
    return x


def prune_data(x: Any, k: int) -> Any:
    """keep k levels of a decoded element value; child values at the cut become 'HOLE'"""
    if not isinstance(x, dict):
        return x
    out = {}
    for key, v in x.items():
        if isinstance(key, str) and key[:1] in '@$' or not isinstance(key, str):
            out[key] = v
        elif isinstance(v, list):
            out[key] = ['HOLE' if k <= 1 else prune_data(i, k - 1) for i in v]
        else:
            out[key] = 'HOLE' if k <= 1 else prune_data(v, k - 1)
    return out


def check_depth(ctx: Ctx, spec, doc: Doc, xml: bytes, reqs: list, pend: list, base: dict) -> None:
    from xmlschema import XMLResource
    eg, schema = doc.eg, doc.schema
    static_of, created_of = C6.static_lookup(schema, eg)
    tb = C6.build_tables(eg, schema, static_of, created_of)
    if tb is not None and tb['alt_failed']:
        tb = None
    wild_gov = any(not doc.plain[i] for i in doc.plain)
    try:
        full, _ = schema.decode(XMLResource(xml), validation='lax')
    except Exception:  # noqa
        full = None
    for k in (0, 1, 2, 3, 4):
        case = dict(base, api='max_depth', max_depth=k)
        keep = max(k, 1)
        want_idx = [i for i, o in enumerate(eg.owner) if eg.depth[o] < keep]
        want = non_stateful([eg.canon[i] for i in want_idx])
        separates = any(eg.depth[o] >= keep for o in eg.owner)
        ctx.case(case, separates or max(eg.depth.values()) >= keep, 'api:max_depth')
        try:
            got = non_stateful([C6.canon_err(e) for e in schema.iter_errors(XMLResource(xml), max_depth=k)])
        except Exception as ex:  # noqa
            ctx.failure('validation with max_depth raised', case, repr(ex))
            continue
        if got != want:
            ctx.failure('max_depth changes the errors above the cut', case, {'got': got, 'want': want})
        if tb is not None:
            reqs.append({'op': 'part', 'tree': eg.tree, 'k': k, 'root': tb['root'], 'segs': tb['segs'], 'govs': tb['govs'],
                         'static': tb['static'], 'created': tb['created']})
            pend.append(('cut', case, {'got': got, 'table': tb['table']}, None))
        if full is not None and isinstance(full, dict) and not wild_gov:
            try:
                cut, _ = schema.decode(XMLResource(xml), validation='lax', max_depth=k, depth_filler=lambda x: 'HOLE')
            except Exception as ex:  # noqa
                ctx.failure('decoding with max_depth raised', case, repr(ex))
                continue
            wantd = prune_data(full, keep)

            def holes(x):
                if isinstance(x, dict):
                    return {k_: holes(v) for k_, v in x.items()}
                if isinstance(x, list):
                    y = [holes(v) for v in x]
                    return 'HOLE' if y and all(v == 'HOLE' for v in y) else y
                return x
            cut, wantd = holes(cut), holes(wantd)
            if cut != wantd:
                ctx.failure('max_depth changes the decoded data above the cut', case,
                            {'got': repr(cut)[:800], 'want': repr(wantd)[:800]})
            else:
                ctx.count('max_depth-data:same')


def compare(ctx: Ctx, reqs: list, pend: list, drv: Optional[Driver]) -> None:
    if drv is None:
        return
    for (kind, case, real, extra), m in zip(pend, drv.query(reqs)):
        ctx.traces += 1
        if 'err' in m:
            ctx.mismatch('driver error', case, None, m)
            continue
        if kind == 'findall':
            if m['ids'] != real:
                ctx.mismatch('findall', case, real, m['ids'])
            if extra is not None and m['gov'] is not None and m['gov'] != extra:
                # the model's governing declaration is name/type-equal, not necessarily the same particle
                ctx.count('gov-particle-differs')
        elif kind == 'get_element':
            if m['id'] != real:
                ctx.mismatch('get_element', case, real, m['id'])
        elif kind == 'part':
            got = [list(x) for x in real['got']]
            model = [list(x) for x in non_stateful([real['table'][i] for i in m['part']])]
            deep = [list(x) for x in non_stateful([real['table'][i] for i in m['deep']])]
            if model != got:
                ctx.mismatch('errors of the selected parts', case, got, model)
            if m['local'] and model != deep:
                ctx.mismatch('model: partial != restriction although PathLocal', case, deep, model)
        elif kind == 'cut':
            got = [list(x) for x in real['got']]
            model = [list(x) for x in non_stateful([real['table'][i] for i in m['cut']])]
            if model != got:
                ctx.mismatch('errors with max_depth', case, got, model)


def family(ctx: Ctx, drv: Optional[Driver]) -> None:
    n_schemas = ctx.pick(250, 1500)
    n_docs = ctx.pick(3, 6)
    built = 0
    attempts = 0
    while built < n_schemas and attempts < n_schemas * 4:
        attempts += 1
        spec = L.gen_schema(ctx.rng, maxdepth=ctx.rng.choice([2, 3, 3, 4]), identities=ctx.rng.random() < 0.3)
        try:
            schema = L.build_schema(spec)
        except Exception:  # noqa
            ctx.count('schema-rejected')
            continue
        built += 1
        for f in sorted(spec.features):
            ctx.count('schema-feature:' + f.split(':')[0])
        names = [p[-1] for p, d in spec.root.walk()]
        if len(names) != len(set(names)):
            ctx.count('schema-feature:repeated-local-name')
        reqs: list = []
        pend: list = []
        for _ in range(n_docs):
            xml, _, defects, style = L.gen_doc(ctx.rng, spec, perr=ctx.rng.choice([0.0, 0.0, 0.04]))
            base = {'xsd': spec.xsd, 'xml': xml.decode()}
            try:
                doc = Doc(schema, spec, xml)
            except Exception as ex:  # noqa
                ctx.count('full-run-raises:' + type(ex).__name__)
                continue
            ctx.count('document:%s' % ('valid' if not doc.eg.errors else 'invalid'))
            check_find(ctx, spec, doc, reqs, pend, base)
            check_partial(ctx, spec, doc, xml, reqs, pend, base)
            check_depth(ctx, spec, doc, xml, reqs, pend, base)
        compare(ctx, reqs, pend, drv)


# ------------------------------------------------------------------------------------------------
# the same path strings on documents of different namespaces, interleaved in one process: a path denotes
# element names only together with the namespace map it is used with (prefix -> URI, default namespace)
TWIN_XSD = '''<xs:schema xmlns:xs="http://www.w3.org/2001/XMLSchema" targetNamespace="{ns}" xmlns:t="{ns}"
   elementFormDefault="qualified">
 <xs:element name="root"><xs:complexType><xs:sequence>
   <xs:element name="x"><xs:complexType><xs:sequence><xs:element name="item" type="xs:int" maxOccurs="3"/></xs:sequence></xs:complexType></xs:element>
   <xs:element name="y"><xs:complexType><xs:sequence><xs:element name="item" type="xs:boolean" maxOccurs="3"/></xs:sequence>
        <xs:attribute name="k" type="xs:int"/></xs:complexType></xs:element>
   <xs:element ref="t:z" minOccurs="0"/>
 </xs:sequence></xs:complexType></xs:element>
 <xs:element name="z" type="xs:date"/>
</xs:schema>'''


def twin_namespaces(ctx: Ctx) -> None:
    import xmlschema
    from xml.etree import ElementTree as ET
    nss = ['urn:twin:a', 'urn:twin:b', 'urn:twin:c']
    schemas = {ns: xmlschema.XMLSchema(TWIN_XSD.format(ns=ns)) for ns in nss}
    bodies = {
        'valid': '<x><item>1</item><item>2</item></x><y k="3"><item>true</item></y><z>2020-01-01</z>',
        'bad-x': '<x><item>1</item><item>oops</item></x><y><item>false</item></y>',
        'bad-y': '<x><item>5</item></x><y k="q"><item>7</item><item>true</item></y><z>nope</z>',
    }
    styles = {'default': ('<root xmlns="{ns}">{b}</root>', '', None),
              'prefix': ('<t:root xmlns:t="{ns}">{b}</t:root>', 't:', 't')}
    jobs = []
    for ns in nss:
        for bname, body in bodies.items():
            for sname, (tpl, pre, pfx) in styles.items():
                b = body
                if pre:
                    b = b.replace('<', '<' + pre).replace('<' + pre + '/', '</' + pre)
                xml = tpl.format(ns=ns, b=b)
                for path_tpl in ('/{p}root/{p}x', '/{p}root/{p}x/{p}item', '/{p}root/{p}y', '/{p}root/{p}y/{p}item',
                                 '/{p}root/{p}x/{p}item[2]', '/{p}root/{p}z', '{p}x/{p}item', '{p}y/{p}item',
                                 '/{p}root/{p}y/{p}item[1]'):   # no `*` before the last step: known finding C20-F4
                    jobs.append((ns, bname, sname, xml, path_tpl.format(p=pre)))
    ctx.rng.shuffle(jobs)
    for ns, bname, sname, xml, path in jobs[:ctx.pick(220, 10 ** 6)]:
        schema = schemas[ns]
        case = {'family': 'twin-namespaces', 'ns': ns, 'doc': bname, 'style': sname, 'path': path, 'xml': xml}
        ctx.case(case, True, tag='twin/' + sname)
        root = ET.fromstring(xml)
        nsmap = {'t': ns} if sname == 'prefix' else {'': ns}
        # the elements the path selects, by an independent reading of the child steps
        steps = [st for st in path.strip('/').split('/')]
        if path.startswith('/'):
            steps = steps[1:]              # the first step names the root itself
        cur = [root]
        for st in steps:
            pos = None
            if '[' in st:
                st, pos = st[:-1].split('[')
                pos = int(pos)
            name = st.split(':')[-1]
            nxt = []
            for e in cur:
                kids = [c for c in e if st == '*' or c.tag == '{%s}%s' % (ns, name)]
                if pos is not None:
                    kids = kids[pos - 1:pos]
                nxt.extend(kids)
            cur = nxt
        full_errors = list(schema.iter_errors(xml))
        selected_ids = set()
        for e in cur:
            for d in e.iter():
                selected_ids.add(id(d))
        # compare through positions (the full run works on its own parse of the same text)
        order = {id(e): i for i, e in enumerate(root.iter())}
        sel_pos = {order[i] for i in selected_ids}
        full_root = None
        exp = []
        for err in full_errors:
            if full_root is None:
                r = err.elem
                # climb is not available on ElementTree: map by document order in the error's own root
                full_root = err.source.root if err.source is not None else None
            if full_root is not None and err.elem is not None:
                pos_map = {id(e): i for i, e in enumerate(full_root.iter())}
                if pos_map.get(id(err.elem)) in sel_pos:
                    exp.append(norm_reason(err))
        try:
            got = [norm_reason(e) for e in schema.iter_errors(xml, path=path, namespaces=nsmap)]
            valid = schema.is_valid(xml, path=path, namespaces=nsmap)
        except Exception as ex:   # noqa
            ctx.failure('path-selected validation raised', case, {'error': type(ex).__name__, 'msg': str(ex)[:200]})
            continue
        if cur and not any('IDREF' in x or 'key' in x for x in exp + got):
            if sorted(got) != sorted(exp) or valid != (not exp):
                ctx.failure('validating only the part selected by a path differs from the full result for that part',
                            case, {'selected_elements': len(cur), 'partial_errors': got, 'full_errors_in_part': exp,
                                   'partial_is_valid': valid})


def norm_reason(e: Any) -> str:
    import re
    return re.sub(r' at 0x[0-9a-f]+', '', str(e.reason or ''))[:120]


def run_one(ctx: Ctx, drv: Optional[Driver], xsd: str, xml: bytes) -> None:
    import xmlschema
    schema = xmlschema.XMLSchema(xsd)
    spec = L.Spec()
    spec.xsd = xsd
    spec.tns = 'targetNamespace="urn:t"' in xsd
    reqs: list = []
    pend: list = []
    base = {'xsd': xsd, 'xml': xml.decode()}
    doc = Doc(schema, spec, xml)
    check_find(ctx, spec, doc, reqs, pend, base)
    check_partial(ctx, spec, doc, xml, reqs, pend, base)
    check_depth(ctx, spec, doc, xml, reqs, pend, base)
    compare(ctx, reqs, pend, drv)


def run(ctx: Ctx, driver_ok: bool) -> None:
    ctx.known = list(ctx.known) + [e for e in load_findings() if e.get('property') == 'C20']
    drv = Driver('drv_c20') if driver_ok else None
    d = VERIF / 'corpus' / 'C20'
    if d.exists():
        for f in sorted(d.glob('*.json')):
            obj = json.loads(f.read_text())
            run_one(ctx, drv, obj['xsd'], obj['xml'].encode())
    twin_namespaces(ctx)
    family(ctx, drv)


def search(ctx: Ctx) -> None:
    if ctx.quick():
        saved = ctx.tier
        ctx.tier = 'thorough'
        try:
            family(ctx, None)
        finally:
            ctx.tier = saved


def replay(ctx: Ctx, obj: dict) -> int:
    print(json.dumps(obj, indent=1)[:6000])
    case = obj.get('input')
    if not case or 'xsd' not in case:
        return 0
    ctx.known = list(ctx.known) + [e for e in load_findings() if e.get('property') == 'C20']
    drv = Driver('drv_c20') if Path(Driver('drv_c20').path).exists() else None
    run_one(ctx, drv, case['xsd'], case['xml'].encode())
    for m in ctx.mismatches[:3]:
        print('MODEL != IMPLEMENTATION:', m['correspondence'], 'impl=', m['impl'], 'model=', m['model'])
    for f in ctx.failures[:5]:
        print('FAILS ON THE REAL CODE:', f['what'], json.dumps(f['case'].get('path')), json.dumps(f['detail'], default=str)[:1500])
    print('known findings matched:', ctx.known_hits)
    return 1 if ctx.failures else 0
