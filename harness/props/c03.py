"""
C03 — attribute sets are validated per declared uses, value constraints and wildcards.

(deepened: concrete catalogue types instead of tables, derived types, group construction — see run_types,
check_build, witnesses)

Generator: seeded random declaration sets (use x form x fixed/default x global refs x attribute groups x
type from a small catalogue) x attribute wildcards (namespace constraint x processContents, own and in
referenced groups) x EVERY subset of an 8-name pool spanning no-namespace / target / declared-foreign /
unknown / xsi namespaces x values from the catalogue; use_defaults on/off, fill_missing on/off; XSD 1.0
and 1.1.  Real schemas are built from XSD text, the built attribute group is introspected and
  (1) compared with the generator's intended group (parsing glue),
  (2) sent to the Lean driver (model XsVerif/Model/Attributes.lean, repaired and pinned variant) whose
      ordered error list and decoded list are compared with `schema.decode(..., validation='lax')`,
  (3) the property itself is evaluated on the real code against an independent set-based reading
      computed from the *intended* declarations (`spec_eval`), without Lean.
"""
from __future__ import annotations

import itertools
import json
import re
import shutil
import tempfile
from decimal import Decimal
from pathlib import Path
from typing import Any, Optional
from xml.etree import ElementTree as ET

from harness.core import Ctx, Driver, VERIF

PROPS = 'XsVerif.Props.C03'
AUDIT = 'XsVerif.Audit.C03'
LEAN_TARGETS = ['XsVerif.Props.C03', 'XsVerif.Props.C03Types', 'XsVerif.Props.C03Deriv', 'XsVerif.Props.C03Fixed', 'drv_c03']
LEANCHECK = ['XsVerif.Model.Attributes', 'XsVerif.Lemmas.Attributes', 'XsVerif.Model.AttrTypes', 'XsVerif.Model.AttrDeriv',
             'XsVerif.Model.AttrFixed', 'XsVerif.Lemmas.AttrFixed',
             'XsVerif.Props.C03', 'XsVerif.Props.C03Types', 'XsVerif.Props.C03Deriv', 'XsVerif.Props.C03Fixed']
RULE = ('a case is one (XSD version, declaration set [plain type, or the content of an <extension>/<restriction> of a '
        'generated base type], subset of the 8-name pool with one catalogue value per present attribute); each case is '
        'decoded under the four (use_defaults, fill_missing) settings; non-trivial = at least one of: an error is '
        'reported, an attribute is resolved through the wildcard or the xsi fallback, a fixed value is compared, a '
        'fixed/default value is injected, a prohibited declaration is met; distinct by canonical JSON of (version, built '
        'group, attributes).  Further cases: every lexical form of the type correspondence (catalogue type x generated '
        'text), the witnesses of the _counterexample theorems, and the systematic wildcard family (every ordered pair of '
        'wildcard constraint forms in the group/group, local/group, local/base positions, one instance per probe name '
        'of every namespace region incl. the absent namespace)')
TRUSTED = ['the simple types are a concrete Lean model for the 9 catalogue types (Model/AttrTypes.lean: int, decimal, '
           'string, boolean, token, int restricted by maxInclusive, anySimpleType, QName with namespace context, list of '
           'int) tied to the real type objects by `run_types` (validity, decoded value, the text_decode equality of the '
           'fixed-value test on generated lexical forms); the QName lexical space is modelled for ASCII names only',
           'the independent reading of the property (`spec_eval`) uses a hand-written table of lexical forms whose '
           'validity and values are checked against the real types on every run',
           'XSD parsing of attribute declarations / groups / wildcards is inside the loop: the introspected '
           'group is compared with the effective uses read off the AST (names, use, fixed, default, type, wildcard '
           'set, processContents) and with the group the Lean port of XsdAttributeGroup._parse computes from the parts',
           'the constraint of a wildcard of the AST is translated to the model notation by `wc_of` (checked against '
           'the built wildcard of every attribute-group definition)']
ASSUMPTIONS = ['the variant of the fixed-value test (before / after the repair of C03-F3: xs:QName compared as text / '
               'by value, injected QName literals validated / decoded in skip mode) is DETECTED on the tree under test '
               'by replaying the C03-F3 witness (detect_variant) and passed to the driver; both variants are proved',
               'value constraints of the schema are valid for their type (hypothesis WF of the theorems; a schema '
               'violating it is refused at build time)',
               'no attribute of the group is declared in the xsi namespace',
               'the name pool does not use ##defined in attribute wildcards (modelled, parameter of the theorems, '
               'not generated)',
               'the order of the entries a group takes from a referenced group or from the base type is not modelled '
               '(theorem valid_perm: validity does not depend on it; error and decoded lists are compared in order '
               'against the introspected built group)',
               'restrictions are generated so that the library accepts them (acceptance is property C14); a refused '
               'restriction is counted and skipped',
               'the instance namespace context is fixed for a run (prefixes t, tt, f, u, xsi, xml; no default '
               'namespace)',
               'xs:ID typed attributes at validation time (ID tables), xs:NOTATION, inheritable attributes are outside '
               'this check; the XSD 1.1 default attribute group and the XSD 1.0 one-ID rule are modelled, proved and compared '
               'with the library at schema-build level only (run_build_extras; no derived types there: the library refuses '
               'every derived type in a schema with defaultAttributes)']

T, F, U = 'urn:t', 'urn:f', 'urn:u'
XSI = 'http://www.w3.org/2001/XMLSchema-instance'
XML = 'http://www.w3.org/XML/1998/namespace'
XSD = 'http://www.w3.org/2001/XMLSchema'
PREFIX = {T: 't', F: 'f', U: 'u', XSI: 'xsi', XML: 'xml'}
NSMAP = {v: k for k, v in PREFIX.items()}
PCS = ['strict', 'lax', 'skip']

# ---------------------------------------------------------------- simple-type catalogue (independent of /repo)
class QV:
    """a QName value of the independent reading: equality = (namespace name, local part); `text` = what the
    library reports in decoded data; ns None = not a value (invalid literal: equals nothing)"""
    def __init__(self, ns: Optional[str], local: str, text: str):
        self.ns, self.local, self.text = ns, local, text

    def __eq__(self, other: Any) -> bool:
        return isinstance(other, QV) and self.ns is not None and (self.ns, self.local) == (other.ns, other.local)

    def __hash__(self) -> int:
        return hash((self.ns, self.local))

    def __repr__(self) -> str:
        return 'QV(%r,%r,%r)' % (self.ns, self.local, self.text)


# (xsd name, [(lexical, valid, python value)])
CATALOGUE: list[tuple[str, list[tuple[str, bool, Any]]]] = [
    ('xs:int', [('3', True, 3), ('03', True, 3), (' 3 ', True, 3), ('4', True, 4), ('x', False, None),
                ('', False, None), ('5', True, 5)]),
    ('xs:decimal', [('1.0', True, Decimal('1.0')), ('1.00', True, Decimal('1.00')), ('1', True, Decimal('1')),
                    ('1.5', True, Decimal('1.5')), ('abc', False, None), ('3', True, Decimal('3')),
                    ('5', True, Decimal('5')), ('x', False, None)]),
    ('xs:string', [('a', True, 'a'), ('a ', True, 'a '), ('', True, ''), ('3', True, '3'), ('x', True, 'x'),
                   ('5', True, '5')]),
    ('xs:boolean', [('true', True, True), ('1', True, True), ('false', True, False), ('0', True, False),
                    ('maybe', False, None), (' true ', True, True), ('3', False, None), ('5', False, None),
                    ('x', False, None)]),
    ('xs:token', [('a b', True, 'a b'), (' a  b ', True, 'a b'), ('c', True, 'c'), ('3', True, '3'),
                  ('5', True, '5'), ('x', True, 'x')]),
    ('t:small', [('3', True, 3), ('03', True, 3), ('5', True, 5), ('7', False, 7), ('x', False, None),
                 ('4', True, 4)]),                                   # xs:int, maxInclusive 5
    ('xs:anySimpleType', [('true', True, 'true'), ('false', True, 'false'), ('1', True, '1'), ('x', True, 'x'),
                          ('3', True, '3'), ('5', True, '5'), ('', True, '')]),
    # xs:QName: validity needs the namespace context of the instance (prefixes t, tt, f, u are bound, zz is not);
    # the value is (namespace name, local part): t:x and tt:x are the same value.  The library hands the
    # original text to the converter once the prefix is resolved, the collapsed text otherwise.
    ('xs:QName', [('t:x', True, QV(T, 'x', 't:x')), ('tt:x', True, QV(T, 'x', 'tt:x')), (' t:x ', True, QV(T, 'x', ' t:x ')),
                  ('f:x', True, QV(F, 'x', 'f:x')), ('t:y', True, QV(T, 'y', 't:y')), ('x', True, QV('', 'x', 'x')),
                  (' x', True, QV('', 'x', 'x')), ('zz:x', False, QV(None, 'x', 'zz:x')), ('1x', False, QV(None, '1x', '1x')),
                  ('3', False, QV(None, '3', '3')), ('5', False, QV(None, '5', '5')), ('t:', False, QV(None, '', 't:'))]),
    # t:ints = list of xs:int
    ('t:ints', [('1 2', True, [1, 2]), (' 01  2 ', True, [1, 2]), ('', True, []), ('3', True, [3]), ('5', True, [5]),
                ('1 x', False, [1, None]), ('x', False, [None]), ('2 1', True, [2, 1]), ('1\t2', True, [1, 2])]),
]
TY = {name: i for i, (name, _) in enumerate(CATALOGUE)}
TYPE_QNAME = {'{%s}int' % XSD: 0, '{%s}decimal' % XSD: 1, '{%s}string' % XSD: 2, '{%s}boolean' % XSD: 3,
              '{%s}token' % XSD: 4, '{%s}small' % T: 5, '{%s}anySimpleType' % XSD: 6, '{%s}QName' % XSD: 7,
              '{%s}ints' % T: 8}
TY_QNAME, TY_INTS = 7, 8
LEX = [{lex: (ok, val) for lex, ok, val in entries} for _, entries in CATALOGUE]


def valid(ty: int, lex: str) -> bool:
    return LEX[ty][lex][0]


def pyvalue(ty: int, lex: str) -> Any:
    """decoded value in lax mode: a facet-invalid lexical form still decodes; an undecodable one gives None"""
    v = LEX[ty][lex][1]
    return v.text if isinstance(v, QV) else v


def value_eq(ty: int, a: str, b: str) -> bool:
    """value-space equality of two lexical forms (decoded values; undecodable forms equal nothing)."""
    va, vb = LEX[ty][a][1], LEX[ty][b][1]
    if isinstance(va, list) and isinstance(vb, list):
        return None not in va and None not in vb and va == vb
    return va is not None and vb is not None and type(va) is type(vb) and va == vb


# ---------------------------------------------------------------- fixed parts of the schemas
FOREIGN_XSD = f'''<xs:schema xmlns:xs="{XSD}" targetNamespace="{F}" xmlns:f="{F}">
<xs:attribute name="g" type="xs:int"/>
<xs:attribute name="h" type="xs:int" fixed="5"/>
</xs:schema>'''
# globals the harness expects in the maps (name -> (type id, fixed, default)); `ga` is generated per set
FOREIGN_GLOBALS = {(F, 'g'): (0, None, None), (F, 'h'): (0, '5', None)}
XSI_GLOBALS = {(XSI, k): (6, None, None) for k in ('nil', 'type', 'schemaLocation', 'noNamespaceSchemaLocation')}
LOADED = {T, F, XSI, XML, XSD}

# constraint pool for attribute wildcards (C16 notation); evaluated by `den_q`
def wildcard_constraints(v11: bool) -> list[dict]:
    out: list[dict] = [{'ns': 'any'}, {'ns': 'other'}, {'ns': ['']}, {'ns': [T]}, {'ns': [F]}, {'ns': [U]},
                       {'ns': ['', T]}, {'ns': [F, U]}, {'ns': ['', F]}, {'ns': [T, F, U]}, {'ns': []},
                       {'ns': ['', T, F]}]
    if v11:
        out += [{'ns': [], 'notNs': [F]}, {'ns': [], 'notNs': ['', T]}, {'ns': [], 'notNs': [U, '']},
                {'ns': 'any', 'notQ': [[F, 'g']]}, {'ns': 'other', 'notQ': [[F, 'z'], [U, 'z']]},
                {'ns': 'any', 'notQ': [['', 'a'], [T, 'ga']]}]
    for c in out:
        c.setdefault('notNs', [])
        c.setdefault('notQ', [])
    return out


def den_q(c: dict, q: tuple[str, str]) -> bool:
    """Independent set reading of a wildcard constraint (the xsi namespace is handled by the caller)."""
    n = q[0]
    if [n, q[1]] in c['notQ']:
        return False
    if c['notNs']:
        return n not in c['notNs']
    if c['ns'] == 'any':
        return True
    if c['ns'] == 'other':
        return n != '' and n != T
    return n in c['ns']


def xsd_wild(c: dict, pc: str) -> str:
    tok = lambda n: {'': '##local', T: '##targetNamespace'}.get(n, n)   # noqa: E731
    parts = []
    if c['notNs']:
        parts.append('notNamespace="%s"' % ' '.join(tok(n) for n in c['notNs']))
    elif isinstance(c['ns'], str):
        parts.append('namespace="##%s"' % c['ns'])
    else:
        parts.append('namespace="%s"' % ' '.join(tok(n) for n in c['ns']))
    if c['notQ']:
        parts.append('notQName="%s"' % ' '.join((PREFIX[ns] + ':' + loc) if ns else loc for ns, loc in c['notQ']))
    return f'<xs:anyAttribute {" ".join(parts)} processContents="{pc}"/>'


# ---------------------------------------------------------------- generator of declaration sets
DECLARABLE = [('', 'a'), ('', 'b'), (T, 'q'), (T, 'ga'), (F, 'g')]
PLACES = ['own', 'AG1', 'AG2']


TYPE_BAG = [0, 1, 2, 3, 4, 5, 0, 1, 3, 4, 7, 8]


def gen_decl(rng, v11: bool, name: tuple, afd: str, ga_vc: Any, places: list) -> dict:
    use = rng.choice(['optional', 'optional', 'required', 'prohibited'])
    place = rng.choice(places)
    ref = name in ((T, 'ga'), (F, 'g'))
    ty = 0 if ref else rng.choice(TYPE_BAG)
    d: dict = {'name': list(name), 'use': use, 'place': place, 'ref': ref, 'ty': ty, 'fixed': None,
               'default': None}
    # value constraints are written in the schema document: no tab (the XML parser would normalise it)
    lexs = [lex for lex, ok, _ in CATALOGUE[ty][1] if ok and '\t' not in lex]
    inherited = ga_vc if name == (T, 'ga') else None
    r = rng.random()
    if inherited and inherited[0] == 'fixed':
        # a reference may repeat the fixed value of the global declaration (same lexical form only)
        d['fixed'] = inherited[1]
        d['fixed_explicit'] = r < 0.3 and not (use == 'prohibited' and v11)
    elif r < 0.35 and not (use == 'prohibited' and v11):
        d['fixed'] = rng.choice(lexs)
        d['fixed_explicit'] = True
    elif r < 0.6 and use == 'optional':
        d['default'] = rng.choice(lexs)
        d['default_explicit'] = True
    elif inherited and inherited[0] == 'default' and use == 'optional':
        d['default'] = inherited[1]
        d['default_explicit'] = False
    # an inherited default on a non-optional reference: the library keeps it (not an error for a ref
    # without its own default attribute); record what the reference inherits
    if inherited and inherited[0] == 'default' and d['default'] is None and d['fixed'] is None:
        d['default'] = inherited[1]
        d['default_explicit'] = False
    # form: how the (un)qualified name is obtained
    if not ref:
        want_q = name[0] == T
        if want_q != (afd == 'qualified'):
            d['form'] = 'qualified' if want_q else 'unqualified'
        else:
            d['form'] = rng.choice([None, 'qualified' if want_q else 'unqualified'])
    return d


PC_RANK = {'skip': 0, 'lax': 1, 'strict': 2}
ANY_C = {'ns': 'any', 'notNs': [], 'notQ': []}


def gen_base(rng, v11: bool, s: dict) -> Optional[dict]:
    """a base complex type for the declaration set `s` (which becomes the content of an <extension> or a
    <restriction>).  extension: the base declares other names; restriction: the base declares every name the
    derived type declares, with a use / fixed value the derived declaration restricts, and a wildcard that the
    derived complete wildcard restricts."""
    r = rng.random()
    if r < 0.45:
        return None
    deriv = 'extension' if r < 0.75 else 'restriction'
    mine = {tuple(d['name']): d for d in s['decls'] if d['place'] == 'own' or
            (d['place'] in s['refs'] and d['use'] != 'prohibited')}
    mentioned = {tuple(d['name']) for d in s['decls']}
    decls = []
    for name in DECLARABLE:
        if deriv == 'extension':
            if name in mentioned or rng.random() < 0.5:
                continue
            d = gen_decl(rng, v11, name, s['afd'], s['ga'], ['base'])
        elif name in mine:
            dd = mine[name]
            d = json.loads(json.dumps(dd))
            d['place'] = 'base'
            d['use'] = {'optional': 'optional', 'required': rng.choice(['optional', 'required']),
                        'prohibited': rng.choice(['optional', 'prohibited'])}[dd['use']]
            if d['fixed'] is not None and d.get('fixed_explicit') and rng.random() < 0.5:
                d['fixed'] = None                      # the restriction adds the fixed value
                d['fixed_explicit'] = False
                if name == (T, 'ga') and s['ga'] and s['ga'][0] == 'fixed':
                    d['fixed'] = s['ga'][1]
                elif name == (T, 'ga') and s['ga'] and s['ga'][0] == 'default':
                    d['default'] = s['ga'][1]          # the reference inherits the default of the global
                    d['default_explicit'] = False
            if d['use'] != 'optional' and d.get('default_explicit'):
                d['default'] = None
                d['default_explicit'] = False
            if v11 and d['use'] == 'prohibited' and d.get('fixed_explicit'):
                d['use'] = 'optional'
        else:
            if name in mentioned or rng.random() < 0.5:
                continue
            d = gen_decl(rng, v11, name, s['afd'], s['ga'], ['base'])
        decls.append(d)
    cs = wildcard_constraints(v11)
    wild = None
    own_pcs = [s['wilds'][g]['pc'] for g in (['own'] if 'own' in s['wilds'] else []) +
               [g for g in s['refs'] if g in s['wilds']]]
    if deriv == 'extension':
        if rng.random() < 0.55:
            wild = {'c': rng.choice(cs), 'pc': rng.choice(PCS)}
    elif own_pcs:
        wild = {'c': dict(ANY_C), 'pc': rng.choice([p for p in PCS if PC_RANK[p] <= PC_RANK[own_pcs[0]]])}
    elif rng.random() < 0.6:
        wild = {'c': rng.choice(cs), 'pc': rng.choice(PCS)}
    return {'deriv': deriv, 'decls': decls, 'wild': wild}


def gen_set(rng, v11: bool, derived: bool = True) -> dict:
    """Intended AST of one declaration set."""
    afd = rng.choice(['unqualified', 'unqualified', 'qualified'])
    ga_vc = rng.choice([None, None, ('fixed', '3'), ('default', '4')])
    decls = []
    for name in DECLARABLE:
        if rng.random() < 0.3:
            continue
        decls.append(gen_decl(rng, v11, name, afd, ga_vc, ['own', 'own', 'AG1', 'AG2']))
    wilds = {}
    cs = wildcard_constraints(v11)
    for place, p in (('own', 0.6), ('AG1', 0.35), ('AG2', 0.3)):
        if rng.random() < p:
            wilds[place] = {'c': rng.choice(cs), 'pc': rng.choice(PCS)}
    refs = [g for g in ('AG1', 'AG2') if any(d['place'] == g for d in decls) or g in wilds or rng.random() < 0.2]
    rng.shuffle(refs)
    s = {'afd': afd, 'ga': ga_vc, 'decls': decls, 'wilds': wilds, 'refs': refs,
         'pool5': rng.choice(['z', 'h']), 'pool7': rng.choice(['nil', 'nil', 'foo']), 'base': None}
    if derived:
        s['base'] = gen_base(rng, v11, s)
    return s


def xsd_decl(d: dict) -> str:
    a = []
    ns, loc = d['name']
    if d['ref']:
        a.append(f'ref="{PREFIX[ns]}:{loc}"')
    else:
        a.append(f'name="{loc}" type="{CATALOGUE[d["ty"]][0]}"')
        if d.get('form'):
            a.append(f'form="{d["form"]}"')
    if d['use'] != 'optional':
        a.append(f'use="{d["use"]}"')
    if d['fixed'] is not None and d.get('fixed_explicit'):
        a.append(f'fixed="{d["fixed"]}"')
    if d['default'] is not None and d.get('default_explicit'):
        a.append(f'default="{d["default"]}"')
    return f'<xs:attribute {" ".join(a)}/>'


def xsd_text(s: dict) -> str:
    ga = ''
    if s['ga']:
        ga = f' {s["ga"][0]}="{s["ga"][1]}"'
    out = [f'<xs:schema xmlns:xs="{XSD}" targetNamespace="{T}" xmlns:t="{T}" xmlns:tt="{T}" xmlns:f="{F}" xmlns:u="{U}" '
           f'attributeFormDefault="{s["afd"]}">',
           f'<xs:import namespace="{F}" schemaLocation="f.xsd"/>',
           '<xs:simpleType name="small"><xs:restriction base="xs:int"><xs:maxInclusive value="5"/>'
           '</xs:restriction></xs:simpleType>',
           '<xs:simpleType name="ints"><xs:list itemType="xs:int"/></xs:simpleType>',
           f'<xs:attribute name="ga" type="xs:int"{ga}/>']
    for g in ('AG1', 'AG2'):
        out.append(f'<xs:attributeGroup name="{g}">')
        out += [xsd_decl(d) for d in s['decls'] if d['place'] == g]
        if g in s['wilds']:
            out.append(xsd_wild(s['wilds'][g]['c'], s['wilds'][g]['pc']))
        out.append('</xs:attributeGroup>')
    base = s.get('base')
    if base:
        out.append('<xs:complexType name="B">')
        out += [xsd_decl(d) for d in base['decls']]
        if base['wild']:
            out.append(xsd_wild(base['wild']['c'], base['wild']['pc']))
        out.append('</xs:complexType>')
        out.append('<xs:element name="eb" type="t:B"/>')
        out.append(f'<xs:element name="e" nillable="true"><xs:complexType><xs:complexContent>'
                   f'<xs:{base["deriv"]} base="t:B">')
    else:
        out.append('<xs:element name="e" nillable="true"><xs:complexType>')
    own = [xsd_decl(d) for d in s['decls'] if d['place'] == 'own']
    grefs = [f'<xs:attributeGroup ref="t:{g}"/>' for g in s['refs']]
    # interleave own declarations and group references deterministically
    k = len(own) // 2
    out += own[:k] + grefs + own[k:]
    if 'own' in s['wilds']:
        out.append(xsd_wild(s['wilds']['own']['c'], s['wilds']['own']['pc']))
    if base:
        out.append(f'</xs:{base["deriv"]}></xs:complexContent></xs:complexType></xs:element>')
    else:
        out.append('</xs:complexType></xs:element>')
    # each attribute group also used alone by another element: combining it with other wildcards in `e` must not
    # change what those elements admit (the groups are shared components)
    for g in ('AG1', 'AG2'):
        out.append(f'<xs:element name="alone{g}"><xs:complexType><xs:attributeGroup ref="t:{g}"/></xs:complexType></xs:element>')
    out.append('</xs:schema>')
    return '\n'.join(out)


EMPTY_C = {'ns': [], 'notNs': [], 'notQ': []}


def intended(s: dict) -> dict:
    """The attribute uses and the complete wildcard the XSD text of `s` denotes (XSD structures 3.4.2,
    3.6.2): prohibited uses denote nothing (they are kept separately only to know which names were
    mentioned); the complete wildcard of the declarations has the intersection of all namespace constraints
    and the processContents of the local wildcard, else of the first referenced group that has one.
    Derived types: the effective uses are those of the base type overridden by the declared ones (a declared
    prohibited use removes the base use); an extension admits what its complete wildcard OR the base wildcard
    admits (processContents of its own wildcard when it has one, else of the base); a restriction has the
    declared wildcard only (when it declares none and the base has one, the library keeps a wildcard that
    admits no namespace, with the base processContents).
    wild = {'alts': [[c, ...], ...], 'pc': ...}: a name is admitted iff for SOME alternative ALL its constraints
    admit it."""
    uses, prohibited = {}, []
    for d in s['decls']:
        if d['place'] != 'own' and d['place'] not in s['refs']:
            continue
        key = tuple(d['name'])
        if d['use'] == 'prohibited':
            if d['place'] == 'own':
                prohibited.append(key)
            continue
        uses[key] = {'use': d['use'], 'fixed': d['fixed'], 'default': d['default'], 'ty': d['ty']}
    cs, pc, pc_first_group = [], None, None
    for g in s['refs']:
        if g in s['wilds']:
            cs.append(s['wilds'][g]['c'])
            if pc_first_group is None:
                pc_first_group = s['wilds'][g]['pc']
    if 'own' in s['wilds']:
        cs.append(s['wilds']['own']['c'])
        pc = s['wilds']['own']['pc']
    else:
        pc = pc_first_group
    wild = {'alts': [cs], 'pc': pc} if cs else None
    base = s.get('base')
    if base:
        buses, bproh = {}, []
        for d in base['decls']:
            key = tuple(d['name'])
            if d['use'] == 'prohibited':
                bproh.append(key)
            else:
                buses[key] = {'use': d['use'], 'fixed': d['fixed'], 'default': d['default'], 'ty': d['ty']}
        for key, u in buses.items():
            if key not in uses and key not in prohibited:
                uses[key] = u
        prohibited = prohibited + [k for k in bproh if k not in uses and k not in prohibited]
        bw = base['wild']
        if base['deriv'] == 'extension':
            if wild and bw:
                wild = {'alts': wild['alts'] + [[bw['c']]], 'pc': wild['pc']}
            elif bw:
                wild = {'alts': [[bw['c']]], 'pc': bw['pc']}
        elif wild is None and bw:
            wild = {'alts': [[dict(EMPTY_C)]], 'pc': bw['pc']}
    globs = dict(FOREIGN_GLOBALS)
    globs.update(XSI_GLOBALS)
    globs[(T, 'ga')] = (0, s['ga'][1] if s['ga'] and s['ga'][0] == 'fixed' else None,
                        s['ga'][1] if s['ga'] and s['ga'][0] == 'default' else None)
    return {'uses': uses, 'prohibited': prohibited, 'wild': wild, 'globals': globs}


def wild_admits(wild: dict, n: tuple, f: Any = None) -> bool:
    f = f or admits
    return any(all(f(c, n) for c in cs) for cs in wild['alts'])


def pool(s: dict) -> list[tuple[str, str]]:
    return [('', 'a'), ('', 'b'), (T, 'q'), (T, 'ga'), (F, 'g'), (F, s['pool5']), (U, 'z'), (XSI, s['pool7'])]


# ---------------------------------------------------------------- independent reading of the property
def admits(c: dict, q: tuple) -> bool:
    """set reading of one wildcard constraint for attributes: the xsi namespace is admitted by every positive
    constraint (the library does so on purpose, see C16)"""
    if [q[0], q[1]] in c['notQ']:
        return False
    if c['notNs']:
        return q[0] not in c['notNs']
    return q[0] == XSI or den_q(c, q)


def coll(text: str) -> str:
    return ' '.join(x for x in re.split('[ \\t\\n\\r]+', text) if x)


def spec_eval(it: dict, attrs: list, ud: bool, fm: bool, qname_lexical: bool = False) -> dict:
    """Verdict and decoded data the property demands, from the intended declarations.
    `qname_lexical` is used ONLY to characterise the known finding C03-F3 (the fixed value of an xs:QName
    attribute compared as collapsed text instead of as (namespace name, local part))."""
    uses = dict(it['uses'])
    wild, globs = it['wild'], it['globals']
    present = {tuple(n) for n, _ in attrs}
    ok = all(n in present for n, u in uses.items() if u['use'] == 'required')
    out: dict = {}          # present attributes that are processed: name -> python value
    skipped = set()         # present attributes admitted by a skip wildcard: not reported

    def fixed_ok(ty: int, v: str, fx: Optional[str]) -> bool:
        if fx is None:
            return True
        if qname_lexical and ty == TY_QNAME:
            return coll(v) == coll(fx)
        return value_eq(ty, v, fx)

    for n, v in attrs:
        n = tuple(n)
        if n in uses:
            u = uses[n]
            ok = ok and valid(u['ty'], v) and fixed_ok(u['ty'], v, u['fixed'])
            out[n] = pyvalue(u['ty'], v)
        elif n[0] == XSI and n in globs:
            ty, fx, _ = globs[n]
            ok = ok and valid(ty, v) and fixed_ok(ty, v, fx)
            out[n] = pyvalue(ty, v)
        elif wild is not None and wild_admits(wild, n):
            pc = wild['pc']
            if pc == 'skip':
                skipped.add(n)
            elif n in globs and n[0] in LOADED:
                ty, fx, _ = globs[n]
                ok = ok and valid(ty, v) and fixed_ok(ty, v, fx)
                out[n] = pyvalue(ty, v)
            else:
                if pc == 'strict':
                    ok = False
                out[n] = v
        else:
            ok = False
    absent: dict = {}
    absent_none = set()
    for n, u in uses.items():
        if n in present:
            continue
        if u['fixed'] is not None:
            absent[n] = pyvalue(u['ty'], u['fixed'])
        elif u['default'] is not None and ud:
            absent[n] = pyvalue(u['ty'], u['default'])
        elif fm:
            absent_none.add(n)
    may_none = (set(it['prohibited']) - present - set(uses)) if fm else set()
    return {'ok': ok, 'out': out, 'skipped': skipped, 'absent': absent, 'none': absent_none,
            'may_none': may_none, 'present': present,
            'qnames': {n for n, u in uses.items() if u['ty'] == TY_QNAME}}


# ---------------------------------------------------------------- real code: build, introspect, run
class Built:
    def __init__(self, s: dict, v11: bool, tmp: Path):
        import xmlschema
        self.s = s
        self.v11 = v11
        self.xsd = xsd_text(s)
        cls = xmlschema.XMLSchema11 if v11 else xmlschema.XMLSchema10
        self.schema = cls(self.xsd, base_url=str(tmp) + '/')
        self.elem = self.schema.elements['e']
        self.group = self.elem.type.attributes


def qn_of(name: str) -> list[str]:
    if name[:1] == '{':
        ns, loc = name[1:].split('}')
        return [ns, loc]
    return ['', name]


def intro_decl(a: Any, schema: Any = None) -> Optional[dict]:
    ty = TYPE_QNAME.get(a.type.name)
    if ty is None:
        return None
    return {'n': qn_of(a.name), 'use': a.use or 'optional', 'fixed': a.fixed, 'default': a.default, 'ty': ty,
            'same': bool(schema is not None and a.schema is schema)}


def intro_wild(w: Any) -> Optional[dict]:
    from harness.props.c16 import introspect
    d = introspect(w)
    if d is None:
        return None
    return {'wc': d, 'pc': w.process_contents}


def introspect_group(b: Built) -> Optional[dict]:
    decls, anyw = [], None
    for k, a in b.group._attribute_group.items():
        if k is None:
            anyw = intro_wild(a)
            if anyw is None:
                return None
        else:
            d = intro_decl(a)
            if d is None or d['n'] != qn_of(k):
                return None
            decls.append(d)
    globs = []
    for k, a in b.schema.maps.attributes.items():
        d = intro_decl(a, b.schema)
        if d is None:
            if a.type.name and a.type.name.startswith('{%s}' % XSD) or get_ns(k) == XML:
                # xml:lang etc.: typed outside the catalogue; never used by the pool
                continue
            return None
        globs.append(d)
    return {'decls': decls, 'any': anyw, 'globals': globs, 'loaded': sorted(b.schema.maps.namespaces)}


def get_ns(name: str) -> str:
    return name[1:].split('}')[0] if name[:1] == '{' else ''


def eff(x: dict) -> tuple:
    """the effective value constraint of an attribute use: a fixed value overrides an inherited default"""
    return (x['use'], x['fixed'], None if x['fixed'] is not None else x['default'], x['ty'])


def check_glue(ctx: Ctx, b: Built, it: dict, g: dict, case0: dict) -> None:
    """intended (effective uses and wildcard read off the AST) vs built group."""
    built_uses = {tuple(d['n']): d for d in g['decls'] if d['use'] != 'prohibited'}
    built_proh = {tuple(d['n']) for d in g['decls'] if d['use'] == 'prohibited'}
    want = it['uses']
    if set(built_uses) != set(want) or built_proh != set(it['prohibited']):
        ctx.failure('built attribute uses differ from the effective declared ones', case0,
                    {'built': sorted(built_uses), 'declared': sorted(want), 'built_prohibited': sorted(built_proh),
                     'declared_prohibited': sorted(it['prohibited'])})
        return
    for n, u in want.items():
        d = built_uses[n]
        if eff(d) != eff(u):
            ctx.failure('built attribute use differs from its declaration', case0, {'built': d, 'declared': u})
    w = b.group._attribute_group.get(None)
    if (w is None) != (it['wild'] is None):
        ctx.failure('attribute wildcard lost or invented by schema construction', case0)
        return
    if w is not None:
        for q in pool(b.s) + [(U, 'y'), (T, 'zz'), ('', 'zz')]:
            if q[0] == XSI:
                continue
            name = '{%s}%s' % q if q[0] else q[1]
            wantm = wild_admits(it['wild'], q, den_q)
            if bool(w.is_matching(name)) != wantm:
                ctx.failure('the attribute wildcard of the type does not admit exactly the names its declared '
                            'wildcards (intersection; union with the base for an extension) admit',
                            case0, {'name': q, 'is_matching': bool(w.is_matching(name)), 'expected': wantm})
                break
        if w.process_contents != it['wild']['pc']:
            ctx.failure('the attribute wildcard of the type does not take the processContents of the local '
                        'wildcard (else of the first referenced group / of the base type)', case0,
                        {'built_processContents': w.process_contents, 'declared': it['wild']['pc']})


# ---- model (Model/AttrDeriv.lean) vs built group
def wc_of(c: dict) -> dict:
    """the wildcard a constraint of the AST parses to (driver notation); checked against the built wildcard of
    every attribute group used alone"""
    return {'ns': c['ns'] if isinstance(c['ns'], str) else sorted(c['ns']), 'notNs': sorted(c['notNs']),
            'notQ': sorted([list(q) for q in c['notQ']]), 'nd': False, 'nsib': False, 'tns': T}


def ast_decl(d: dict) -> dict:
    return {'n': list(d['name']), 'use': d['use'], 'fixed': d['fixed'],
            'default': None if d['fixed'] is not None else d['default'], 'ty': d['ty'], 'same': False}


def any_of(w: Optional[dict]) -> Optional[dict]:
    return None if w is None else {'wc': wc_of(w['c']), 'pc': w['pc']}


def group_canon(decls: list, anyw: Optional[dict]) -> dict:
    from harness.props.c16 import canon
    return {'decls': {'{%s}%s' % tuple(d['n']): list(eff({'use': d['use'], 'fixed': d['fixed'],
                                                          'default': d['default'], 'ty': d['ty']}))
                      for d in decls},
            'any': None if anyw is None else {'wc': canon(anyw['wc']), 'pc': anyw['pc']}}


def built_group_json(group: Any) -> Optional[dict]:
    decls, anyw = [], None
    for k, a in group._attribute_group.items():
        if k is None:
            anyw = intro_wild(a)
            if anyw is None:
                return None
        else:
            d = intro_decl(a)
            if d is None:
                return None
            decls.append(d)
    return {'decls': decls, 'any': anyw}


def check_build(ctx: Ctx, drv: Driver, b: Built, case0: dict, f4: Optional[str]) -> None:
    """The attribute groups computed by the Lean port of XsdAttributeGroup._parse from the parts
    (declarations of the AST in document order, built referenced groups, built base group) against the groups
    the library built: the two named attribute groups and the (derived) type of `e`."""
    s, v11 = b.s, b.v11
    reqs, built, labels = [], [], []
    groups = {}
    for gname in ('AG1', 'AG2'):
        grp = b.schema.maps.attribute_groups['{%s}%s' % (T, gname)]
        groups[gname] = built_group_json(grp)
        content = {'children': [{'attr': ast_decl(d)} for d in s['decls'] if d['place'] == gname],
                   'any': any_of(s['wilds'].get(gname)), 'inGroupDef': True}
        reqs.append({'op': 'build', 'v11': v11, 'oldPc': False, 'content': content, 'deriv': 'none', 'base': None,
                     'defaults': None, 'ids': []})
        built.append(groups[gname])
        labels.append(gname)
    if any(v is None for v in groups.values()):
        ctx.failure('a built attribute group cannot be expressed in the model', case0)
        return
    own = [{'attr': ast_decl(d)} for d in s['decls'] if d['place'] == 'own']
    k = len(own) // 2
    children = own[:k] + [{'group': groups[g]} for g in s['refs']] + own[k:]
    base = s.get('base')
    bg = None
    if base:
        bg = built_group_json(b.schema.maps.types['{%s}B' % T].attributes)
        content_b = {'children': [{'attr': ast_decl(d)} for d in base['decls']], 'any': any_of(base['wild']),
                     'inGroupDef': False}
        reqs.append({'op': 'build', 'v11': v11, 'oldPc': False, 'content': content_b, 'deriv': 'none',
                     'base': None, 'defaults': None, 'ids': []})
        built.append(bg)
        labels.append('base type')
    reqs.append({'op': 'build', 'v11': v11, 'oldPc': False,
                 'content': {'children': children, 'any': any_of(s['wilds'].get('own')), 'inGroupDef': False},
                 'deriv': base['deriv'] if base else 'none', 'base': bg, 'defaults': None, 'ids': []})
    built.append(built_group_json(b.group))
    labels.append('type of e' + (' (%s)' % base['deriv'] if base else ''))
    for label, bt, ans in zip(labels, built, drv.query(reqs)):
        ctx.traces += 1
        ctx.count('build:' + label.split(' (')[0])
        if 'err' in ans or bt is None or ans['group'] is None or ans['errs']:
            ctx.mismatch('attribute group construction (driver refused)', dict(case0, group=label), bt, ans)
            continue
        m = group_canon(ans['group']['decls'], ans['group']['any'])
        r = group_canon(bt['decls'], bt['any'])
        if m != r:
            if f4 is not None and label == f4 and m['decls'] == r['decls']:
                ctx.known_hit('C03-F4')         # the shared wildcard of this group was widened in place
                continue
            ctx.mismatch('attribute group construction', dict(case0, group=label), r, m)


ERR_PATTERNS = [
    (re.compile(r"^missing required attribute '(.*)'$"), 'missing'),
    (re.compile(r"^'(.*)' attribute not allowed for element$"), 'notAllowed'),
    (re.compile(r"^'(.*)' is not an attribute of the XSI namespace$"), 'notXsi'),
    (re.compile(r"^use of attribute '(.*)' is prohibited$"), 'prohibited'),
    (re.compile(r"^attribute '(.*)' has a fixed value '.*'$"), 'fixed'),
    (re.compile(r"^attribute '(.*)' not allowed$"), 'denied'),
    (re.compile(r"^attribute '(.*)' not found$"), 'notFound'),
]
PREFIXED = re.compile(r"^attribute ([^=\s]+)=")


def unprefix(name: str) -> list[str]:
    if ':' in name:
        p, loc = name.split(':', 1)
        return [NSMAP.get(p, '?' + p), loc]
    return ['', name]


def classify(err: Any) -> list:
    """map a real validation error to the enum used by the model (message text never leaves this function)"""
    from xmlschema.validators import XsdAttributeGroup, XsdAnyAttribute, XsdAttribute
    reason = err.reason or ''
    for rx, kind in ERR_PATTERNS:
        m = rx.match(reason)
        if m:
            return [kind] + qn_of(m.group(1))
    m = PREFIXED.match(reason)
    if m:
        name = unprefix(m.group(1))
        if 'unavailable namespace' in reason and isinstance(err.validator, XsdAnyAttribute):
            return ['unavailable'] + name
        if not isinstance(err.validator, (XsdAttributeGroup, XsdAnyAttribute, XsdAttribute)):
            return ['invalid'] + name
    return ['other:' + type(err.validator).__name__, '', '']


def canon_errors(errs: list) -> list:
    out: list = []
    for e in errs:
        c = classify(e)
        if c[0] == 'invalid' and out and out[-1] == c:
            continue        # several facets of one type rejecting the same value
        out.append(c)
    return out


def real_run(b: Built, attrs: list, ud: bool, fm: bool) -> dict:
    attrib = {('{%s}%s' % (n[0], n[1]) if n[0] else n[1]): v for n, v in attrs}
    el = ET.Element('{%s}e' % T, attrib)
    data, errs = b.schema.decode(el, validation='lax', namespaces=NSMAP_DECODE, use_defaults=ud, fill_missing=fm)
    dec = []
    for k, v in (data or {}).items():
        if k.startswith('@xmlns'):
            continue
        if not k.startswith('@'):
            return {'errors': [['other:content', '', '']], 'decoded': [], 'valid': False}
        dec.append([unprefix(k[1:]), v])
    return {'errors': canon_errors(errs), 'decoded': dec, 'valid': not errs}


NSMAP_DECODE = {p: ns for ns, p in PREFIX.items()}
NSMAP_DECODE['tt'] = T            # a second prefix of the target namespace (xs:QName values)
NSMAP['tt'] = T
CTX = sorted([p, ns] for p, ns in NSMAP_DECODE.items())


VARIANT: dict = {}


def detect_variant() -> bool:
    """Which variant of the fixed-value test has the tree under test?  The C03-F3 witness is replayed: with
    the repair (notes/fixes/C03-qname-fixed-value-space.patch) the same QName written with another prefix is
    accepted and the same text with the prefix bound elsewhere is rejected -> byValue.  Passed to the driver
    (`semCatV byValue`, `errorsX (qStrict byValue)`); anything else is the variant before the repair."""
    if 'byValue' not in VARIANT:
        import xmlschema
        sc = xmlschema.XMLSchema10(
            f'<xs:schema xmlns:xs="{XSD}" targetNamespace="{T}" xmlns:t="{T}"><xs:element name="e"><xs:complexType>'
            '<xs:attribute name="q" type="xs:QName" fixed="t:x"/></xs:complexType></xs:element></xs:schema>')
        VARIANT['byValue'] = bool(sc.is_valid(f'<p:e xmlns:p="{T}" q="p:x"/>') and
                                  not sc.is_valid(f'<p:e xmlns:p="{T}" xmlns:t="urn:other" q="t:x"/>'))
    return VARIANT['byValue']


def schema_ctx(schema: Any) -> list:
    return sorted([p, ns] for p, ns in schema.namespaces.items())


def canon_value(v: Any) -> list:
    """python value handed to the converter -> the canonical form of the driver (`dvJson`)"""
    if v is None:
        return ['n']
    if isinstance(v, bool):
        return ['b', v]
    if isinstance(v, int):
        return ['i', str(v)]
    if isinstance(v, Decimal):
        sign, digits, exp = v.as_tuple()
        if not isinstance(exp, int) or exp > 0:
            return ['?', repr(v)]
        return ['d', bool(sign), str(int(''.join(map(str, digits)) or '0')), -exp]
    if isinstance(v, str):
        return ['s', v]
    if isinstance(v, list):
        return ['l', [None if x is None else str(x) if isinstance(x, int) and not isinstance(x, bool) else repr(x)
                      for x in v]]
    return ['?', repr(v)]


def model_value(item: list) -> list:
    """canonical decoded value of a model item"""
    if item[2] == 't':
        return item[5]
    if item[2] == 'r':
        return ['s', item[3]]
    return ['n']


def same_value(a: Any, b: Any) -> bool:
    return type(a) is type(b) and a == b and str(a) == str(b)


# ---------------------------------------------------------------- known findings
FINDINGS_FILE = VERIF / 'notes' / 'findings' / 'C03.json'


def load_findings() -> list[dict]:
    try:
        return [e for e in json.loads(FINDINGS_FILE.read_text())['findings']]
    except (OSError, ValueError, KeyError):
        return []


def finding_status() -> dict:
    return {e['id']: e.get('status') for e in load_findings()}


def f4_group(s: dict) -> Optional[str]:
    """C03-F4 applies to: an <extension> of a base type with a wildcard whose own content takes its wildcard
    from exactly one referenced attribute group and has no local anyAttribute - the group's wildcard object is
    then the one `union` updates in place.  Returns the name of that group."""
    base = s.get('base')
    if not base or base['deriv'] != 'extension' or not base['wild'] or 'own' in s['wilds']:
        return None
    with_w = [g for g in s['refs'] if g in s['wilds']]
    return with_w[0] if len(with_w) == 1 else None


def known_match(case: dict, detail: dict) -> Optional[str]:
    """Exact rules of the recorded findings that are still open (C03-F1 and C03-F2 are fixed: no rule).
    C03-F3: an attribute of type xs:QName with a fixed value is present, and the library's verdict and data are
            exactly those of the reading in which the fixed value of a QName is compared as collapsed text
            (`spec_eval(qname_lexical=True)`), while the value-space reading disagrees.
    C03-F4: `f4_group(set)` names the attribute group, and the names the group admits when used alone are
            exactly those its declared constraint OR the base type's wildcard admits."""
    status = finding_status()
    if detail.get('explained_by') == 'qname-lexical' and status.get('C03-F3') == 'known' and case.get('qname_fixed'):
        return 'C03-F3'
    if detail.get('explained_by') == 'shared-wildcard-union' and status.get('C03-F4') == 'known' \
            and case.get('group') is not None and f4_group(case['set']) == case['group']:
        return 'C03-F4'
    return None


# ---------------------------------------------------------------- one declaration set
OPTS = [(True, False), (False, False), (True, True), (False, True)]


def choose_value(rng, it: dict, n: tuple) -> str:
    if n in it['uses']:
        u = it['uses'][n]
        ty = u['ty']
        if u['fixed'] is not None and rng.random() < 0.7:
            same = [lex for lex, ok, val in CATALOGUE[ty][1] if value_eq(ty, lex, u['fixed'])]
            return rng.choice(same + [u['fixed']])
    elif n in it['globals']:
        ty = it['globals'][n][0]
        if n == (XSI, 'nil'):
            return rng.choice(['true', 'false', '1'])
    else:
        # prohibited declarations keep their type in the pinned code: draw from a mixed bag
        return rng.choice(['3', '3', '5', 'x'])
    entries = CATALOGUE[ty][1]
    good = [lex for lex, ok, _ in entries if ok]
    return rng.choice(good) if rng.random() < 0.8 else rng.choice([lex for lex, _, _ in entries])


def run_set(ctx: Ctx, drv: Optional[Driver], s: dict, v11: bool, tmp: Path, subsets: Optional[list] = None,
            values: Optional[dict] = None) -> None:
    from xmlschema import XMLSchemaException
    ver = '1.1' if v11 else '1.0'
    s.setdefault('base', None)
    case0 = {'v': ver, 'set': s}
    base = s['base']
    try:
        b = Built(s, v11, tmp)
    except XMLSchemaException as e:
        msg = str(e)
        if base and base['deriv'] == 'extension' and not v11 and 'not expressible' in msg:
            # XSD 1.0: the union of the two wildcards is not expressible; the model must refuse it too
            ctx.count('1.0/extension-union-not-expressible')
            if drv is not None and base['wild'] and 'own' in s['wilds'] and not [g for g in s['refs'] if g in s['wilds']]:
                ans = drv.query([{'op': 'build', 'v11': False, 'oldPc': False, 'deriv': 'extension',
                                  'content': {'children': [], 'any': any_of(s['wilds']['own']), 'inGroupDef': False},
                                  'base': {'decls': [], 'any': any_of(base['wild'])}, 'defaults': None, 'ids': []}])[0]
                ctx.traces += 1
                if ans.get('errs') != ['union']:
                    ctx.mismatch('extension refused by the library (wildcard union not expressible) but computed '
                                 'by the model', case0, 'refused', ans)
            return
        if base and base['deriv'] == 'restriction':
            ctx.count(f'{ver}/restriction-refused')       # acceptance of restrictions is property C14
            return
        ctx.count('schema-refused')
        ctx.failure('generated schema refused by the library', case0, {'error': type(e).__name__,
                                                                      'message': msg[:300]})
        return
    it = intended(s)
    f4 = f4_group(s)
    f4_hit = None
    # shared attribute groups keep their own wildcard whatever other types combine them with
    for gname in ('AG1', 'AG2'):
        if gname in s['wilds']:
            grp = b.schema.elements['alone' + gname].type.attributes
            alone = grp.get(None)
            c = s['wilds'][gname]['c']
            names_u = [('', 'zz'), (T, 'zz'), (F, 'zz'), (U, 'zz'), ('urn:fresh', 'zz')]
            # ... and the names the notQName lists mention (a union can re-admit them)
            names_u += [tuple(q) for q in c['notQ']] + ([tuple(q) for q in base['wild']['c']['notQ']]
                                                       if base and base['wild'] else [])
            got = None if alone is None else [bool(alone.is_matching('{%s}%s' % n if n[0] else n[1])) for n in names_u]
            want = [den_q(c, n) for n in names_u]
            if got != want:
                case_g = dict(case0, group=gname)
                widened = [den_q(c, n) or den_q(base['wild']['c'], n) for n in names_u] if f4 == gname else None
                if got == widened and known_match(case_g, {'explained_by': 'shared-wildcard-union'}):
                    ctx.known_hit('C03-F4')
                    f4_hit = gname
                    continue
                ctx.failure('the wildcard of an attribute group used alone differs from its declared constraint '
                            '(changed by being combined in another type?)', case_g,
                            {'declared': c, 'admits': dict(zip(map(str, names_u), got or []))})
    g = introspect_group(b)
    if g is None:
        ctx.failure('built group cannot be expressed in the model (type outside the catalogue / malformed '
                    'wildcard)', case0)
        return
    check_glue(ctx, b, it, g, case0)
    if drv is not None:
        check_build(ctx, drv, b, case0, f4_hit)
    ctx.count(f'{ver}/sets')
    ctx.count(f'{ver}/sets:' + (base['deriv'] if base else 'plain'))
    ctx.count('decls:%d' % len(g['decls']))
    ctx.count('wildcard:' + (g['any']['pc'] if g['any'] else 'none'))
    names = pool(s)
    masks = subsets if subsets is not None else range(1 << len(names))
    cases = []
    for mask in masks:
        if isinstance(mask, int):
            present = [n for i, n in enumerate(names) if mask >> i & 1]
            ctx.rng.shuffle(present)
            attrs = [[list(n), choose_value(ctx.rng, it, n)] for n in present]
        else:
            attrs = mask            # replay: explicit attribute list
        cases.append(attrs)
    if subsets is None:
        # second family: mostly-valid sets (every required attribute present, only admitted names, values that
        # keep the set valid), grown greedily with the independent reading as the guide
        for _ in range(ctx.pick(48, 96)):
            attrs = []
            order = [n for n in names]
            ctx.rng.shuffle(order)
            order.sort(key=lambda n: not (n in it['uses'] and it['uses'][n]['use'] == 'required'))
            for n in order:
                req = n in it['uses'] and it['uses'][n]['use'] == 'required'
                if not req and ctx.rng.random() < 0.4:
                    continue
                for _try in range(3):
                    cand = attrs + [[list(n), choose_value(ctx.rng, it, n)]]
                    if spec_eval(it, cand, True, False)['ok'] or (req and _try == 2):
                        attrs = cand
                        break
            if ctx.rng.random() < 0.15 and attrs:
                k = ctx.rng.randrange(len(attrs))           # then spoil one value
                attrs[k] = [attrs[k][0], choose_value(ctx.rng, it, tuple(attrs[k][0]))]
            ctx.rng.shuffle(attrs)
            cases.append(attrs)
    has_prohibited = any(d['use'] == 'prohibited' for d in g['decls'])
    qname_fixed = {n for n, u in it['uses'].items() if u['ty'] == TY_QNAME and u['fixed'] is not None}
    answers = None
    if drv is not None:
        req = {'decls': g['decls'], 'any': g['any'], 'globals': g['globals'], 'loaded': g['loaded'],
               'cases': cases, 'opts': [list(o) for o in OPTS], 'ctx': CTX, 'byValue': detect_variant(),
               'sctx': schema_ctx(b.schema)}
        answers = drv.query([req])[0]
        if 'err' in answers:
            ctx.mismatch('driver error', case0, None, answers)
            answers = None
    for ci, attrs in enumerate(cases):
        qf = bool(qname_fixed & {tuple(n) for n, _ in attrs})
        case = {'v': ver, 'xsd': b.xsd, 'attrs': attrs, 'set': s, 'qname_fixed': qf}
        key = {'v': ver, 'group': g['decls'], 'any': g['any'], 'attrs': attrs}
        nontrivial = False
        kinds: set = set()
        for oi, (ud, fm) in enumerate(OPTS):
            real = real_run(b, attrs, ud, fm)
            case_o = dict(case, use_defaults=ud, fill_missing=fm)
            kinds.update(e[0] for e in real['errors'])
            m = answers['res'][ci][oi] if answers is not None else None
            # ---- (3) the property on the real code, from the intended declarations
            sp = spec_eval(it, attrs, ud, fm)
            problems = judge(sp, real)
            if problems:
                fid = None
                if qf and not judge(spec_eval(it, attrs, ud, fm, qname_lexical=True), real):
                    fid = known_match(case_o, {'explained_by': 'qname-lexical'})
                if fid:
                    ctx.known_hit(fid)
                else:
                    ctx.failure(problems[0], case_o, {'problems': problems, 'real': real,
                                                       'expected_valid': sp['ok'],
                                                       'expected_decoded': sorted(map(str, sp['out'].items())),
                                                       'expected_absent': sorted(map(str, sp['absent'].items()))})
            # ---- (2) implementation vs Lean model (the model is the code as it is)
            if m is not None:
                ctx.traces += 1
                if not agrees(m, real):
                    ctx.mismatch('attribute group decode', case_o,
                                 {'errors': real['errors'],
                                  'decoded': [[n, canon_value(v)] for n, v in real['decoded']]}, m)
                if m['decoded'] and any(i[2] != 't' for i in m['decoded']):
                    nontrivial = True
            if real['errors']:
                nontrivial = True
        if any(tuple(n) in it['uses'] and it['uses'][tuple(n)]['fixed'] is not None for n, _ in attrs) or \
                any(n not in {tuple(x) for x, _ in attrs} and (u['fixed'] is not None or u['default'] is not None)
                    for n, u in it['uses'].items()) or has_prohibited:
            nontrivial = True
        ctx.case(key, nontrivial, tag=f'{ver}/cases')
        ctx.count('present:%d' % len(attrs))
        for k in kinds:
            ctx.count('err:' + k)
        if not kinds:
            ctx.count('valid')


def judge(sp: dict, real: dict) -> list[str]:
    """What the property demands (sp) against what the real code did.  Empty list = property holds."""
    problems = []
    if real['valid'] != sp['ok']:
        problems.append('attribute set %s by the library but %s by the property' % (
            'accepted' if real['valid'] else 'rejected', 'invalid' if real['valid'] else 'valid'))
    got = {tuple(n): v for n, v in real['decoded']}
    if sp['ok']:
        # values of present attributes are constrained for valid sets
        for n, v in sp['out'].items():
            if n not in got:
                problems.append('decoded data lack the present attribute %s' % (n,))
            elif not same_value(got[n], v):
                problems.append('decoded value of %s is %r, expected %r' % (n, got[n], v))
        for n in sp['skipped']:
            if n in got:
                problems.append('attribute %s admitted under processContents=skip is reported' % (n,))
    # absent-attribute clauses hold for every set
    for n, v in sp['absent'].items():
        if n not in got:
            problems.append('absent attribute %s with a fixed/default value is not reported' % (n,))
        elif not same_value(got[n], v) and not (n in sp['qnames'] and isinstance(got[n], str) and isinstance(v, str)
                                                 and coll(got[n]) == coll(v)):
            # (an absent xs:QName is reported as text: the literal of the schema, collapsed or not)
            problems.append('absent attribute %s reported as %r, expected %r' % (n, got[n], v))
    for n in sp['none']:
        if n not in got or got[n] is not None:
            problems.append('fill_missing did not report absent %s as None' % (n,))
    for n in got:
        if n in sp['present'] or n in sp['absent'] or n in sp['none']:
            continue
        if n in sp['may_none'] and got[n] is None:
            continue
        problems.append('decoded data contain the absent attribute %s (value %r) which has no applicable '
                        'fixed/default value and no filler was requested for it' % (n, got[n]))
    return problems


def agrees(m: dict, real: dict) -> bool:
    if m['errors'] != real['errors']:
        return False
    if len(m['decoded']) != len(real['decoded']):
        return False
    for item, (n, v) in zip(m['decoded'], real['decoded']):
        if item[:2] != n or model_value(item) != canon_value(v):
            return False
    return True


# ---------------------------------------------------------------- the catalogue types against the real types
TYPES_XSD = f'''<xs:schema xmlns:xs="{XSD}" targetNamespace="{T}" xmlns:t="{T}" xmlns:tt="{T}" xmlns:f="{F}" xmlns:p="{U}">
<xs:simpleType name="small"><xs:restriction base="xs:int"><xs:maxInclusive value="5"/></xs:restriction></xs:simpleType>
<xs:simpleType name="ints"><xs:list itemType="xs:int"/></xs:simpleType>
%s
</xs:schema>'''
ALPHABETS = {0: ' \t+-0123x', 5: ' +-0126x', 1: ' \t+-.0012x', 3: ' \ttruefals01', 2: ' \tab', 4: ' \t\nab', 6: ' a1',
             7: ' :txfz1-_.', 8: ' \t\n+-012x'}


def gen_lex(rng, ty: int) -> str:
    if rng.random() < 0.35:                                  # a catalogue form, possibly padded
        lex = rng.choice(CATALOGUE[ty][1])[0]
        return rng.choice(['', ' ', '\t', '  ']) + lex + rng.choice(['', ' ', '\n']) if rng.random() < 0.4 else lex
    if ty == TY_QNAME and rng.random() < 0.6:
        p = rng.choice(['t', 'tt', 'f', 'u', 'zz', 'xsi', '', 't1', '_p', '1p'])
        loc = rng.choice(['x', 'y', 'a-b', 'a.b', '_', '1x', '', 'x:y', 'x y'])
        return rng.choice(['', ' ']) + (p + ':' + loc if p or rng.random() < 0.2 else loc) + rng.choice(['', '  '])
    al = ALPHABETS[ty]
    return ''.join(rng.choice(al) for _ in range(rng.randrange(0, 7)))


def run_types(ctx: Ctx, drv: Optional[Driver]) -> None:
    """Model/AttrTypes.lean against the real simple types: for every catalogue type, generated lexical forms:
    (a) lax decode of <e v="lex"/> reports no error  <->  validLex, and the decoded value  <->  decodedVal;
    (b) decoding <e v="a"/> against the declaration with fixed="b" reports no fixed-value error  <->  `declErrsX`
        (the variant of the tree under test, see detect_variant);  (c) the hand-written catalogue table (independent reading) agrees with the real types."""
    import xmlschema
    elems = ''.join(f'<xs:element name="e{k}"><xs:complexType><xs:attribute name="v" type="{name}"/>'
                    f'</xs:complexType></xs:element>' for k, (name, _) in enumerate(CATALOGUE))
    for v11 in (False, True):
        cls = xmlschema.XMLSchema11 if v11 else xmlschema.XMLSchema10
        schema = cls(TYPES_XSD % elems)
        ver = '1.1' if v11 else '1.0'
        items, pairs, real_items, real_pairs = [], [], [], []
        for ty, (name, entries) in enumerate(CATALOGUE):
            xsd_type = schema.elements[f'e{ty}'].type.attributes['v'].type
            lexs = [lex for lex, _, _ in entries] + [gen_lex(ctx.rng, ty) for _ in range(ctx.pick(60, 400))]
            for lex in lexs:
                el = ET.Element('{%s}e%d' % (T, ty), {'v': lex})
                data, errs = schema.decode(el, validation='lax', namespaces=NSMAP_DECODE)
                val = (data or {}).get('@v') if isinstance(data, dict) else None
                items.append([ty, lex])
                real_items.append((not errs, canon_value(val)))
                if lex in LEX[ty]:
                    ok, pv = LEX[ty][lex][0], pyvalue(ty, lex)
                    if ok != (not errs) or canon_value(pv) != canon_value(val):
                        ctx.failure('the hand-written catalogue (independent reading) disagrees with the real type',
                                    {'v': ver, 'type': name, 'lex': lex}, {'catalogue': [ok, repr(pv)],
                                                                          'real': [not errs, repr(val)]})
            attr = schema.elements[f'e{ty}'].type.attributes['v']
            for _ in range(ctx.pick(150, 1200)):
                a, bb = ctx.rng.choice(lexs), ctx.rng.choice(lexs)
                if ctx.rng.random() < 0.3:
                    bb = ctx.rng.choice(['', ' ', '\t']) + a + ctx.rng.choice(['', ' '])
                pairs.append([ty, a, bb])
                # the fixed-value clause of XsdAttribute.raw_decode itself: the declaration gets fixed=bb
                attr.fixed = bb
                try:
                    el = ET.Element('{%s}e%d' % (T, ty), {'v': a})
                    _, errs = schema.decode(el, validation='lax', namespaces=NSMAP_DECODE)
                finally:
                    attr.fixed = None
                real_pairs.append(not any((e.reason or '').startswith("attribute 'v' has a fixed value") for e in errs))
        if drv is None:
            continue
        ans = drv.query([{'op': 'types', 'ctx': CTX, 'byValue': detect_variant(), 'sctx': schema_ctx(schema),
                          'items': items, 'pairs': pairs}])[0]
        if 'err' in ans:
            ctx.mismatch('driver error (types)', {'v': ver}, None, ans)
            continue
        for (ty, lex), (rok, rval), mok, mval in zip(items, real_items, ans['valid'], ans['dec']):
            ctx.traces += 1
            ctx.count('types:valid' if rok else 'types:invalid')
            ctx.case({'v': ver, 'type': ty, 'lex': lex}, True, tag=f'{ver}/type-forms')
            if rok != mok or rval != mval:
                ctx.mismatch('catalogue type: validity / decoded value', {'v': ver, 'type': CATALOGUE[ty][0], 'lex': lex},
                             [rok, rval], [mok, mval])
        for (ty, a, bb), req, meq in zip(pairs, real_pairs, ans['eq']):
            ctx.traces += 1
            ctx.count('types:eq' if req else 'types:neq')
            if req != meq:
                ctx.mismatch('catalogue type: fixed-value test of XsdAttribute.raw_decode',
                             {'v': ver, 'type': CATALOGUE[ty][0], 'a': a, 'b': bb}, req, meq)


# ---------------------------------------------------------------- XSD 1.0 ID rule, XSD 1.1 default attribute group
TY_ID, TY_MYID = 9, 10          # outside the value catalogue: only the build rules read them


def run_build_extras(ctx: Ctx, drv: Optional[Driver]) -> None:
    """`AttrDeriv.idErrs` and `AttrDeriv.applyDefaults` against the library: seeded small schemas built in lax mode
    (parse errors collected); compared: the reported error kinds and the resulting attribute group."""
    import xmlschema
    if drv is None:
        return
    rng = ctx.rng
    tyname = {0: 'xs:int', 2: 'xs:string', TY_ID: 'xs:ID', TY_MYID: 't:myid'}
    for v11 in (False, True):
        cls = xmlschema.XMLSchema11 if v11 else xmlschema.XMLSchema10
        ver = '1.1' if v11 else '1.0'
        for _ in range(ctx.pick(24, 120)):
            def decl(name: str, tys: list) -> dict:
                ty = rng.choice(tys)
                use = rng.choice(['optional', 'optional', 'required'])
                return {'name': ['', name], 'use': use, 'ty': ty, 'fixed': None,
                        'default': rng.choice([None, '1']) if use == 'optional' and ty in (0, 2) else None}
            own = [decl(n, [0, 2, TY_ID, TY_ID, TY_MYID]) for n in ('a', 'b', 'c', 'd') if rng.random() < 0.7]
            own_w = rng.choice([None, None, {'c': {'ns': [F], 'notNs': [], 'notQ': []}, 'pc': 'lax'}])
            da = [decl(n, [0, 2, TY_ID]) for n in ('a', 'da1', 'da2') if rng.random() < (0.25 if n == 'a' else 0.7)]
            da_w = rng.choice([None, None, {'c': {'ns': [U], 'notNs': [], 'notQ': []}, 'pc': 'skip'}])
            use_da = v11 and rng.random() < 0.6
            apply_attr = rng.choice(['', '', ' defaultAttributesApply="false"', ' defaultAttributesApply="true"']) if v11 else ''

            def xd(d: dict) -> str:
                extra = '' if d['use'] == 'optional' else f' use="{d["use"]}"'
                if d['default'] is not None:
                    extra += f' default="{d["default"]}"'
                return f'<xs:attribute name="{d["name"][1]}" type="{tyname[d["ty"]]}"{extra}/>'
            xsd = (f'<xs:schema xmlns:xs="{XSD}" targetNamespace="{T}" xmlns:t="{T}"'
                   + (' defaultAttributes="t:DA"' if use_da else '') + '>'
                   '<xs:simpleType name="myid"><xs:restriction base="xs:ID"><xs:maxLength value="9"/></xs:restriction>'
                   '</xs:simpleType><xs:attributeGroup name="DA">' + ''.join(map(xd, da))
                   + (xsd_wild(da_w['c'], da_w['pc']) if da_w else '') + '</xs:attributeGroup>'
                   f'<xs:element name="e"><xs:complexType{apply_attr}>' + ''.join(map(xd, own))
                   + (xsd_wild(own_w['c'], own_w['pc']) if own_w else '') + '</xs:complexType></xs:element></xs:schema>')
            case = {'v': ver, 'xsd': xsd}
            try:
                schema = cls(xsd, validation='lax')
            except Exception as e:      # noqa: BLE001
                ctx.failure('schema of the ID / defaultAttributes family cannot be built even in lax mode', case,
                            {'error': type(e).__name__, 'message': str(e)[:200]})
                continue
            msgs = [str(getattr(e, 'message', e)) for e in schema.all_errors]
            real_errs = sorted(('multipleIds' if 'multiple ID attributes' in m else
                                'defaultWildcardClash' if 'default attribute None' in m else
                                'defaultClash' if 'default attribute' in m else 'other:' + m[:60]) for m in msgs)
            applies = v11 and use_da and 'false' not in apply_attr
            # the 1.0 ID rule is applied to the group of the complex type before the defaults are added and to the
            # attribute group definition itself; the model is asked for the complex type's group
            group = schema.elements['e'].type.attributes
            real = {'decls': {}, 'any': None}
            for k, a in group._attribute_group.items():
                if k is None:
                    real['any'] = intro_wild(a)
                else:
                    real['decls'][k] = [a.use, a.fixed, a.default]
            content = {'children': [{'attr': ast_decl(d)} for d in own], 'any': any_of(own_w), 'inGroupDef': False}
            dflt = {'decls': [ast_decl(d) for d in da], 'any': any_of(da_w)} if applies else None
            ans = drv.query([{'op': 'build', 'v11': v11, 'oldPc': False, 'content': content, 'deriv': 'none',
                              'base': None, 'defaults': dflt, 'ids': [TY_ID, TY_MYID]}])[0]
            ctx.traces += 1
            ctx.case(case, True, tag=f'{ver}/build-extras')
            # errors of the DA definition itself (1.0: multiple IDs inside the group) are not the type's
            da_ids = sum(1 for d in da if d['ty'] in (TY_ID, TY_MYID))
            model_errs = sorted(ans.get('errs', []) + (['multipleIds'] if not v11 and da_ids > 1 else []))
            from harness.props.c16 import canon
            mg = ans.get('group')
            model = None if mg is None else {
                'decls': {d['n'][1]: [d['use'], d['fixed'], d['default']] for d in mg['decls']},
                'any': mg['any']}
            realc = {'decls': real['decls'], 'any': None if real['any'] is None else
                     {'wc': canon(real['any']['wc']), 'pc': real['any']['pc']}}
            for e in real_errs:
                ctx.count('build-extras:' + e.split(':')[0])
            if model_errs != real_errs or model != realc:
                ctx.mismatch('ID rule / default attribute group', case, {'errs': real_errs, 'group': realc},
                             {'errs': model_errs, 'group': model})


# ---------------------------------------------------------------- witnesses of the `_counterexample` theorems
def witnesses(ctx: Ctx) -> None:
    """The concrete witnesses of the Lean `_counterexample` theorems replayed on the real code.
    Fixed findings (C03-F1, C03-F2): the code must now give the verdict of the CURRENT step of the model, else
    a failure.  Open findings (C03-F3, C03-F4): the defect is re-confirmed (KNOWN-FINDING) while it is there."""
    import xmlschema
    head = f'<xs:schema xmlns:xs="{XSD}" targetNamespace="{T}" xmlns:t="{T}">'

    def errs(schema: Any, xml: str) -> list:
        return [e.reason for e in schema.iter_errors(xml)]

    for cls in (xmlschema.XMLSchema10, xmlschema.XMLSchema11):
        v = cls.XSD_VERSION
        # Props.C03.oldstep_admits_counterexample / oldstep_injects_counterexample  (XSD 1.0 only: 1.1 forbids the schema)
        if v == '1.0':
            sc = cls(head + '<xs:element name="e"><xs:complexType><xs:attribute name="a" type="xs:int" '
                     'use="prohibited" fixed="3"/></xs:complexType></xs:element></xs:schema>')
            ctx.case({'witness': 'oldstep', 'v': v}, True, tag='witness')
            if not errs(sc, f'<t:e xmlns:t="{T}" a="3"/>'):
                ctx.failure('witness of oldstep_admits_counterexample: a prohibited attribute with a fixed value is '
                            'accepted again (C03-F1 is recorded as fixed)', {'witness': 'oldstep-admits', 'v': v})
            if sc.decode(f'<t:e xmlns:t="{T}"/>') not in (None, {f'@xmlns:t': T}):
                ctx.failure('witness of oldstep_injects_counterexample: the fixed value of a prohibited declaration is '
                            'injected again (C03-F1 is recorded as fixed)', {'witness': 'oldstep-injects', 'v': v})
        # Props.C03Deriv.oldpc_counterexample
        sc = cls(head + '<xs:attributeGroup name="AG1"><xs:anyAttribute namespace="##any" processContents="skip"/>'
                 '</xs:attributeGroup><xs:element name="e"><xs:complexType><xs:attributeGroup ref="t:AG1"/>'
                 f'<xs:anyAttribute namespace="{U}" processContents="strict"/></xs:complexType></xs:element></xs:schema>')
        ctx.case({'witness': 'oldpc', 'v': v}, True, tag='witness')
        if not errs(sc, f'<t:e xmlns:t="{T}" xmlns:u="{U}" u:z="1"/>'):
            ctx.failure('witness of oldpc_counterexample: the complete wildcard takes the processContents of the first '
                        'referenced group again (C03-F2 is recorded as fixed)', {'witness': 'oldpc', 'v': v})
        # Props.C03Types.fixed_qname_rejects_counterexample / fixed_qname_admits_counterexample
        sc = cls(head + '<xs:element name="e"><xs:complexType><xs:attribute name="q" type="xs:QName" fixed="t:x"/>'
                 '</xs:complexType></xs:element></xs:schema>')
        ctx.case({'witness': 'qname-fixed', 'v': v}, True, tag='witness')
        rejects = bool(errs(sc, f'<p:e xmlns:p="{T}" q="p:x"/>'))
        admits_ = not errs(sc, f'<p:e xmlns:p="{T}" xmlns:t="urn:other" q="t:x"/>')
        if rejects or admits_:
            if finding_status().get('C03-F3') == 'known' and rejects and admits_:
                ctx.known_hit('C03-F3')
            else:
                ctx.failure('the fixed value of an xs:QName attribute is not compared in the value space',
                            {'witness': 'qname-fixed', 'v': v}, {'same value rejected': rejects,
                                                                 'different value accepted': admits_})
        # C03-F5: an ABSENT attribute whose fixed / default literal is a QName is validated in the namespace
        # context of the instance (Props.C03Fixed: the last two examples)
        ctx.case({'witness': 'qname-absent', 'v': v}, True, tag='witness')
        bad = [x for x in (f'<p:e xmlns:p="{T}"/>', f'<p:e xmlns:p="{T}" xmlns:t="urn:other"/>') if errs(sc, x)]
        if bad:
            if finding_status().get('C03-F5') == 'known' and bad == [f'<p:e xmlns:p="{T}"/>'] and not detect_variant():
                ctx.known_hit('C03-F5')
            else:
                ctx.failure('an element WITHOUT the attribute is invalid because of the fixed value of the absent '
                            'xs:QName attribute', {'witness': 'qname-absent', 'v': v}, {'rejected': bad})
        # C03-F4: the wildcard of a shared attribute group widened by an extension
        sc = cls(head + f'<xs:attributeGroup name="AG"><xs:anyAttribute namespace="{U}" processContents="skip"/>'
                 f'</xs:attributeGroup><xs:complexType name="B"><xs:anyAttribute namespace="{F}" processContents="skip"/>'
                 '</xs:complexType><xs:complexType name="D"><xs:complexContent><xs:extension base="t:B">'
                 '<xs:attributeGroup ref="t:AG"/></xs:extension></xs:complexContent></xs:complexType>'
                 '<xs:element name="alone"><xs:complexType><xs:attributeGroup ref="t:AG"/></xs:complexType></xs:element>'
                 '</xs:schema>')
        ctx.case({'witness': 'shared-wildcard', 'v': v}, True, tag='witness')
        if not errs(sc, f'<t:alone xmlns:t="{T}" xmlns:f="{F}" f:x="1"/>'):
            if finding_status().get('C03-F4') == 'known':
                ctx.known_hit('C03-F4')
            else:
                ctx.failure('an extension widened the wildcard of a shared attribute group',
                            {'witness': 'shared-wildcard', 'v': v})


# ---------------------------------------------------------------- entry points
WILD_PROBES = [('', 'a'), ('', 'zz'), (T, 'q'), (T, 'zz'), (F, 'g'), (F, 'z'), (U, 'z')]


def wild_family(ctx: Ctx, drv: Optional[Driver], tmp: Path) -> None:
    """Systematic family over the wildcard positions: EVERY ordered pair (c1, c2) of constraint forms of the
    version (##any, ##other, ##local, ##targetNamespace, lists with / without the absent and the target
    namespace, the empty list, 1.1 notNamespace / notQName) is put
      gg : c1 in the first referenced group, c2 in the second  (receiver of the intersection = c1)
      gl : c1 in the local anyAttribute, c2 in a referenced group  (receiver = the local wildcard)
      ext / restr : c1 local, c2 in the base type  (union / restriction; a sample of the pairs in the quick tier)
    and the resulting type is judged like every other declaration set (built group against the AST reading and
    against the Lean port of _parse; one instance per probe name of every namespace region, the absent
    namespace included, plus all of them together; four option settings)."""
    subsets_of = lambda it: ([[[list(n), choose_value(ctx.rng, it, n)]] for n in WILD_PROBES] +      # noqa: E731
                             [[[list(n), choose_value(ctx.rng, it, n)] for n in WILD_PROBES]])
    for v11 in (False, True):
        cs = wildcard_constraints(v11)
        ver = '1.1' if v11 else '1.0'
        for i1, c1 in enumerate(cs):
            for i2, c2 in enumerate(cs):
                # quick tier: each ordered pair gets one of the two intersection positions (which one depends on
                # the seed; a form that misbehaves as receiver meets several partners, so both positions see it)
                kinds = ['gg', 'gl'] if not ctx.quick() else [['gg', 'gl'][(i1 + i2 + ctx.seed) % 2]]
                if ctx.rng.random() < ctx.pick(0.08, 1.0):
                    kinds.append('ext')
                if ctx.rng.random() < ctx.pick(0.04, 0.5):
                    kinds.append('restr')
                for kind in kinds:
                    pc1, pc2 = ctx.rng.choice(PCS), ctx.rng.choice(PCS)
                    s = {'afd': 'unqualified', 'ga': None, 'decls': [], 'wilds': {}, 'refs': [], 'pool5': 'z',
                         'pool7': 'nil', 'base': None}
                    if kind == 'gg':
                        s['wilds'] = {'AG1': {'c': c1, 'pc': pc1}, 'AG2': {'c': c2, 'pc': pc2}}
                        s['refs'] = ['AG1', 'AG2']
                    elif kind == 'gl':
                        s['wilds'] = {'own': {'c': c1, 'pc': pc1}, 'AG1': {'c': c2, 'pc': pc2}}
                        s['refs'] = ['AG1']
                    elif kind == 'ext':
                        s['wilds'] = {'own': {'c': c1, 'pc': pc1}}
                        s['base'] = {'deriv': 'extension', 'decls': [], 'wild': {'c': c2, 'pc': pc2}}
                    else:
                        # a restriction must narrow the base wildcard: the base gets ##any with a weaker mode
                        s['wilds'] = {'own': {'c': c1, 'pc': pc1}}
                        s['base'] = {'deriv': 'restriction', 'decls': [],
                                     'wild': {'c': dict(ANY_C), 'pc': ctx.rng.choice(
                                         [p for p in PCS if PC_RANK[p] <= PC_RANK[pc1]])}}
                    ctx.count(f'{ver}/wild-family:{kind}')
                    run_set(ctx, drv, s, v11, tmp, subsets=subsets_of(intended(s)))


def explore(ctx: Ctx, drv: Optional[Driver], n_sets: int) -> None:
    tmp = Path(tempfile.mkdtemp(prefix='verif-c03-'))
    try:
        (tmp / 'f.xsd').write_text(FOREIGN_XSD)
        corpus = sorted((VERIF / 'corpus' / 'C03').glob('*.json')) if (VERIF / 'corpus' / 'C03').exists() else []
        for p in corpus:
            obj = json.loads(p.read_text())
            run_set(ctx, drv, obj['set'], obj['v'] == '1.1', tmp, subsets=[obj['attrs']] if 'attrs' in obj else None)
        if n_sets:
            wild_family(ctx, drv, tmp)
        for v11 in (False, True):
            for _ in range(n_sets):
                s = gen_set(ctx.rng, v11)
                run_set(ctx, drv, s, v11, tmp)
    finally:
        shutil.rmtree(tmp, ignore_errors=True)


def run(ctx: Ctx, driver_ok: bool) -> None:
    for e in load_findings():
        if not any(k['id'] == e['id'] for k in ctx.known):
            ctx.known.append(e)          # core only reads /verif/known_findings.json (integrator merges later)
    drv = Driver('drv_c03') if driver_ok else None
    for extra in ('XsVerif.Props.C03Types', 'XsVerif.Props.C03Deriv', 'XsVerif.Props.C03Fixed'):
        ctx.lean_grep(extra)
    run_types(ctx, drv)
    run_build_extras(ctx, drv)
    witnesses(ctx)
    explore(ctx, drv, ctx.pick(60, 600))
    ctx.extra['exhaustive'] = False
    ctx.extra['explanation'] = ('declaration sets (plain / extension / restriction) are seeded random; for each set the '
                                'subset dimension (256 subsets of the 8-name pool) is exhaustive, values are drawn from '
                                'the catalogue; lexical forms of the type correspondence are seeded random')


def search(ctx: Ctx) -> None:
    if ctx.quick():
        explore(ctx, None, 150)


def replay(ctx: Ctx, obj: dict) -> int:
    print(json.dumps({k: v for k, v in obj.items() if k != 'input'}, indent=1)[:3000])
    case = obj.get('input')
    if case and 'witness' in case:
        for e in load_findings():
            ctx.known.append(e)
        witnesses(ctx)
        for f in ctx.failures:
            print('FAILS ON THE REAL CODE:', f['what'], json.dumps(f['detail'], default=str)[:1500])
        print('judgement:', 'property violated' if ctx.failures else 'property holds on this input')
        return 1 if ctx.failures else 0
    if not case or 'set' not in case:
        return 0
    tmp = Path(tempfile.mkdtemp(prefix='verif-c03-'))
    try:
        (tmp / 'f.xsd').write_text(FOREIGN_XSD)
        for e in load_findings():
            ctx.known.append(e)
        print('schema:\n' + xsd_text(case['set']))
        print('attributes:', case.get('attrs'))
        drv = Driver('drv_c03') if (VERIF / 'lean/.lake/build/bin/drv_c03').exists() else None
        run_set(ctx, drv, case['set'], case['v'] == '1.1', tmp,
                subsets=[case['attrs']] if 'attrs' in case else None)
    finally:
        shutil.rmtree(tmp, ignore_errors=True)
    for f in ctx.failures:
        print('FAILS ON THE REAL CODE:', f['what'], json.dumps(f['detail'], default=str)[:1500])
    for m in ctx.mismatches:
        print('MODEL != IMPLEMENTATION:', m['correspondence'], 'impl=', m['impl'], 'model=', m['model'])
    if ctx.known_hits:
        print('explained by known finding(s):', ctx.known_hits)
    print('judgement:', 'property violated' if ctx.failures else 'property holds on this input')
    return 1 if ctx.failures else 0
