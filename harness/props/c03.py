"""
C03 — attribute sets are validated per declared uses, value constraints and wildcards.

Generator: seeded random declaration sets (use x form x fixed/default x global refs x attribute groups x
type from a small catalogue) x attribute wildcards (namespace constraint x processContents, own and in
referenced groups) x EVERY subset of an 8-name pool spanning no-namespace / target / declared-foreign /
unknown / xsi namespaces x values from the catalogue; use_defaults on/off, fill_missing on/off; XSD 1.0
and 1.1.  Real schemas are built from XSD text, the built attribute group is introspected and
  (1) compared with the generator's intended group (parsing glue),
  (2) sent to the Lean driver (model XsVerif/Model/Attributes.lean, repaired and pinned variant) whose
      ordered error list and decoded list are compared with `schema.decode(..., validation='lax')`,
  (3) the property itself is evaluated on the real code against an independent set-based reading
      computed from the *intended* declarations (`spec_eval`), without Lean.
"""
from __future__ import annotations

import itertools
import json
import re
import shutil
import tempfile
from decimal import Decimal
from pathlib import Path
from typing import Any, Optional
from xml.etree import ElementTree as ET

from harness.core import Ctx, Driver, VERIF

PROPS = 'XsVerif.Props.C03'
AUDIT = 'XsVerif.Audit.C03'
LEAN_TARGETS = ['XsVerif.Props.C03', 'drv_c03']
LEANCHECK = ['XsVerif.Model.Attributes', 'XsVerif.Lemmas.Attributes', 'XsVerif.Props.C03']
RULE = ('a case is one (XSD version, declaration set, subset of the 8-name pool with one catalogue value per '
        'present attribute); each case is decoded under the four (use_defaults, fill_missing) settings; '
        'non-trivial = at least one of: an error is reported, an attribute is resolved through the wildcard or '
        'the xsi fallback, a fixed value is compared, a fixed/default value is injected, a prohibited declaration '
        'is met; distinct by canonical JSON of (version, built group, attributes)')
TRUSTED = ['simple-type validity and value-space equality are parameters of the theorems (Sem.validT / Sem.valueEq); '
           'in the correspondence they are a hand-written catalogue of 7 types x <=7 lexical forms whose expected '
           'Python values are checked against the real decoder by the decoded-data comparison',
           'XSD parsing of attribute declarations / groups / wildcards is inside the loop: the introspected '
           'group is compared with the intended one (names, use, fixed, default, type, wildcard set, processContents)']
ASSUMPTIONS = ['value constraints of the schema are valid for their type (hypothesis WF of the theorems; a schema '
               'violating it is refused at build time)',
               'value equality is reflexive on the catalogue (no NaN)',
               'no attribute of the group is declared in the xsi namespace',
               'the name pool does not use ##defined in attribute wildcards (modelled, parameter of the theorems, '
               'not generated)',
               'ID/IDREF typed attributes, xs:NOTATION, inheritable attributes, default attribute groups and '
               'attribute sets inherited through type derivation are outside this check']

T, F, U = 'urn:t', 'urn:f', 'urn:u'
XSI = 'http://www.w3.org/2001/XMLSchema-instance'
XML = 'http://www.w3.org/XML/1998/namespace'
XSD = 'http://www.w3.org/2001/XMLSchema'
PREFIX = {T: 't', F: 'f', U: 'u', XSI: 'xsi', XML: 'xml'}
NSMAP = {v: k for k, v in PREFIX.items()}
PCS = ['strict', 'lax', 'skip']

# ---------------------------------------------------------------- simple-type catalogue (independent of /repo)
# (xsd name, [(lexical, valid, python value)])
CATALOGUE: list[tuple[str, list[tuple[str, bool, Any]]]] = [
    ('xs:int', [('3', True, 3), ('03', True, 3), (' 3 ', True, 3), ('4', True, 4), ('x', False, None),
                ('', False, None), ('5', True, 5)]),
    ('xs:decimal', [('1.0', True, Decimal('1.0')), ('1.00', True, Decimal('1.00')), ('1', True, Decimal('1')),
                    ('1.5', True, Decimal('1.5')), ('abc', False, None), ('3', True, Decimal('3')),
                    ('5', True, Decimal('5')), ('x', False, None)]),
    ('xs:string', [('a', True, 'a'), ('a ', True, 'a '), ('', True, ''), ('3', True, '3'), ('x', True, 'x'),
                   ('5', True, '5')]),
    ('xs:boolean', [('true', True, True), ('1', True, True), ('false', True, False), ('0', True, False),
                    ('maybe', False, None), (' true ', True, True), ('3', False, None), ('5', False, None),
                    ('x', False, None)]),
    ('xs:token', [('a b', True, 'a b'), (' a  b ', True, 'a b'), ('c', True, 'c'), ('3', True, '3'),
                  ('5', True, '5'), ('x', True, 'x')]),
    ('t:small', [('3', True, 3), ('03', True, 3), ('5', True, 5), ('7', False, 7), ('x', False, None),
                 ('4', True, 4)]),                                   # xs:int, maxInclusive 5
    ('xs:anySimpleType', [('true', True, 'true'), ('false', True, 'false'), ('1', True, '1'), ('x', True, 'x'),
                          ('3', True, '3'), ('5', True, '5'), ('', True, '')]),
]
TY = {name: i for i, (name, _) in enumerate(CATALOGUE)}
TYPE_QNAME = {'{%s}int' % XSD: 0, '{%s}decimal' % XSD: 1, '{%s}string' % XSD: 2, '{%s}boolean' % XSD: 3,
              '{%s}token' % XSD: 4, '{%s}small' % T: 5, '{%s}anySimpleType' % XSD: 6}
LEX = [{lex: (ok, val) for lex, ok, val in entries} for _, entries in CATALOGUE]


def valid(ty: int, lex: str) -> bool:
    return LEX[ty][lex][0]


def pyvalue(ty: int, lex: str) -> Any:
    """decoded value in lax mode: a facet-invalid lexical form still decodes; an undecodable one gives None"""
    return LEX[ty][lex][1]


def value_eq(ty: int, a: str, b: str) -> bool:
    """value-space equality of two lexical forms (decoded values; undecodable forms equal nothing)."""
    va, vb = LEX[ty][a][1], LEX[ty][b][1]
    return va is not None and vb is not None and type(va) is type(vb) and va == vb


def sem_tables() -> tuple[list, list]:
    validt, cls = [], []
    for ty, (_, entries) in enumerate(CATALOGUE):
        classes: list[Any] = []
        for lex, ok, val in entries:
            if ok:
                validt.append([ty, lex])
            if val is not None:
                for k, c in enumerate(classes):
                    if type(c) is type(val) and c == val:
                        cls.append([ty, lex, k])
                        break
                else:
                    classes.append(val)
                    cls.append([ty, lex, len(classes) - 1])
    return validt, cls


VALID_TABLE, CLS_TABLE = sem_tables()

# ---------------------------------------------------------------- fixed parts of the schemas
FOREIGN_XSD = f'''<xs:schema xmlns:xs="{XSD}" targetNamespace="{F}" xmlns:f="{F}">
<xs:attribute name="g" type="xs:int"/>
<xs:attribute name="h" type="xs:int" fixed="5"/>
</xs:schema>'''
# globals the harness expects in the maps (name -> (type id, fixed, default)); `ga` is generated per set
FOREIGN_GLOBALS = {(F, 'g'): (0, None, None), (F, 'h'): (0, '5', None)}
XSI_GLOBALS = {(XSI, k): (6, None, None) for k in ('nil', 'type', 'schemaLocation', 'noNamespaceSchemaLocation')}
LOADED = {T, F, XSI, XML, XSD}

# constraint pool for attribute wildcards (C16 notation); evaluated by `den_q`
def wildcard_constraints(v11: bool) -> list[dict]:
    out: list[dict] = [{'ns': 'any'}, {'ns': 'other'}, {'ns': ['']}, {'ns': [T]}, {'ns': [F]}, {'ns': [U]},
                       {'ns': ['', T]}, {'ns': [F, U]}, {'ns': ['', F]}, {'ns': [T, F, U]}, {'ns': []},
                       {'ns': ['', T, F]}]
    if v11:
        out += [{'ns': [], 'notNs': [F]}, {'ns': [], 'notNs': ['', T]}, {'ns': [], 'notNs': [U, '']},
                {'ns': 'any', 'notQ': [[F, 'g']]}, {'ns': 'other', 'notQ': [[F, 'z'], [U, 'z']]},
                {'ns': 'any', 'notQ': [['', 'a'], [T, 'ga']]}]
    for c in out:
        c.setdefault('notNs', [])
        c.setdefault('notQ', [])
    return out


def den_q(c: dict, q: tuple[str, str]) -> bool:
    """Independent set reading of a wildcard constraint (the xsi namespace is handled by the caller)."""
    n = q[0]
    if [n, q[1]] in c['notQ']:
        return False
    if c['notNs']:
        return n not in c['notNs']
    if c['ns'] == 'any':
        return True
    if c['ns'] == 'other':
        return n != '' and n != T
    return n in c['ns']


def xsd_wild(c: dict, pc: str) -> str:
    tok = lambda n: {'': '##local', T: '##targetNamespace'}.get(n, n)   # noqa: E731
    parts = []
    if c['notNs']:
        parts.append('notNamespace="%s"' % ' '.join(tok(n) for n in c['notNs']))
    elif isinstance(c['ns'], str):
        parts.append('namespace="##%s"' % c['ns'])
    else:
        parts.append('namespace="%s"' % ' '.join(tok(n) for n in c['ns']))
    if c['notQ']:
        parts.append('notQName="%s"' % ' '.join((PREFIX[ns] + ':' + loc) if ns else loc for ns, loc in c['notQ']))
    return f'<xs:anyAttribute {" ".join(parts)} processContents="{pc}"/>'


# ---------------------------------------------------------------- generator of declaration sets
DECLARABLE = [('', 'a'), ('', 'b'), (T, 'q'), (T, 'ga'), (F, 'g')]
PLACES = ['own', 'AG1', 'AG2']


def gen_set(rng, v11: bool) -> dict:
    """Intended AST of one declaration set."""
    afd = rng.choice(['unqualified', 'unqualified', 'qualified'])
    ga_vc = rng.choice([None, None, ('fixed', '3'), ('default', '4')])
    decls = []
    for name in DECLARABLE:
        if rng.random() < 0.3:
            continue
        use = rng.choice(['optional', 'optional', 'required', 'prohibited'])
        place = rng.choice(['own', 'own', 'AG1', 'AG2'])
        ref = name in ((T, 'ga'), (F, 'g'))
        ty = 0 if ref else rng.randrange(6)
        d: dict = {'name': list(name), 'use': use, 'place': place, 'ref': ref, 'ty': ty, 'fixed': None,
                   'default': None}
        lexs = [lex for lex, ok, _ in CATALOGUE[ty][1] if ok]
        inherited = ga_vc if name == (T, 'ga') else None
        r = rng.random()
        if inherited and inherited[0] == 'fixed':
            # a reference may repeat the fixed value of the global declaration (same lexical form only)
            d['fixed'] = inherited[1]
            d['fixed_explicit'] = r < 0.3 and not (use == 'prohibited' and v11)
        elif r < 0.35 and not (use == 'prohibited' and v11):
            d['fixed'] = rng.choice(lexs)
            d['fixed_explicit'] = True
        elif r < 0.6 and use == 'optional':
            d['default'] = rng.choice(lexs)
            d['default_explicit'] = True
        elif inherited and inherited[0] == 'default' and use == 'optional':
            d['default'] = inherited[1]
            d['default_explicit'] = False
        # an inherited default on a non-optional reference: the library keeps it (not an error for a ref
        # without its own default attribute); record what the reference inherits
        if inherited and inherited[0] == 'default' and d['default'] is None and d['fixed'] is None:
            d['default'] = inherited[1]
            d['default_explicit'] = False
        # form: how the (un)qualified name is obtained
        if not ref:
            want_q = name[0] == T
            if want_q != (afd == 'qualified'):
                d['form'] = 'qualified' if want_q else 'unqualified'
            else:
                d['form'] = rng.choice([None, 'qualified' if want_q else 'unqualified'])
        decls.append(d)
    wilds = {}
    cs = wildcard_constraints(v11)
    for place, p in (('own', 0.6), ('AG1', 0.35), ('AG2', 0.3)):
        if rng.random() < p:
            wilds[place] = {'c': rng.choice(cs), 'pc': rng.choice(PCS)}
    refs = [g for g in ('AG1', 'AG2') if any(d['place'] == g for d in decls) or g in wilds or rng.random() < 0.2]
    rng.shuffle(refs)
    return {'afd': afd, 'ga': ga_vc, 'decls': decls, 'wilds': wilds, 'refs': refs,
            'pool5': rng.choice(['z', 'h']), 'pool7': rng.choice(['nil', 'nil', 'foo'])}


def xsd_decl(d: dict) -> str:
    a = []
    ns, loc = d['name']
    if d['ref']:
        a.append(f'ref="{PREFIX[ns]}:{loc}"')
    else:
        a.append(f'name="{loc}" type="{CATALOGUE[d["ty"]][0]}"')
        if d.get('form'):
            a.append(f'form="{d["form"]}"')
    if d['use'] != 'optional':
        a.append(f'use="{d["use"]}"')
    if d['fixed'] is not None and d.get('fixed_explicit'):
        a.append(f'fixed="{d["fixed"]}"')
    if d['default'] is not None and d.get('default_explicit'):
        a.append(f'default="{d["default"]}"')
    return f'<xs:attribute {" ".join(a)}/>'


def xsd_text(s: dict) -> str:
    ga = ''
    if s['ga']:
        ga = f' {s["ga"][0]}="{s["ga"][1]}"'
    out = [f'<xs:schema xmlns:xs="{XSD}" targetNamespace="{T}" xmlns:t="{T}" xmlns:f="{F}" xmlns:u="{U}" '
           f'attributeFormDefault="{s["afd"]}">',
           f'<xs:import namespace="{F}" schemaLocation="f.xsd"/>',
           '<xs:simpleType name="small"><xs:restriction base="xs:int"><xs:maxInclusive value="5"/>'
           '</xs:restriction></xs:simpleType>',
           f'<xs:attribute name="ga" type="xs:int"{ga}/>']
    for g in ('AG1', 'AG2'):
        out.append(f'<xs:attributeGroup name="{g}">')
        out += [xsd_decl(d) for d in s['decls'] if d['place'] == g]
        if g in s['wilds']:
            out.append(xsd_wild(s['wilds'][g]['c'], s['wilds'][g]['pc']))
        out.append('</xs:attributeGroup>')
    out.append('<xs:element name="e" nillable="true"><xs:complexType>')
    own = [xsd_decl(d) for d in s['decls'] if d['place'] == 'own']
    grefs = [f'<xs:attributeGroup ref="t:{g}"/>' for g in s['refs']]
    # interleave own declarations and group references deterministically
    k = len(own) // 2
    out += own[:k] + grefs + own[k:]
    if 'own' in s['wilds']:
        out.append(xsd_wild(s['wilds']['own']['c'], s['wilds']['own']['pc']))
    out.append('</xs:complexType></xs:element>')
    # each attribute group also used alone by another element: combining it with other wildcards in `e` must not
    # change what those elements admit (the groups are shared components)
    for g in ('AG1', 'AG2'):
        out.append(f'<xs:element name="alone{g}"><xs:complexType><xs:attributeGroup ref="t:{g}"/></xs:complexType></xs:element>')
    out.append('</xs:schema>')
    return '\n'.join(out)


def intended(s: dict) -> dict:
    """The attribute uses and the complete wildcard the XSD text of `s` denotes (XSD structures §3.4.2,
    §3.6.2): prohibited uses denote nothing (they are kept separately only to know which names were
    mentioned); the complete wildcard has the intersection of all namespace constraints and the
    processContents of the local wildcard, else of the first referenced group that has one."""
    uses, prohibited = {}, []
    for d in s['decls']:
        if d['place'] != 'own' and d['place'] not in s['refs']:
            continue
        key = tuple(d['name'])
        if d['use'] == 'prohibited':
            if d['place'] == 'own':
                prohibited.append(key)
            continue
        uses[key] = {'use': d['use'], 'fixed': d['fixed'], 'default': d['default'], 'ty': d['ty']}
    cs, pc, pc_first_group = [], None, None
    for g in s['refs']:
        if g in s['wilds']:
            cs.append(s['wilds'][g]['c'])
            if pc_first_group is None:
                pc_first_group = s['wilds'][g]['pc']
    if 'own' in s['wilds']:
        cs.append(s['wilds']['own']['c'])
        pc = s['wilds']['own']['pc']
    else:
        pc = pc_first_group
    wild = {'cs': cs, 'pc': pc, 'pc_first_group': pc_first_group} if cs else None
    globs = dict(FOREIGN_GLOBALS)
    globs.update(XSI_GLOBALS)
    globs[(T, 'ga')] = (0, s['ga'][1] if s['ga'] and s['ga'][0] == 'fixed' else None,
                        s['ga'][1] if s['ga'] and s['ga'][0] == 'default' else None)
    return {'uses': uses, 'prohibited': prohibited, 'wild': wild, 'globals': globs}


def pool(s: dict) -> list[tuple[str, str]]:
    return [('', 'a'), ('', 'b'), (T, 'q'), (T, 'ga'), (F, 'g'), (F, s['pool5']), (U, 'z'), (XSI, s['pool7'])]


# ---------------------------------------------------------------- independent reading of the property
def admits(c: dict, q: tuple) -> bool:
    """set reading of one wildcard constraint for attributes: the xsi namespace is admitted by every positive
    constraint (the library does so on purpose, see C16)"""
    if [q[0], q[1]] in c['notQ']:
        return False
    if c['notNs']:
        return q[0] not in c['notNs']
    return q[0] == XSI or den_q(c, q)


def spec_eval(it: dict, attrs: list, ud: bool, fm: bool, pc_override: Optional[str] = None,
              prohibited_live: Optional[dict] = None) -> dict:
    """Verdict and decoded data the property demands, from the intended declarations.
    `pc_override` / `prohibited_live` are used ONLY to characterise the two known findings."""
    uses = dict(it['uses'])
    if prohibited_live:
        uses.update(prohibited_live)
    wild, globs = it['wild'], it['globals']
    present = {tuple(n) for n, _ in attrs}
    ok = all(n in present for n, u in uses.items() if u['use'] == 'required')
    out: dict = {}          # present attributes that are processed: name -> python value
    skipped = set()         # present attributes admitted by a skip wildcard: not reported
    for n, v in attrs:
        n = tuple(n)
        if n in uses:
            u = uses[n]
            ok = ok and valid(u['ty'], v) and (u['fixed'] is None or value_eq(u['ty'], v, u['fixed']))
            out[n] = pyvalue(u['ty'], v)
        elif n[0] == XSI and n in globs:
            ty, fx, _ = globs[n]
            ok = ok and valid(ty, v) and (fx is None or value_eq(ty, v, fx))
            out[n] = pyvalue(ty, v)
        elif wild is not None and all(admits(c, n) for c in wild['cs']):
            pc = pc_override or wild['pc']
            if pc == 'skip':
                skipped.add(n)
            elif n in globs and n[0] in LOADED:
                ty, fx, _ = globs[n]
                ok = ok and valid(ty, v) and (fx is None or value_eq(ty, v, fx))
                out[n] = pyvalue(ty, v)
            else:
                if pc == 'strict':
                    ok = False
                out[n] = v
        else:
            ok = False
    absent: dict = {}
    absent_none = set()
    for n, u in uses.items():
        if n in present:
            continue
        if u['fixed'] is not None:
            absent[n] = pyvalue(u['ty'], u['fixed'])
        elif u['default'] is not None and ud:
            absent[n] = pyvalue(u['ty'], u['default'])
        elif fm:
            absent_none.add(n)
    may_none = (set(it['prohibited']) - present - set(uses)) if fm else set()
    return {'ok': ok, 'out': out, 'skipped': skipped, 'absent': absent, 'none': absent_none,
            'may_none': may_none, 'present': present}


# ---------------------------------------------------------------- real code: build, introspect, run
class Built:
    def __init__(self, s: dict, v11: bool, tmp: Path):
        import xmlschema
        self.s = s
        self.v11 = v11
        self.xsd = xsd_text(s)
        cls = xmlschema.XMLSchema11 if v11 else xmlschema.XMLSchema10
        self.schema = cls(self.xsd, base_url=str(tmp) + '/')
        self.elem = self.schema.elements['e']
        self.group = self.elem.type.attributes


def qn_of(name: str) -> list[str]:
    if name[:1] == '{':
        ns, loc = name[1:].split('}')
        return [ns, loc]
    return ['', name]


def intro_decl(a: Any, schema: Any = None) -> Optional[dict]:
    ty = TYPE_QNAME.get(a.type.name)
    if ty is None:
        return None
    return {'n': qn_of(a.name), 'use': a.use or 'optional', 'fixed': a.fixed, 'default': a.default, 'ty': ty,
            'same': bool(schema is not None and a.schema is schema)}


def intro_wild(w: Any) -> Optional[dict]:
    from harness.props.c16 import introspect
    d = introspect(w)
    if d is None:
        return None
    return {'wc': d, 'pc': w.process_contents}


def introspect_group(b: Built) -> Optional[dict]:
    decls, anyw = [], None
    for k, a in b.group._attribute_group.items():
        if k is None:
            anyw = intro_wild(a)
            if anyw is None:
                return None
        else:
            d = intro_decl(a)
            if d is None or d['n'] != qn_of(k):
                return None
            decls.append(d)
    globs = []
    for k, a in b.schema.maps.attributes.items():
        d = intro_decl(a, b.schema)
        if d is None:
            if a.type.name and a.type.name.startswith('{%s}' % XSD) or get_ns(k) == XML:
                # xml:lang etc.: typed outside the catalogue; never used by the pool
                continue
            return None
        globs.append(d)
    return {'decls': decls, 'any': anyw, 'globals': globs, 'loaded': sorted(b.schema.maps.namespaces)}


def get_ns(name: str) -> str:
    return name[1:].split('}')[0] if name[:1] == '{' else ''


def check_glue(ctx: Ctx, b: Built, it: dict, g: dict, case0: dict) -> Optional[str]:
    """intended vs built group.  Returns the id of a known finding that explains a difference, or None."""
    built_uses = {tuple(d['n']): d for d in g['decls'] if d['use'] != 'prohibited'}
    built_proh = {tuple(d['n']) for d in g['decls'] if d['use'] == 'prohibited'}
    want = it['uses']
    known = None
    if set(built_uses) != set(want) or built_proh != set(it['prohibited']):
        ctx.failure('built attribute uses differ from the declared ones', case0,
                    {'built': sorted(built_uses), 'declared': sorted(want), 'built_prohibited': sorted(built_proh)})
        return None
    for n, u in want.items():
        d = built_uses[n]
        # the effective value constraint: a fixed value overrides an inherited default
        eff = lambda x: (x['use'], x['fixed'], None if x['fixed'] is not None else x['default'], x['ty'])  # noqa: E731
        if eff(d) != eff(u):
            ctx.failure('built attribute use differs from its declaration', case0, {'built': d, 'declared': u})
    w = b.group._attribute_group.get(None)
    if (w is None) != (it['wild'] is None):
        ctx.failure('attribute wildcard lost or invented by schema construction', case0)
        return None
    if w is not None:
        for q in pool(b.s) + [(U, 'y'), (T, 'zz'), ('', 'zz')]:
            if q[0] == XSI:
                continue
            name = '{%s}%s' % q if q[0] else q[1]
            wantm = all(den_q(c, q) for c in it['wild']['cs'])
            if bool(w.is_matching(name)) != wantm:
                ctx.failure('complete attribute wildcard is not the intersection of the declared wildcards',
                            case0, {'name': q, 'is_matching': bool(w.is_matching(name)), 'expected': wantm})
                break
        if w.process_contents != it['wild']['pc']:
            detail = {'built_processContents': w.process_contents, 'declared_local': it['wild']['pc'],
                      'first_group': it['wild']['pc_first_group']}
            fid = known_match(case0, {'glue': detail})
            if fid:
                ctx.known_hit(fid)
                known = fid
            else:
                ctx.failure('complete attribute wildcard does not take the processContents of the local '
                            'wildcard', case0, detail)
    return known


ERR_PATTERNS = [
    (re.compile(r"^missing required attribute '(.*)'$"), 'missing'),
    (re.compile(r"^'(.*)' attribute not allowed for element$"), 'notAllowed'),
    (re.compile(r"^'(.*)' is not an attribute of the XSI namespace$"), 'notXsi'),
    (re.compile(r"^use of attribute '(.*)' is prohibited$"), 'prohibited'),
    (re.compile(r"^attribute '(.*)' has a fixed value '.*'$"), 'fixed'),
    (re.compile(r"^attribute '(.*)' not allowed$"), 'denied'),
    (re.compile(r"^attribute '(.*)' not found$"), 'notFound'),
]
PREFIXED = re.compile(r"^attribute ([^=\s]+)=")


def unprefix(name: str) -> list[str]:
    if ':' in name:
        p, loc = name.split(':', 1)
        return [NSMAP.get(p, '?' + p), loc]
    return ['', name]


def classify(err: Any) -> list:
    """map a real validation error to the enum used by the model (message text never leaves this function)"""
    from xmlschema.validators import XsdAttributeGroup, XsdAnyAttribute, XsdAttribute
    reason = err.reason or ''
    for rx, kind in ERR_PATTERNS:
        m = rx.match(reason)
        if m:
            return [kind] + qn_of(m.group(1))
    m = PREFIXED.match(reason)
    if m:
        name = unprefix(m.group(1))
        if 'unavailable namespace' in reason and isinstance(err.validator, XsdAnyAttribute):
            return ['unavailable'] + name
        if not isinstance(err.validator, (XsdAttributeGroup, XsdAnyAttribute, XsdAttribute)):
            return ['invalid'] + name
    return ['other:' + type(err.validator).__name__, '', '']


def canon_errors(errs: list) -> list:
    out: list = []
    for e in errs:
        c = classify(e)
        if c[0] == 'invalid' and out and out[-1] == c:
            continue        # several facets of one type rejecting the same value
        out.append(c)
    return out


def real_run(b: Built, attrs: list, ud: bool, fm: bool) -> dict:
    attrib = {('{%s}%s' % (n[0], n[1]) if n[0] else n[1]): v for n, v in attrs}
    el = ET.Element('{%s}e' % T, attrib)
    data, errs = b.schema.decode(el, validation='lax', namespaces=NSMAP_DECODE, use_defaults=ud, fill_missing=fm)
    dec = []
    for k, v in (data or {}).items():
        if k.startswith('@xmlns'):
            continue
        if not k.startswith('@'):
            return {'errors': [['other:content', '', '']], 'decoded': [], 'valid': False}
        dec.append([unprefix(k[1:]), v])
    return {'errors': canon_errors(errs), 'decoded': dec, 'valid': not errs}


NSMAP_DECODE = {p: ns for ns, p in PREFIX.items()}


def model_value(item: list) -> Any:
    if item[2] == 't':
        return pyvalue(item[3], item[4]) if item[4] in LEX[item[3]] else ('?lex', item[4])
    if item[2] == 'r':
        return item[3]
    return None


def same_value(a: Any, b: Any) -> bool:
    return type(a) is type(b) and a == b and str(a) == str(b)


# ---------------------------------------------------------------- known findings
FINDINGS_FILE = VERIF / 'notes' / 'findings' / 'C03.json'


def load_findings() -> list[dict]:
    try:
        return [e for e in json.loads(FINDINGS_FILE.read_text())['findings']]
    except (OSError, ValueError, KeyError):
        return []


def known_match(case: dict, detail: dict) -> Optional[str]:
    """Exact rules of the two recorded findings.
    C03-F1: the declaration set contains an own `use="prohibited"` declaration AND the real result equals the
            result of the pinned Lean port (`legacy` model) / of the set reading in which that declaration is a
            live optional use, while differing from the repaired one.
    C03-F2: the complexType has a local anyAttribute and a referenced group with a wildcard of a different
            processContents, and the built wildcard carries the processContents of the first referenced group."""
    status = {e['id']: e.get('status') for e in load_findings()}
    if 'glue' in detail:
        g = detail['glue']
        if status.get('C03-F2') == 'known' and g['first_group'] is not None \
                and g['built_processContents'] == g['first_group'] != g['declared_local']:
            return 'C03-F2'
        return None
    if detail.get('explained_by') == 'legacy-prohibited' and status.get('C03-F1') == 'known' \
            and case.get('has_prohibited'):
        return 'C03-F1'
    if detail.get('explained_by') == 'first-group-pc' and status.get('C03-F2') == 'known' \
            and case.get('pc_conflict'):
        return 'C03-F2'
    return None


# ---------------------------------------------------------------- one declaration set
OPTS = [(True, False), (False, False), (True, True), (False, True)]


def choose_value(rng, it: dict, n: tuple) -> str:
    if n in it['uses']:
        u = it['uses'][n]
        ty = u['ty']
        if u['fixed'] is not None and rng.random() < 0.7:
            same = [lex for lex, ok, val in CATALOGUE[ty][1] if value_eq(ty, lex, u['fixed'])]
            return rng.choice(same + [u['fixed']])
    elif n in it['globals']:
        ty = it['globals'][n][0]
        if n == (XSI, 'nil'):
            return rng.choice(['true', 'false', '1'])
    else:
        # prohibited declarations keep their type in the pinned code: draw from a mixed bag
        return rng.choice(['3', '3', '5', 'x'])
    entries = CATALOGUE[ty][1]
    good = [lex for lex, ok, _ in entries if ok]
    return rng.choice(good) if rng.random() < 0.8 else rng.choice([lex for lex, _, _ in entries])


def run_set(ctx: Ctx, drv: Optional[Driver], s: dict, v11: bool, tmp: Path, subsets: Optional[list] = None,
            values: Optional[dict] = None) -> None:
    from xmlschema import XMLSchemaException
    ver = '1.1' if v11 else '1.0'
    case0 = {'v': ver, 'set': s}
    try:
        b = Built(s, v11, tmp)
    except XMLSchemaException as e:
        ctx.count('schema-refused')
        ctx.failure('generated schema refused by the library', case0, {'error': type(e).__name__,
                                                                      'message': str(e)[:300]})
        return
    it = intended(s)
    # shared attribute groups keep their own wildcard whatever other types combine them with
    for gname in ('AG1', 'AG2'):
        if gname in s['wilds']:
            alone = b.schema.elements['alone' + gname].type.attributes.get(None)
            c = s['wilds'][gname]['c']
            names_u = [('', 'zz'), (T, 'zz'), (F, 'zz'), (U, 'zz'), ('urn:fresh', 'zz')]
            got = None if alone is None else [bool(alone.is_matching('{%s}%s' % n if n[0] else n[1])) for n in names_u]
            want = [den_q(c, n) for n in names_u]
            if got != want:
                ctx.failure('the wildcard of an attribute group used alone differs from its declared constraint '
                            '(changed by being combined in another type?)', dict(case0, group=gname),
                            {'declared': c, 'admits': dict(zip(['absent', 'tns', 'urn:f', 'urn:u', 'fresh'], got or []))})
    g = introspect_group(b)
    if g is None:
        ctx.failure('built group cannot be expressed in the model (type outside the catalogue / malformed '
                    'wildcard)', case0)
        return
    has_prohibited = any(d['use'] == 'prohibited' for d in g['decls'])
    pc_conflict = bool(it['wild'] and 'own' in s['wilds'] and it['wild']['pc_first_group'] not in
                       (None, it['wild']['pc']))
    case0['has_prohibited'] = has_prohibited
    case0['pc_conflict'] = pc_conflict
    glue_known = check_glue(ctx, b, it, g, case0)
    ctx.count(f'{ver}/sets')
    ctx.count('decls:%d' % len(g['decls']))
    ctx.count('wildcard:' + (g['any']['pc'] if g['any'] else 'none'))
    names = pool(s)
    masks = subsets if subsets is not None else range(1 << len(names))
    cases = []
    for mask in masks:
        if isinstance(mask, int):
            present = [n for i, n in enumerate(names) if mask >> i & 1]
            ctx.rng.shuffle(present)
            attrs = [[list(n), choose_value(ctx.rng, it, n)] for n in present]
        else:
            attrs = mask            # replay: explicit attribute list
        cases.append(attrs)
    if subsets is None:
        # second family: mostly-valid sets (every required attribute present, only admitted names, values that
        # keep the set valid), grown greedily with the independent reading as the guide
        for _ in range(ctx.pick(48, 96)):
            attrs = []
            order = [n for n in names]
            ctx.rng.shuffle(order)
            order.sort(key=lambda n: not (n in it['uses'] and it['uses'][n]['use'] == 'required'))
            for n in order:
                req = n in it['uses'] and it['uses'][n]['use'] == 'required'
                if not req and ctx.rng.random() < 0.4:
                    continue
                for _try in range(3):
                    cand = attrs + [[list(n), choose_value(ctx.rng, it, n)]]
                    if spec_eval(it, cand, True, False)['ok'] or (req and _try == 2):
                        attrs = cand
                        break
            if ctx.rng.random() < 0.15 and attrs:
                k = ctx.rng.randrange(len(attrs))           # then spoil one value
                attrs[k] = [attrs[k][0], choose_value(ctx.rng, it, tuple(attrs[k][0]))]
            ctx.rng.shuffle(attrs)
            cases.append(attrs)
    # prohibited + fixed declarations as live optional uses (characterisation of C03-F1 only)
    live = {tuple(d['n']): {'use': 'optional', 'fixed': d['fixed'], 'default': d['default'], 'ty': d['ty']}
            for d in g['decls'] if d['use'] == 'prohibited'}
    answers = None
    if drv is not None:
        req = {'decls': g['decls'], 'any': g['any'], 'globals': g['globals'], 'loaded': g['loaded'],
               'cases': cases, 'opts': [list(o) for o in OPTS], 'valid': VALID_TABLE, 'cls': CLS_TABLE,
               'both': has_prohibited}
        answers = drv.query([req])[0]
        if 'err' in answers:
            ctx.mismatch('driver error', case0, None, answers)
            answers = None
    for ci, attrs in enumerate(cases):
        case = {'v': ver, 'xsd': b.xsd, 'attrs': attrs, 'set': s, 'has_prohibited': has_prohibited,
                'pc_conflict': pc_conflict}
        key = {'v': ver, 'group': g['decls'], 'any': g['any'], 'attrs': attrs}
        nontrivial = False
        kinds: set = set()
        for oi, (ud, fm) in enumerate(OPTS):
            real = real_run(b, attrs, ud, fm)
            case_o = dict(case, use_defaults=ud, fill_missing=fm)
            kinds.update(e[0] for e in real['errors'])
            m = answers['res'][ci][oi] if answers is not None else None
            # what the library would answer without finding C03-F1: the repaired Lean port's result, used
            # only when the library's result equals the pinned port's (exact matcher of DESIGN 2.6)
            without_f1 = None
            if m is not None and has_prohibited and 'leg' in m and agrees(m['leg'], real) \
                    and not agrees(m['rep'], real):
                without_f1 = model_as_real(m['rep'])
            # ---- (3) the property on the real code, from the intended declarations
            sp = spec_eval(it, attrs, ud, fm)
            problems = judge(sp, real)
            if problems:
                sp2 = None
                if pc_conflict and b.group._attribute_group[None].process_contents == it['wild']['pc_first_group']:
                    sp2 = spec_eval(it, attrs, ud, fm, pc_override=it['wild']['pc_first_group'])
                expl: list = []
                if sp2 is not None and not judge(sp2, real):
                    expl = ['first-group-pc']
                elif without_f1 is not None and not judge(sp, without_f1):
                    expl = ['legacy-prohibited']
                elif without_f1 is not None and sp2 is not None and not judge(sp2, without_f1):
                    expl = ['legacy-prohibited', 'first-group-pc']
                elif m is None and has_prohibited and not judge(
                        spec_eval(it, attrs, ud, fm, prohibited_live=live), real):
                    expl = ['legacy-prohibited']      # Lean unavailable: approximate python reading
                fids = [known_match(case_o, {'explained_by': x}) for x in expl]
                if fids and all(fids):
                    for fid in fids:
                        ctx.known_hit(fid)
                else:
                    ctx.failure(problems[0], case_o, {'problems': problems, 'real': real,
                                                       'expected_valid': sp['ok'],
                                                       'expected_decoded': sorted(map(str, sp['out'].items())),
                                                       'expected_absent': sorted(map(str, sp['absent'].items()))})
            # ---- (2) implementation vs Lean model
            if m is not None:
                ctx.traces += 1
                if not agrees(m['rep'], real):
                    if without_f1 is not None and known_match(case_o, {'explained_by': 'legacy-prohibited'}):
                        ctx.known_hit('C03-F1')
                    else:
                        ctx.mismatch('attribute group decode', case_o,
                                     {'errors': real['errors'],
                                      'decoded': [[n, repr(v)] for n, v in real['decoded']]}, m['rep'])
                if m['rep']['decoded'] and any(i[2] != 't' for i in m['rep']['decoded']):
                    nontrivial = True
            if real['errors']:
                nontrivial = True
        if any(tuple(n) in it['uses'] and it['uses'][tuple(n)]['fixed'] is not None for n, _ in attrs) or \
                any(n not in {tuple(x) for x, _ in attrs} and (u['fixed'] is not None or u['default'] is not None)
                    for n, u in it['uses'].items()) or has_prohibited:
            nontrivial = True
        ctx.case(key, nontrivial, tag=f'{ver}/cases')
        ctx.count('present:%d' % len(attrs))
        for k in kinds:
            ctx.count('err:' + k)
        if not kinds:
            ctx.count('valid')


def judge(sp: dict, real: dict) -> list[str]:
    """What the property demands (sp) against what the real code did.  Empty list = property holds."""
    problems = []
    if real['valid'] != sp['ok']:
        problems.append('attribute set %s by the library but %s by the property' % (
            'accepted' if real['valid'] else 'rejected', 'invalid' if real['valid'] else 'valid'))
    got = {tuple(n): v for n, v in real['decoded']}
    if sp['ok']:
        # values of present attributes are constrained for valid sets
        for n, v in sp['out'].items():
            if n not in got:
                problems.append('decoded data lack the present attribute %s' % (n,))
            elif not same_value(got[n], v):
                problems.append('decoded value of %s is %r, expected %r' % (n, got[n], v))
        for n in sp['skipped']:
            if n in got:
                problems.append('attribute %s admitted under processContents=skip is reported' % (n,))
    # absent-attribute clauses hold for every set
    for n, v in sp['absent'].items():
        if n not in got:
            problems.append('absent attribute %s with a fixed/default value is not reported' % (n,))
        elif not same_value(got[n], v):
            problems.append('absent attribute %s reported as %r, expected %r' % (n, got[n], v))
    for n in sp['none']:
        if n not in got or got[n] is not None:
            problems.append('fill_missing did not report absent %s as None' % (n,))
    for n in got:
        if n in sp['present'] or n in sp['absent'] or n in sp['none']:
            continue
        if n in sp['may_none'] and got[n] is None:
            continue
        problems.append('decoded data contain the absent attribute %s (value %r) which has no applicable '
                        'fixed/default value and no filler was requested for it' % (n, got[n]))
    return problems


def model_as_real(m: dict) -> dict:
    return {'errors': m['errors'], 'decoded': [[item[:2], model_value(item)] for item in m['decoded']],
            'valid': not m['errors']}


def agrees(m: dict, real: dict) -> bool:
    if m['errors'] != real['errors']:
        return False
    if len(m['decoded']) != len(real['decoded']):
        return False
    for item, (n, v) in zip(m['decoded'], real['decoded']):
        if item[:2] != n or not same_value(model_value(item), v):
            return False
    return True


# ---------------------------------------------------------------- entry points
def explore(ctx: Ctx, drv: Optional[Driver], n_sets: int) -> None:
    tmp = Path(tempfile.mkdtemp(prefix='verif-c03-'))
    try:
        (tmp / 'f.xsd').write_text(FOREIGN_XSD)
        corpus = sorted((VERIF / 'corpus' / 'C03').glob('*.json')) if (VERIF / 'corpus' / 'C03').exists() else []
        for p in corpus:
            obj = json.loads(p.read_text())
            run_set(ctx, drv, obj['set'], obj['v'] == '1.1', tmp, subsets=[obj['attrs']] if 'attrs' in obj else None)
        for v11 in (False, True):
            for _ in range(n_sets):
                s = gen_set(ctx.rng, v11)
                run_set(ctx, drv, s, v11, tmp)
    finally:
        shutil.rmtree(tmp, ignore_errors=True)


def run(ctx: Ctx, driver_ok: bool) -> None:
    for e in load_findings():
        if not any(k['id'] == e['id'] for k in ctx.known):
            ctx.known.append(e)          # core only reads /verif/known_findings.json (integrator merges later)
    drv = Driver('drv_c03') if driver_ok else None
    explore(ctx, drv, ctx.pick(60, 600))
    ctx.extra['exhaustive'] = False
    ctx.extra['explanation'] = ('declaration sets are seeded random; for each set the subset dimension (256 '
                                'subsets of the 8-name pool) is exhaustive, values are drawn from the catalogue')


def search(ctx: Ctx) -> None:
    if ctx.quick():
        explore(ctx, None, 150)


def replay(ctx: Ctx, obj: dict) -> int:
    print(json.dumps({k: v for k, v in obj.items() if k != 'input'}, indent=1)[:3000])
    case = obj.get('input')
    if not case or 'set' not in case:
        return 0
    tmp = Path(tempfile.mkdtemp(prefix='verif-c03-'))
    try:
        (tmp / 'f.xsd').write_text(FOREIGN_XSD)
        for e in load_findings():
            ctx.known.append(e)
        print('schema:\n' + xsd_text(case['set']))
        print('attributes:', case.get('attrs'))
        drv = Driver('drv_c03') if (VERIF / 'lean/.lake/build/bin/drv_c03').exists() else None
        run_set(ctx, drv, case['set'], case['v'] == '1.1', tmp,
                subsets=[case['attrs']] if 'attrs' in case else None)
    finally:
        shutil.rmtree(tmp, ignore_errors=True)
    for f in ctx.failures:
        print('FAILS ON THE REAL CODE:', f['what'], json.dumps(f['detail'], default=str)[:1500])
    for m in ctx.mismatches:
        print('MODEL != IMPLEMENTATION:', m['correspondence'], 'impl=', m['impl'], 'model=', m['model'])
    if ctx.known_hits:
        print('explained by known finding(s):', ctx.known_hits)
    print('judgement:', 'property violated' if ctx.failures else 'property holds on this input')
    return 1 if ctx.failures else 0
