"""
C10 — validation results never depend on what the schema object processed before.

Seeded call histories (is_valid / iter_errors / strict validate / decode lax+strict / to_objects / encode /
stop-validation hook / lazy iter_errors) over pools of documents (xsi:type + identity constraints, wildcards,
fixed values, ID/IDREF, XSD 1.1 assertions) are run on ONE shared schema object.  After every call

  * the result (verdict, errors as (class, path, reason), decoded data / encoded XML) is compared with the
    result of the same call on a FRESH schema object            -> the property itself, on the real code;
  * the observable residue of the shared object (`xsi_types` of every element declaration, additions to
    `identity.elements` of every constraint) is compared with the residue the Lean model
    (XsVerif/Model/History.lean, `after … gated=true`) computes for the same history from the residue-relevant
    steps of each call (xsi:type uses with the set of enabled constraints, extracted from the real walk with a
    validation hook; aborted calls contribute the prefix they processed)   -> correspondence I <-> M.

A difference between shared and fresh results is a failing input unless the Lean model of the code as it is
predicts a difference for that document after that history (finding C10-F1, exact rule in `known_match`).
"""
from __future__ import annotations

import json
import re
from typing import Any, Optional
from xml.etree import ElementTree as ET

from harness.core import Ctx, Driver, VERIF

PROPS = 'XsVerif.Props.C10'
AUDIT = 'XsVerif.Audit.C10'
LEAN_TARGETS = ['XsVerif.Props.C10', 'drv_c10']
LEANCHECK = ['XsVerif.Model.History', 'XsVerif.Props.C10']
RULE = ('a case is one (schema pool, history of (operation, document) calls) pair, every call of it is compared with '
        'a fresh schema object; non-trivial = the history contains at least one aborted or invalid call and at least '
        'one call whose document uses xsi:type inside an identity-constraint scope (or, for pools without xsi:type, an '
        'invalid document followed by a valid one); distinct by canonical JSON of the history')
TRUSTED = ['the residue-relevant steps of a call (xsi:type uses and the constraints enabled at that point) are extracted '
           'from the real walk by a validation hook; `widen` (what update_elements adds for a declaration/type pair) is '
           'evaluated read-only with the library\'s own selector tokens on a separate fresh schema object',
           'memo caches and the scratch validation context are modelled (theorems) but only observed through results']
ASSUMPTIONS = ['hypothesis SelfSufficient of history_neutral: an element reachable only through an xsi:type substitution '
               'occurs below an element carrying that xsi:type inside the constraint\'s scope (true of every valid instance)']
FINDINGS_FILE = VERIF / 'notes' / 'findings' / 'C10.json'
XSI = 'http://www.w3.org/2001/XMLSchema-instance'
XS = 'http://www.w3.org/2001/XMLSchema'

# ------------------------------------------------------------------------------------------------
# pools
# ------------------------------------------------------------------------------------------------
S1 = f'''<xs:schema xmlns:xs="{XS}">
<xs:element name="root"><xs:complexType><xs:choice minOccurs="0" maxOccurs="unbounded">
  <xs:element name="secA"><xs:complexType><xs:sequence><xs:element ref="item" minOccurs="0" maxOccurs="unbounded"/></xs:sequence></xs:complexType>
     <xs:unique name="ua"><xs:selector xpath=".//x"/><xs:field xpath="@v"/></xs:unique></xs:element>
  <xs:element name="secB"><xs:complexType><xs:sequence><xs:element ref="item" minOccurs="0" maxOccurs="unbounded"/>
        <xs:element name="other" type="Ext2" minOccurs="0"/></xs:sequence></xs:complexType>
     <xs:unique name="ub"><xs:selector xpath=".//x"/><xs:field xpath="@v"/></xs:unique>
     <xs:key name="kb"><xs:selector xpath=".//y"/><xs:field xpath="@v"/></xs:key></xs:element>
  <xs:element name="fix" type="xs:integer" fixed="7"/>
  <xs:element name="bl" type="Base" block="extension"/>
  <xs:element name="nl" type="xs:integer" nillable="true"/>
  <xs:element ref="head"/>
  <xs:element name="open"><xs:complexType><xs:sequence><xs:any namespace="##other" processContents="lax" minOccurs="0" maxOccurs="unbounded"/></xs:sequence>
      <xs:attribute name="id" type="xs:ID"/><xs:attribute name="ref" type="xs:IDREF"/></xs:complexType></xs:element>
</xs:choice></xs:complexType></xs:element>
<xs:element name="item" type="Base"/>
<xs:element name="head" type="Base" block="substitution"/>
<xs:element name="memb" type="Ext" substitutionGroup="head"/>
<xs:complexType name="Base"><xs:sequence/><xs:attribute name="n" type="xs:decimal"/></xs:complexType>
<xs:complexType name="Ext"><xs:complexContent><xs:extension base="Base"><xs:sequence>
   <xs:element name="x" maxOccurs="unbounded"><xs:complexType><xs:attribute name="v" type="xs:integer"/></xs:complexType></xs:element>
</xs:sequence></xs:extension></xs:complexContent></xs:complexType>
<xs:complexType name="Ext2"><xs:complexContent><xs:extension base="Base"><xs:sequence>
   <xs:element name="y" maxOccurs="unbounded"><xs:complexType><xs:attribute name="v" type="xs:integer"/></xs:complexType></xs:element>
</xs:sequence></xs:extension></xs:complexContent></xs:complexType>
<xs:complexType name="Bad"><xs:sequence/></xs:complexType>
</xs:schema>'''


def _item(t, vals, tag='x'):
    return f'<item xsi:type="{t}">' + ''.join(f'<{tag} v="{v}"/>' for v in vals) + '</item>'


def _root(body):
    return f'<root xmlns:xsi="{XSI}" xmlns:o="urn:o">{body}</root>'


D1 = [
    _root('<secA>' + _item('Ext', [1, 1]) + '</secA>'),                                  # dup in A
    _root('<secA>' + _item('Ext', [1, 2]) + '</secA>'),                                  # ok A
    _root('<secB>' + _item('Ext', [1, 1]) + '</secB>'),                                  # dup in B
    _root('<secB>' + _item('Ext', [3, 4]) + '</secB>'),                                  # ok B
    _root('<secB>' + _item('Ext2', [5, 5], 'y') + '</secB>'),                            # dup key in B via Ext2
    _root('<secA>' + _item('Ext2', [5, 5], 'y') + '</secA>'),                            # Ext2 in A: no constraint on y
    _root('<secA>' + _item('Ext', [1, 2]) + '</secA><secB>' + _item('Ext', [2, 2]) + '</secB>'),
    _root('<secB><item/><other><y v="1"/><y v="1"/></other></secB>'),                    # static binding dup
    _root('<secA><item n="1.0"/><item n="x"/></secA>'),                                  # decode error
    _root('<secA>' + _item('Bad', []) + '</secA>'),                                      # xsi:type not derived
    _root('<fix>7</fix><fix>07</fix>'),
    _root('<fix>8</fix>'),
    _root('<open id="a" ref="a"><o:any/></open><open id="b"/>'),
    _root('<open id="a"/><open id="a" ref="zz"/>'),
    _root('<secB>' + _item('Ext', [1, 1]) + '</secB><bogus/>'),                          # children error after dup
    _root(''),
    _root('<secA><item/></secA><secB>' + _item('Ext', [6, 7]) + '</secB>'),              # ua's counter exists but is disabled
    _root('<secB>' + _item('Ext', [8, 8]) + '</secB><secA>' + _item('Ext', [9, 9]) + '</secA>'),
    # per-occurrence checks that a schema-level "already seen" record must never short-cut
    _root('<bl xsi:type="Ext"><x v="1"/></bl>'),                                         # xsi:type blocked by the element
    _root('<bl/><bl xsi:type="Ext"/>'),
    _root('<secA>' + _item('Ext', [1, 2]) + '</secA><bl xsi:type="Ext"><x v="3"/></bl>'),  # same type: fine under item, blocked under bl
    _root('<nl xsi:nil="true"/><nl xsi:nil="true">5</nl><nl>6</nl>'),
    _root('<memb><x v="1"/></memb>'),                                                   # substitution blocked by the head
    _root('<head/>'),
]

S2 = f'''<xs:schema xmlns:xs="{XS}" xmlns:vc="http://www.w3.org/2007/XMLSchema-versioning" elementFormDefault="qualified">
<xs:element name="doc"><xs:complexType><xs:sequence>
  <xs:element name="rng" minOccurs="0" maxOccurs="unbounded"><xs:complexType>
     <xs:attribute name="lo" type="xs:integer" use="required"/><xs:attribute name="hi" type="xs:integer" use="required"/>
     <xs:attribute name="unit" type="xs:string" fixed="m"/>
     <xs:assert test="@lo le @hi"/></xs:complexType></xs:element>
  <xs:element name="grp" minOccurs="0" maxOccurs="unbounded" type="G"/>
  <xs:any namespace="##other" processContents="lax" minOccurs="0" maxOccurs="unbounded"/>
</xs:sequence></xs:complexType>
  <xs:key name="gk"><xs:selector xpath="grp/m"/><xs:field xpath="@k"/></xs:key>
  <xs:keyref name="gr" refer="gk"><xs:selector xpath="grp/m"/><xs:field xpath="@r"/></xs:keyref>
</xs:element>
<xs:complexType name="G"><xs:sequence><xs:element name="m" minOccurs="0" maxOccurs="unbounded"><xs:complexType>
   <xs:attribute name="k" type="xs:integer" use="required"/><xs:attribute name="r" type="xs:integer"/></xs:complexType></xs:element></xs:sequence></xs:complexType>
<xs:complexType name="G2"><xs:complexContent><xs:extension base="G"><xs:sequence>
   <xs:element name="extra" type="xs:date" minOccurs="0"/></xs:sequence>
   <xs:assert test="count(m) ge 1"/></xs:extension></xs:complexContent></xs:complexType>
</xs:schema>'''


def _doc(body):
    return f'<doc xmlns:xsi="{XSI}" xmlns:o="urn:o">{body}</doc>'


D2 = [
    _doc('<rng lo="1" hi="2"/><rng lo="3" hi="3" unit="m"/>'),
    _doc('<rng lo="5" hi="2"/>'),                                                        # assertion fails
    _doc('<rng lo="1" hi="2" unit="km"/>'),                                              # fixed attribute
    _doc('<grp><m k="1"/><m k="2" r="1"/></grp>'),
    _doc('<grp><m k="1"/><m k="1"/></grp>'),                                             # dup key
    _doc('<grp><m k="1" r="9"/></grp>'),                                                 # dangling keyref
    _doc('<grp xsi:type="G2"><m k="1"/><extra>2020-01-01</extra></grp>'),
    _doc('<grp xsi:type="G2"/>'),                                                        # assertion of G2 fails
    _doc('<grp xsi:type="G2"><m k="4"/><extra>nope</extra></grp>'),
    _doc('<o:x a="1"><o:y/></o:x>'),
    _doc('<rng lo="a" hi="2"/>'),
    _doc(''),
]

POOLS = [('xsi+identity+wildcard+fixed+ID (1.0)', '1.0', S1, D1), ('assert+fixed+wildcard+keyref+xsi (1.1)', '1.1', S2, D2)]
OPS = ['is_valid', 'iter_errors', 'validate', 'decode', 'decode_strict', 'to_objects', 'encode', 'stop', 'lazy']


def make_schema(version: str, text: str):
    import xmlschema
    return (xmlschema.XMLSchema11 if version == '1.1' else xmlschema.XMLSchema10)(text)


# ------------------------------------------------------------------------------------------------
# canonical results
# ------------------------------------------------------------------------------------------------
ADDR = re.compile(r' at 0x[0-9a-fA-F]+')


def canon_err(e) -> list:
    return [type(e).__name__, getattr(e, 'path', None) or '', ADDR.sub('', str(getattr(e, 'reason', None) or e))[:300]]


def canon_data(x: Any) -> Any:
    return json.loads(json.dumps(x, default=lambda o: ADDR.sub('', repr(o)), sort_keys=False))


def canon_obj(o: Any) -> Any:
    if o is None:
        return None
    try:
        return [o.tag, ADDR.sub('', repr(o.value)), sorted((k, ADDR.sub('', repr(v))) for k, v in o.attrib.items()),
                [canon_obj(c) for c in o]]
    except AttributeError:
        return ADDR.sub('', repr(o))


def perform(schema, op: str, xml: str, stop_at: int, counter: Optional[list] = None, encode_src: Any = None) -> Any:
    """run one operation; returns a canonical, comparable result.  `counter` receives the number of elements
    whose processing started (validation hook)."""
    import xmlschema
    from xmlschema import XMLSchemaStopValidation

    n = [0]

    def hook(elem, xsd_element):
        n[0] += 1
        if op == 'stop' and n[0] >= stop_at:
            raise XMLSchemaStopValidation()
        return False

    try:
        if op == 'is_valid':
            out: Any = ['verdict', bool(schema.is_valid(xml, validation_hook=hook))]
        elif op in ('iter_errors', 'stop'):
            out = ['errors', sorted(canon_err(e) for e in schema.iter_errors(xml, validation_hook=hook))]
        elif op == 'lazy':
            res = xmlschema.XMLResource(xml, lazy=True)
            out = ['errors', sorted(canon_err(e) for e in schema.iter_errors(res, validation_hook=hook))]
        elif op == 'validate':
            schema.validate(xml, validation_hook=hook)
            out = ['ok']
        elif op == 'decode':
            data, errs = schema.decode(xml, validation='lax', validation_hook=hook)
            out = ['data', canon_data(data), sorted(canon_err(e) for e in errs)]
        elif op == 'decode_strict':
            out = ['data', canon_data(schema.decode(xml, validation_hook=hook))]
        elif op == 'to_objects':
            obj, errs = schema.to_objects(xml, validation='lax', validation_hook=hook)
            out = ['objects', canon_obj(obj), sorted(canon_err(e) for e in errs)]
        elif op == 'encode':
            elem, errs = schema.encode(encode_src, validation='lax')
            out = ['xml', ET.tostring(elem, encoding='unicode') if elem is not None else None,
                   sorted(canon_err(e) for e in errs)]
        else:
            raise ValueError(op)
    except xmlschema.XMLSchemaException as e:
        out = ['raised', canon_err(e)]
    except (KeyError, AttributeError, TypeError, ValueError) as e:
        # not a library error (e.g. KeyError in lazy identity merging): for C10 only sameness matters
        out = ['raised', ['foreign:' + type(e).__name__, '', ADDR.sub('', str(e))[:200]]]
    if counter is not None:
        counter.append(n[0])
    return out


# ------------------------------------------------------------------------------------------------
# residue: observation on the real object, and the steps of a document for the model
# ------------------------------------------------------------------------------------------------
class Pool:
    def __init__(self, name: str, version: str, xsd: str, docs: list[str]):
        from xmlschema.validators import XsdElement
        from xmlschema.validators.identities import XsdIdentity
        self.name, self.version, self.xsd, self.docs = name, version, xsd, docs
        self.ref = make_schema(version, xsd)           # never used for validation: introspection only
        comps = list(self.ref.iter_components())
        self.n = len(comps)
        self.idents_idx = [i for i, c in enumerate(comps) if isinstance(c, XsdIdentity)]
        self.elems_idx = [i for i, c in enumerate(comps) if isinstance(c, XsdElement)]
        self.base = self.observe(self.ref)['bound_all']
        self.fresh_cache: dict = {}
        self.steps_cache: dict = {}
        self.widen: dict = {}
        self.complex: set = set()

    def index(self, schema) -> dict:
        return {id(c): i for i, c in enumerate(schema.iter_components())}

    def key(self, idx: dict, e) -> int:
        e = e.ref if getattr(e, 'ref', None) is not None else e
        return idx[id(e)]

    def observe(self, schema) -> dict:
        comps = list(schema.iter_components())
        idx = {id(c): i for i, c in enumerate(comps)}
        xsi = set()
        for i in self.elems_idx if hasattr(self, 'elems_idx') else range(len(comps)):
            e = comps[i]
            if getattr(e, 'ref', None) is None and hasattr(e, 'xsi_types'):
                for t in e.xsi_types:
                    if id(t) in idx:          # (the proposed repair also stores (type, identity) pairs here)
                        xsi.add((i, idx[id(t)]))
        bound = set()
        for i, c in enumerate(comps):
            if hasattr(c, 'selector') and hasattr(c, 'elements') and hasattr(c, 'fields'):
                for e in c.elements:
                    bound.add((i, self.key(idx, e)))
        base = getattr(self, 'base', set())
        return {'xsi': sorted(xsi), 'bound': sorted(bound - base), 'bound_all': bound}

    def steps(self, di: int) -> tuple[list, list]:
        """residue-relevant steps of document di, from the walk of a fresh schema object:
        returns (steps, positions) where positions[k] = number of steps processed once the first k
        elements have been started (and everything before the (k+1)-th)."""
        if di in self.steps_cache:
            return self.steps_cache[di]
        from elementpath import XPathContext
        from xmlschema.validators import XsdElement
        from xmlschema.xpath import XPathElement
        schema = make_schema(self.version, self.xsd)
        idx = self.index(schema)
        comps = list(schema.iter_components())
        root = ET.fromstring(self.docs[di])
        pairs: dict = {}
        order: list = []

        def hook(elem, xe):
            if id(elem) not in pairs:
                pairs[id(elem)] = xe
                order.append(elem)
            return False

        list(schema.iter_errors(root, validation_hook=hook))
        # a second untouched object for evaluating `widen`
        clean = make_schema(self.version, self.xsd)
        ccomps = list(clean.iter_components())
        cidx = self.index(clean)
        steps: list = []
        started_at: dict = {}
        nsmap = {'xsi': XSI}

        def walk(e, open_cons):
            xe = pairs.get(id(e))
            if xe is None:
                return
            if id(xe.ref if getattr(xe, 'ref', None) is not None else xe) not in idx:
                return          # element built on the fly (lax wildcard content): no declaration of the schema
            started_at[id(e)] = len(steps)
            cons = open_cons + [idx[id(c)] for c in xe.identities]
            d = self.key(idx, xe)
            tname = e.attrib.get('{%s}type' % XSI)
            if tname is not None:
                try:
                    t = schema.maps.get_instance_type(tname.strip(), xe.type, nsmap)
                    usable = not t.is_blocked(xe)
                except (KeyError, TypeError):
                    usable = False
                if usable:
                    ti = idx[id(t)]
                    if t.has_complex_content():
                        self.complex.add(ti)
                    for c in cons:
                        if (c, d, ti) not in self.widen:
                            ident = ccomps[c]
                            ct = ccomps[ti]
                            xp = XPathElement(ccomps[d].name, ct)
                            ctx = XPathContext(clean.xpath_node, item=xp.xpath_node)
                            got = []
                            for r in ident.selector.token.select_results(ctx):
                                if isinstance(r, XsdElement) and r.name is not None:
                                    got.append(self.key(cidx, r))
                            self.widen[(c, d, ti)] = sorted(set(got))
                    steps.append(['x', d, ti, cons])
            for k in e:
                walk(k, cons)
            for c in cons:
                steps.append(['c', d, c])

        walk(root, [])
        positions = [0]
        for k, e in enumerate(order):
            nxt = started_at.get(id(order[k + 1]), None) if k + 1 < len(order) else None
            positions.append(nxt if nxt is not None else len(steps))
        # positions[k] for k started elements: steps strictly before element k+1 starts; the xsiType step of the
        # k-th element itself is at started_at[k]
        self.steps_cache[di] = (steps, [started_at.get(id(e), 0) for e in order] + [len(steps)])
        return self.steps_cache[di]

    def fresh(self, op: str, di: int, stop_at: int) -> Any:
        key = (op, di, stop_at if op == 'stop' else 0)
        if key not in self.fresh_cache:
            schema = make_schema(self.version, self.xsd)
            src = None
            if op == 'encode':
                src = self.encode_source(di)
            self.fresh_cache[key] = perform(schema, op, self.docs[di], stop_at, None, src)
        return self.fresh_cache[key]

    def encode_source(self, di: int) -> Any:
        key = ('encsrc', di)
        if key not in self.fresh_cache:
            schema = make_schema(self.version, self.xsd)
            data, _ = schema.decode(self.docs[di], validation='lax')
            self.fresh_cache[key] = data
        return self.fresh_cache[key]

    def sch_json(self) -> dict:
        return {'complex': sorted(self.complex),
                'widen': [[c, d, t, w] for (c, d, t), w in sorted(self.widen.items())],
                'base': []}


def processed_steps(pool: Pool, op: str, di: int, started: int, raised: bool, stop_at: int = 0) -> list:
    """the steps of document di a call has processed, given how many elements were started"""
    steps, starts = pool.steps(di)
    if op == 'encode':
        return []
    nel = len(starts) - 1
    if op == 'stop' and started < stop_at:
        return steps                          # the hook never fired
    if op == 'stop' and started <= nel and started >= 1:
        cut = starts[started - 1]             # the hook raised before the xsi:type block of that element
        return [s for s in steps[:cut] if s[0] == 'x']
    if raised and 1 <= started <= nel:
        # strict failure: everything up to and including the xsi:type step of the last started element
        cut = starts[started - 1]
        pre = steps[:cut]
        if cut < len(steps) and steps[cut][0] == 'x':
            pre = pre + [steps[cut]]
        return [s for s in pre if s[0] == 'x']
    return steps


# ------------------------------------------------------------------------------------------------
# findings
# ------------------------------------------------------------------------------------------------
def known_match(case: dict, detail: dict) -> Optional[str]:
    """C10-F1: the result of a call differs from the fresh result AND the Lean model of the code as it is
    predicts, for this document after this history, a `collect` observation that differs from the fresh
    one (an element made reachable by xsi:type is not bound to a constraint because the (declaration, type)
    pair is already in xsi_types), while the repaired algorithm predicts no difference."""
    if detail.get('model_predicts_difference') and detail.get('repaired_predicts_difference') is False:
        return 'C10-F1'
    return None


def load_findings(ctx: Ctx) -> None:
    if FINDINGS_FILE.exists():
        have = {e['id'] for e in ctx.known}
        for e in json.loads(FINDINGS_FILE.read_text()).get('findings', []):
            if e['id'] not in have:
                ctx.known.append(e)


# ------------------------------------------------------------------------------------------------
# one history
# ------------------------------------------------------------------------------------------------
def run_history(ctx: Ctx, pi: int, pool: Pool, hist: list, drv: Optional[Driver], tag: str) -> None:
    try:
        _run_history(ctx, pi, pool, hist, drv, tag)
    except Exception as e:       # noqa: a clean tree never gets here: schema construction or the walk blew up
        import traceback
        ctx.failure('replaying the history raised an unexpected exception (schema construction or a call on a fresh '
                    'object failed after earlier use of the library)', {'pool': pi, 'history': hist},
                    {'exception': repr(e)[:300], 'where': traceback.format_exc()[-600:]})


def _run_history(ctx: Ctx, pi: int, pool: Pool, hist: list, drv: Optional[Driver], tag: str) -> None:
    """hist: list of [op, doc index, stop_at]"""
    case = {'pool': pi, 'history': hist}
    shared = make_schema(pool.version, pool.xsd)
    model_hist: list = []
    reqs: list = []
    meta: list = []
    uses_xsi = any('xsi:type' in pool.docs[di] for _, di, _ in hist)
    bad_before_good = False
    seen_bad = False
    for step_no, (op, di, stop_at) in enumerate(hist):
        cnt: list = []
        src = pool.encode_source(di) if op == 'encode' else None
        got = perform(shared, op, pool.docs[di], stop_at, cnt, src)
        want = pool.fresh(op, di, stop_at)
        raised = got[0] == 'raised'
        invalid = raised or (got[0] == 'verdict' and not got[1]) or (got[0] in ('errors',) and got[1]) or \
            (got[0] in ('data', 'objects', 'xml') and len(got) > 2 and got[2])
        if seen_bad and not invalid:
            bad_before_good = True
        seen_bad = seen_bad or invalid or op == 'stop'
        ctx.count('op:' + op)
        ctx.count('result:' + got[0] + (':invalid' if invalid and got[0] != 'raised' else ''))
        doc_steps = pool.steps(di)[0]
        done = processed_steps(pool, op, di, cnt[0] if cnt else 0, raised, stop_at)
        obs = pool.observe(shared)
        differs = got != want
        if differs:
            ctx.count('differs-from-fresh')
        if drv is not None:
            reqs.append({'sch': None, 'hist': [list(h) for h in model_hist], 'doc': doc_steps if op != 'encode' else []})
            meta.append((step_no, op, di, differs, got, want, obs, done))
        elif differs:
            judge(ctx, case, step_no, got, want,
                  py_predict(pool, model_hist, doc_steps if op != 'encode' else [], True),
                  py_predict(pool, model_hist, doc_steps if op != 'encode' else [], False))
        model_hist.append(done)
    ctx.case(case, (uses_xsi and seen_bad) or bad_before_good, tag=tag)
    ctx.count('len:%d' % len(hist))
    if drv is not None:
        sj = pool.sch_json()
        for r in reqs:
            r['sch'] = sj
        # the residue after the whole history as well: one extra request
        reqs.append({'sch': sj, 'hist': [list(h) for h in model_hist], 'doc': []})
        answers = drv.query(reqs)
        final = answers[-1]
        for (step_no, op, di, differs, got, want, obs, done), ans in zip(meta, answers):
            ctx.traces += 1
            if 'err' in ans:
                ctx.mismatch('driver error ' + str(ans['err']), case, None, ans)
                continue
            # residue after this call = trace[step_no + 1] of the final answer
            tkey = 'trace' if MODE['gated'] else 'trace_repaired'
            tr = final[tkey][step_no + 1] if tkey in final else None
            if tr is not None:
                mres = {'xsi': [tuple(x) for x in tr['xsi']],
                        'bound': sorted(set(tuple(x) for x in tr['bound']) - pool.base)}
                ires = {'xsi': obs['xsi'], 'bound': obs['bound']}
                if mres != ires:
                    ctx.mismatch('residue after call %d (%s)' % (step_no, op), case, ires, mres)
            pm = ans['obs'] != ans['fresh']
            pr = ans['obs_repaired'] != ans['fresh_repaired']
            if not MODE['gated']:
                pm = pr                     # the tree runs the repaired algorithm: no listed deviation applies
            if pm:
                ctx.count('model-predicts-difference')
            if differs:
                judge(ctx, case, step_no, got, want, pm, pr)
            elif pm:
                ctx.count('model-difference-not-observable')


def judge(ctx: Ctx, case: dict, step_no: int, got: Any, want: Any, pm: Optional[bool], pr: Optional[bool]) -> None:
    detail = {'call': step_no, 'shared_schema_result': got, 'fresh_schema_result': want,
              'model_predicts_difference': pm, 'repaired_predicts_difference': pr}
    fid = known_match(case, detail)
    if fid:
        ctx.known_hit(fid)
        ctx.count('known:' + fid)
    else:
        ctx.failure('call %d of the history gives a different result on the used schema object than on a fresh one'
                    % step_no, case, detail)


def random_history(rng, pool: Pool, maxlen: int) -> list:
    n = rng.randint(2, maxlen)
    hist = []
    for _ in range(n):
        op = rng.choice(OPS)
        di = rng.randrange(len(pool.docs))
        hist.append([op, di, rng.randint(1, 4)])
    return hist


WITNESS = (0, [['iter_errors', 0, 1], ['iter_errors', 2, 1]])     # C10-F1: A then B
MODE = {'gated': True}      # which algorithm the tree under check runs (decided by replaying the witness)


def detect_mode(pool: 'Pool') -> None:
    shared = make_schema(pool.version, pool.xsd)
    for op, di, st in WITNESS[1]:
        got = perform(shared, op, pool.docs[di], st)
    MODE['gated'] = got != pool.fresh(op, di, st)


def py_predict(pool: 'Pool', hist: list, doc: list, gated: bool) -> bool:
    """fallback when the Lean driver is unavailable: does the residue model predict a differing `collect`
    observation for `doc` after `hist`?  (same algorithm as Model/History.lean `step`)"""
    def run(res, steps, out):
        xsi, bound = res
        for s in steps:
            if s[0] == 'x':
                _, d, t, en = s
                seen = (d, t) in xsi
                if gated and seen:
                    continue
                if t in pool.complex:
                    for c in en:
                        for d2 in pool.widen.get((c, d, t), []):
                            bound.add((c, d2))
                xsi.add((d, t))
            elif s[0] == 'c' and out is not None:
                out.append((s[2], s[1]) in bound or (s[2], s[1]) in pool.base)
    res = (set(), set())
    for h in hist:
        run(res, h, None)
    a: list = []
    b: list = []
    run(res, doc, a)
    run((set(), set()), doc, b)
    return a != b


def run(ctx: Ctx, driver_ok: bool) -> None:
    load_findings(ctx)
    drv = Driver('drv_c10') if driver_ok else None
    pools = [Pool(*p) for p in POOLS]
    cdir = VERIF / 'corpus' / 'C10'
    if cdir.exists():
        for p in sorted(cdir.glob('*.json')):
            c = json.loads(p.read_text())
            run_history(ctx, c['pool'], pools[c['pool']], c['history'], drv, 'corpus')
    detect_mode(pools[WITNESS[0]])
    ctx.extra['algorithm_under_check'] = 'gated widening (code as pinned)' if MODE['gated'] else 'repaired widening'
    run_history(ctx, WITNESS[0], pools[WITNESS[0]], WITNESS[1], drv, 'witness')
    # exhaustive pairs: every (invalid or aborted first call) x (second call), iter_errors / validate / decode
    for pi, pool in enumerate(pools):
        for d1 in range(len(pool.docs)):
            for d2 in range(len(pool.docs)):
                for op1 in (('iter_errors', 'validate', 'stop') if ctx.quick() else OPS):
                    run_history(ctx, pi, pool, [[op1, d1, 2], ['iter_errors', d2, 1], ['decode', d2, 1]], drv, 'pairs')
            if ctx.time_left() < 200:
                break
    n = ctx.pick(250, 1200)
    maxlen = ctx.pick(12, 60)
    for i in range(n):
        pi = ctx.rng.randrange(len(pools))
        run_history(ctx, pi, pools[pi], random_history(ctx.rng, pools[pi], maxlen), drv, 'random')
        if ctx.time_left() < 120:
            ctx.notes.append(f'random histories cut at {i} by the time budget')
            break
    ctx.extra['explanation'] = ('all ordered pairs of pool documents (first call iter_errors / strict validate / stop hook%s, then '
                                'iter_errors and decode of the second) + %d seeded histories of length <= %d'
                                % ('' if ctx.quick() else ' / every other operation', n, maxlen))


def search(ctx: Ctx) -> None:
    pools = [Pool(*p) for p in POOLS]
    detect_mode(pools[WITNESS[0]])
    d = Driver('drv_c10')
    drv = d if d.path.exists() else None      # the listed finding is recognised through the model's prediction
    for i in range(ctx.pick(300, 2000)):
        pi = ctx.rng.randrange(len(pools))
        run_history(ctx, pi, pools[pi], random_history(ctx.rng, pools[pi], 20), drv, 'search')
        if ctx.failures or ctx.time_left() < 60:
            break


def replay(ctx: Ctx, obj: dict) -> int:
    print(json.dumps({k: v for k, v in obj.items() if k != 'input'}, indent=1, default=str)[:3000])
    case = obj.get('input')
    if not case or 'history' not in case:
        return 0
    load_findings(ctx)
    pools = [Pool(*p) for p in POOLS]
    pool = pools[case['pool']]
    detect_mode(pools[WITNESS[0]])
    print('pool:', pool.name)
    for k, (op, di, st) in enumerate(case['history']):
        print(f'  call {k}: {op}({"stop at element %d, " % st if op == "stop" else ""}document {di}) {pool.docs[di][:160]}')
    drv = Driver('drv_c10')
    run_history(ctx, case['pool'], pool, case['history'], drv if drv.path.exists() else None, 'replay')
    for f in ctx.failures:
        print('FAILS ON THE REAL CODE:', f['what'])
        print('   used schema :', json.dumps(f['detail']['shared_schema_result'])[:600])
        print('   fresh schema:', json.dumps(f['detail']['fresh_schema_result'])[:600])
    for k in ctx.known_hits:
        print('matches listed finding', k)
    return 1 if ctx.failures else 0
