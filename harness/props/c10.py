"""
C10 — validation results never depend on what the schema object processed before.

Seeded call histories (is_valid / iter_errors / strict validate / decode lax+strict / to_objects / encode /
stop-validation hook / lazy iter_errors / KeyboardInterrupt raised by a validation hook / a foreign exception
raised by an extra validator at an element end / an abandoned lazy error generator / KeyboardInterrupt injected
between two statements of the xsi:type block) over pools of documents (xsi:type + identity constraints,
wildcards, substitution groups, fixed values, ID/IDREF, XSD 1.1 assertions) are run on ONE shared schema object.
After every call

  * the result (verdict, errors as (class, path, reason), decoded data / encoded XML, or the exception) is
    compared with the result of the same call on a FRESH schema object       -> the property itself, on the real code;
  * the walk of the call is observed by two probes (the validation hook at every element start, an extra
    validator at every element end; both read `context.identities` from the frame of `raw_decode`): the counters
    (constraint, enabled) in dict order and the constraints of `selected_by` that collect fields at each element
    end are compared with the observations the Lean model (XsVerif/Model/History.lean, `call … .current`) computes
    for the steps of that call after the model's residue of the history         -> correspondence I <-> M (reads);
  * the residue of the shared object — `xsi_types` (types and (type, constraint) pairs), additions to
    `identity.elements` and to `selected_by` — is compared with the model's residue after the same history
    (aborted calls contribute the prefix they processed; calls aborted inside the xsi:type block a budget of
    writes)                                                                  -> correspondence I <-> M (writes);
  * on a sample of the histories a deep fingerprint of the whole object graph of the schema (harness/lib_c10.py)
    is taken before and after every call: every attribute that changed must be one the model accounts for
    (the three above, lru cache sizes growing, lazily computed attributes written once, the clearable fields of
    the scratch validation context)                                          -> nothing else is residue.

  * every call of `maps.loader.load_namespace` (observed by a wrapper set on the loader OBJECT of the schema under
    observation) and every top-level lookup (root; depth-level elements of lazy runs) is a step of the model:
    which wildcard (element / attribute, processContents) met which namespace, whether the declaration lookup was
    attempted and whether THIS call re-created the components are compared with the model's observations
    (`Step.wild`, `Step.nsRead`); the attributes that reach `load_namespace` are compared with an independent port of
    the attribute loop (XsdAttributeGroup.raw_decode / XsdAnyAttribute.raw_decode) evaluated at every element end;
    the set of namespaces loaded on demand is part of the residue comparison, and so is the reset of the recorded
    xsi:type uses by a rebuild                                                -> which lookups consult / extend the loaded set.

  * at every element end, for every collecting constraint, the type of the field selectors that extract the key
    values (the stored selectors of `identity.elements[declaration]` when the element has its declared type, else
    selectors built for the retyped copy) is compared with the model (`Step.fields`, `field_typing_neutral`), and the
    typing of every entry of `identity.elements` is part of the residue comparison (`Inv.cacheOK`: the cache is a
    function of its key).  Pool 3 turns a wrong typing into a wrong RESULT: key values equal in one value space and
    distinct in the other, typed document first / untyped first, through substitution / wildcard / direct.

  * after every call (used object and fresh object) every attribute a call has ADDED to a component must be a memo
    attribute of the table scanned from the source of the tree under check (cached_property / schema_cached_property
    functions, `if self.x is None: self.x = …` lazy fields: harness/lib_c18.scan_caches) and its value must be the one
    every other schema object of the pool holds for that component and — for cached properties — the one recomputed
    on a component no call has touched: a memo is a function of its KEY (`Inv.memo`, `memo_local_breaks_inv`).  An
    attribute outside the table, a changed attribute the model does not account for, or a memo holding two values
    is a FAILURE (`unexplained residue` / `not a function of its key`), not an accepted lazy attribute.

A difference between shared and fresh results is a failing input unless it matches the listed finding C10-F3
(`known_match`): the model of the code as it is predicts a differing observation for that call after that history
AND the namespace lookups of both real runs are the ones the model describes.
"""
from __future__ import annotations

import json
import re
import sys
from typing import Any, Optional
from xml.etree import ElementTree as ET

from harness.core import Ctx, Driver, VERIF
from harness import lib_c10

PROPS = 'XsVerif.Props.C10'
AUDIT = 'XsVerif.Audit.C10'
LEAN_TARGETS = ['XsVerif.Props.C10', 'drv_c10']
LEANCHECK = ['XsVerif.Model.History', 'XsVerif.Lemmas.History', 'XsVerif.Props.C10']
RULE = ('a case is one (schema pool, history of (operation, document) calls) pair, every call of it is compared with '
        'a fresh schema object; non-trivial = the history contains at least one aborted or invalid call and at least '
        'one call whose document uses xsi:type inside an identity-constraint scope (or, for pools without xsi:type, an '
        'invalid document followed by a valid one); distinct by canonical JSON of the history')
TRUSTED = ['the steps of a call (element starts/ends with their declarations, usable xsi:type uses) are extracted from the '
           'real walk by a validation hook and an extra validator; `widen` (what update_elements selects for a '
           'declaration/type pair) is evaluated read-only with the library\'s own selector tokens on a separate fresh '
           'schema object; for lazy runs the counters at each element start/end are taken from the walk (setCtx steps)',
           'memo caches are modelled (theorems) and observed as sizes / write-once attributes by the fingerprint, their '
           'values only through results',
           'namespace lookups are observed by a wrapper on the loader object (which wildcard called is read from the '
           'caller\'s frame); that the rest of a call that loaded a namespace runs on the replaced components is modelled '
           'by the `stale` flag (its writes are lost), the spurious errors it produces are observed through results only']
ASSUMPTIONS = ['guard nsQuiet of history_neutral_partial (decidable, evaluated by the driver for every call): every namespace a '
               'non-skip wildcard or a top-level lookup of the call meets is in the maps since the build or has no location; '
               'neutral_iff_nsQuiet proves the guard is exact for the model, calls outside it are listed finding C10-F3']
FINDINGS_FILE = VERIF / 'notes' / 'findings' / 'C10.json'
XSI = 'http://www.w3.org/2001/XMLSchema-instance'
XS = 'http://www.w3.org/2001/XMLSchema'
XHTML = 'http://www.w3.org/1999/xhtml'
DUMMY = 100000          # declarations created on the fly (no component of the schema)

# ------------------------------------------------------------------------------------------------
# pools
# ------------------------------------------------------------------------------------------------
S1 = f'''<xs:schema xmlns:xs="{XS}">
<xs:element name="root"><xs:complexType><xs:choice minOccurs="0" maxOccurs="unbounded">
  <xs:element name="secA"><xs:complexType><xs:sequence><xs:element ref="item" minOccurs="0" maxOccurs="unbounded"/>
        <xs:element ref="head2" minOccurs="0" maxOccurs="unbounded"/>
        <xs:element name="wrap" minOccurs="0"><xs:complexType><xs:sequence>
           <xs:any namespace="##any" processContents="lax" minOccurs="0" maxOccurs="unbounded"/></xs:sequence></xs:complexType></xs:element>
     </xs:sequence></xs:complexType>
     <xs:unique name="ua"><xs:selector xpath=".//x"/><xs:field xpath="@v"/></xs:unique></xs:element>
  <xs:element name="secB"><xs:complexType><xs:sequence><xs:element ref="item" minOccurs="0" maxOccurs="unbounded"/>
        <xs:element name="other" type="Ext2" minOccurs="0"/></xs:sequence></xs:complexType>
     <xs:unique name="ub"><xs:selector xpath=".//x"/><xs:field xpath="@v"/></xs:unique>
     <xs:key name="kb"><xs:selector xpath=".//y"/><xs:field xpath="@v"/></xs:key></xs:element>
  <xs:element name="fix" type="xs:integer" fixed="7"/>
  <xs:element name="bl" type="Base" block="extension"/>
  <xs:element name="nl" type="xs:integer" nillable="true"/>
  <xs:element ref="head"/>
  <xs:element name="open"><xs:complexType><xs:sequence><xs:any namespace="##other" processContents="lax" minOccurs="0" maxOccurs="unbounded"/></xs:sequence>
      <xs:attribute name="id" type="xs:ID"/><xs:attribute name="ref" type="xs:IDREF"/></xs:complexType></xs:element>
</xs:choice></xs:complexType></xs:element>
<xs:element name="item" type="Base"/>
<xs:element name="head" type="Base" block="substitution"/>
<xs:element name="memb" type="Ext" substitutionGroup="head"/>
<xs:element name="head2" type="Base"/>
<xs:element name="memb2" type="Ext" substitutionGroup="head2"/>
<xs:element name="glob" type="Ext"/>
<xs:complexType name="Base"><xs:sequence/><xs:attribute name="n" type="xs:decimal"/></xs:complexType>
<xs:complexType name="Ext"><xs:complexContent><xs:extension base="Base"><xs:sequence>
   <xs:element name="x" maxOccurs="unbounded"><xs:complexType><xs:attribute name="v" type="xs:integer"/></xs:complexType></xs:element>
</xs:sequence></xs:extension></xs:complexContent></xs:complexType>
<xs:complexType name="Ext2"><xs:complexContent><xs:extension base="Base"><xs:sequence>
   <xs:element name="y" maxOccurs="unbounded"><xs:complexType><xs:attribute name="v" type="xs:integer"/></xs:complexType></xs:element>
</xs:sequence></xs:extension></xs:complexContent></xs:complexType>
<xs:complexType name="Bad"><xs:sequence/></xs:complexType>
</xs:schema>'''


def _item(t, vals, tag='x'):
    return f'<item xsi:type="{t}">' + ''.join(f'<{tag} v="{v}"/>' for v in vals) + '</item>'


def _root(body):
    return f'<root xmlns:xsi="{XSI}" xmlns:o="urn:o">{body}</root>'


D1 = [
    _root('<secA>' + _item('Ext', [1, 1]) + '</secA>'),                                  # dup in A
    _root('<secA>' + _item('Ext', [1, 2]) + '</secA>'),                                  # ok A
    _root('<secB>' + _item('Ext', [1, 1]) + '</secB>'),                                  # dup in B
    _root('<secB>' + _item('Ext', [3, 4]) + '</secB>'),                                  # ok B
    _root('<secB>' + _item('Ext2', [5, 5], 'y') + '</secB>'),                            # dup key in B via Ext2
    _root('<secA>' + _item('Ext2', [5, 5], 'y') + '</secA>'),                            # Ext2 in A: no constraint on y
    _root('<secA>' + _item('Ext', [1, 2]) + '</secA><secB>' + _item('Ext', [2, 2]) + '</secB>'),
    _root('<secB><item/><other><y v="1"/><y v="1"/></other></secB>'),                    # static binding dup
    _root('<secA><item n="1.0"/><item n="x"/></secA>'),                                  # decode error
    _root('<secA>' + _item('Bad', []) + '</secA>'),                                      # xsi:type not derived
    _root('<fix>7</fix><fix>07</fix>'),
    _root('<fix>8</fix>'),
    _root('<open id="a" ref="a"><o:any/></open><open id="b"/>'),
    _root('<open id="a"/><open id="a" ref="zz"/>'),
    _root('<secB>' + _item('Ext', [1, 1]) + '</secB><bogus/>'),                          # children error after dup
    _root(''),
    _root('<secA><item/></secA><secB>' + _item('Ext', [6, 7]) + '</secB>'),              # ua's counter exists but is disabled
    _root('<secB>' + _item('Ext', [8, 8]) + '</secB><secA>' + _item('Ext', [9, 9]) + '</secA>'),
    # per-occurrence checks that a schema-level "already seen" record must never short-cut
    _root('<bl xsi:type="Ext"><x v="1"/></bl>'),                                         # xsi:type blocked by the element
    _root('<bl/><bl xsi:type="Ext"/>'),
    _root('<secA>' + _item('Ext', [1, 2]) + '</secA><bl xsi:type="Ext"><x v="3"/></bl>'),  # same type: fine under item, blocked under bl
    _root('<nl xsi:nil="true"/><nl xsi:nil="true">5</nl><nl>6</nl>'),
    _root('<memb><x v="1"/></memb>'),                                                   # substitution blocked by the head
    _root('<head/>'),
    # NOT self-sufficient documents (finding C10-F2): x reaches the scope of ua without an xsi:type
    _root('<secA><memb2><x v="1"/><x v="1"/></memb2></secA>'),                           # through a substitution group member
    _root('<secA><wrap><glob><x v="2"/><x v="2"/></glob></wrap></secA>'),                # through a lax wildcard
    _root('<secA><wrap><unk xsi:type="Ext"><x v="4"/><x v="4"/></unk></wrap></secA>'),   # xsi:type on an element created on the fly
]

S2 = f'''<xs:schema xmlns:xs="{XS}" xmlns:vc="http://www.w3.org/2007/XMLSchema-versioning" elementFormDefault="qualified">
<xs:element name="doc"><xs:complexType><xs:sequence>
  <xs:element name="rng" minOccurs="0" maxOccurs="unbounded"><xs:complexType>
     <xs:attribute name="lo" type="xs:integer" use="required"/><xs:attribute name="hi" type="xs:integer" use="required"/>
     <xs:attribute name="unit" type="xs:string" fixed="m"/>
     <xs:assert test="@lo le @hi"/></xs:complexType></xs:element>
  <xs:element name="grp" minOccurs="0" maxOccurs="unbounded" type="G"/>
  <xs:any namespace="##other" processContents="lax" minOccurs="0" maxOccurs="unbounded"/>
</xs:sequence></xs:complexType>
  <xs:key name="gk"><xs:selector xpath="grp/m"/><xs:field xpath="@k"/></xs:key>
  <xs:keyref name="gr" refer="gk"><xs:selector xpath="grp/m"/><xs:field xpath="@r"/></xs:keyref>
</xs:element>
<xs:complexType name="G"><xs:sequence><xs:element name="m" minOccurs="0" maxOccurs="unbounded"><xs:complexType>
   <xs:attribute name="k" type="xs:integer" use="required"/><xs:attribute name="r" type="xs:integer"/></xs:complexType></xs:element></xs:sequence></xs:complexType>
<xs:complexType name="G2"><xs:complexContent><xs:extension base="G"><xs:sequence>
   <xs:element name="extra" type="xs:date" minOccurs="0"/></xs:sequence>
   <xs:assert test="count(m) ge 1"/></xs:extension></xs:complexContent></xs:complexType>
</xs:schema>'''


def _doc(body):
    return f'<doc xmlns:xsi="{XSI}" xmlns:o="urn:o">{body}</doc>'


D2 = [
    _doc('<rng lo="1" hi="2"/><rng lo="3" hi="3" unit="m"/>'),
    _doc('<rng lo="5" hi="2"/>'),                                                        # assertion fails
    _doc('<rng lo="1" hi="2" unit="km"/>'),                                              # fixed attribute
    _doc('<grp><m k="1"/><m k="2" r="1"/></grp>'),
    _doc('<grp><m k="1"/><m k="1"/></grp>'),                                             # dup key
    _doc('<grp><m k="1" r="9"/></grp>'),                                                 # dangling keyref
    _doc('<grp xsi:type="G2"><m k="1"/><extra>2020-01-01</extra></grp>'),
    _doc('<grp xsi:type="G2"/>'),                                                        # assertion of G2 fails
    _doc('<grp xsi:type="G2"><m k="4"/><extra>nope</extra></grp>'),
    _doc('<o:x a="1"><o:y/></o:x>'),
    _doc('<rng lo="a" hi="2"/>'),
    _doc(''),
]


# pool 2: element and attribute wildcards of every processContents, documents with names in namespaces that are
# loaded on demand (XLink, XHTML: bundled locations), loaded at build time (xml:, xsi:) or not loadable (urn:o)
XLINK = 'http://www.w3.org/1999/xlink'


def _w(name, pce, pca):
    return (f'<xs:element name="{name}"><xs:complexType><xs:sequence><xs:any namespace="##other" processContents="{pce}" '
            f'minOccurs="0" maxOccurs="unbounded"/></xs:sequence><xs:anyAttribute namespace="##other" '
            f'processContents="{pca}"/></xs:complexType></xs:element>')


S3 = f'''<xs:schema xmlns:xs="{XS}" targetNamespace="urn:t" xmlns:t="urn:t" elementFormDefault="qualified">
<xs:element name="root"><xs:complexType><xs:choice minOccurs="0" maxOccurs="unbounded">
  {_w("eL", "lax", "lax")}{_w("eS", "strict", "strict")}{_w("eK", "skip", "skip")}{_w("mix", "lax", "strict")}
  <xs:element name="it" type="t:Base"/>
  <xs:element name="anyT"/>
</xs:choice><xs:anyAttribute namespace="##other" processContents="lax"/></xs:complexType>
  <xs:unique name="u"><xs:selector xpath="t:it"/><xs:field xpath="@n"/></xs:unique></xs:element>
<xs:complexType name="Base"><xs:attribute name="n" type="xs:integer"/></xs:complexType>
<xs:complexType name="Ext"><xs:complexContent><xs:extension base="t:Base"><xs:attribute name="m" type="xs:integer"/>
  </xs:extension></xs:complexContent></xs:complexType>
</xs:schema>'''


def _t(body, attrs=''):
    return (f'<t:root xmlns:t="urn:t" xmlns:xsi="{XSI}" xmlns:xl="{XLINK}" xmlns:h="{XHTML}" xmlns:o="urn:o"'
            f'{" " + attrs if attrs else ""}>{body}</t:root>')


D3 = [
    _t(''),
    _t('', 'xl:type="simple"'),                                   # lax attribute wildcard, valid for the XLink declaration
    _t('', 'xl:type="bogus"'),                                    # ... invalid
    _t('<t:eL xl:type="bogus" xl:href="u"/>'),
    _t('<t:eS xl:type="simple"/>'),                               # strict attribute wildcard
    _t('<t:eS xl:type="bogus"/>'),
    _t('<t:eK xl:type="bogus"/>'),                                # skip: never looked up
    _t('<t:eL><xl:title>a title</xl:title></t:eL>'),              # lax element wildcard, XLink element
    _t('<t:eS><h:p>t</h:p></t:eS>'),                              # strict element wildcard, XHTML
    _t('<t:eS><h:br>text</h:br></t:eS>'),                         # ... invalid for the XHTML declaration
    _t('<t:eK><h:p bogus="1"/></t:eK>'),                          # skip
    _t('<t:eL xml:lang="en" xml:space="bogus"/>'),                # namespace loaded at build time
    _t('<t:eS o:a="1"/><t:eL o:a="1"><o:any/></t:eL>'),           # namespace nobody can load
    _t('<t:eL xsi:bogus="1"/>'),
    _t('<t:eL><h:p>t</h:p></t:eL><t:it xsi:type="t:Ext" m="1" n="1"/>'),    # a load, then an xsi:type in the same call
    _t('<t:it xsi:type="t:Ext" m="x" n="1"/><t:it n="1"/>'),
    f'<h:p xmlns:h="{XHTML}">t</h:p>',                            # the ROOT is in a loadable namespace
    f'<xl:title xmlns:xl="{XLINK}">t</xl:title>',
    _t('<t:mix xl:type="bogus"><o:any/></t:mix>'),
    _t('<t:anyT xl:type="bogus"><h:p>t</h:p></t:anyT>'),
    _t('<t:eL xl:nosuch="1"/>'),                                  # loadable namespace, undeclared attribute: lax
    _t('<t:eS xl:nosuch="1"/>'),                                  # ... strict
]


# pool 3: identity-selected elements that reach the scope through a substitution-group member (sub), a
# wildcard-admitted global element (wild) or directly (dir), with or without an xsi:type whose value space differs
# from the declared type's: key values equal in one value space and distinct in the other
S4 = f'''<xs:schema xmlns:xs="{XS}">
<xs:element name="root"><xs:complexType><xs:choice minOccurs="0" maxOccurs="unbounded">
  <xs:element name="sub"><xs:complexType><xs:sequence><xs:element ref="head" minOccurs="0" maxOccurs="unbounded"/>
       <xs:element ref="headS" minOccurs="0" maxOccurs="unbounded"/></xs:sequence></xs:complexType>
     <xs:key name="ks"><xs:selector xpath="*"/><xs:field xpath="."/></xs:key></xs:element>
  <xs:element name="wild"><xs:complexType><xs:sequence>
       <xs:any namespace="##any" processContents="lax" minOccurs="0" maxOccurs="unbounded"/></xs:sequence></xs:complexType>
     <xs:unique name="uw"><xs:selector xpath="*"/><xs:field xpath="."/></xs:unique></xs:element>
  <xs:element name="dir"><xs:complexType><xs:sequence>
       <xs:element name="it" type="xs:anySimpleType" minOccurs="0" maxOccurs="unbounded"/>
       <xs:element name="its" type="xs:string" minOccurs="0" maxOccurs="unbounded"/></xs:sequence></xs:complexType>
     <xs:key name="kd"><xs:selector xpath="*"/><xs:field xpath="."/></xs:key></xs:element>
</xs:choice></xs:complexType></xs:element>
<xs:element name="head" type="xs:anySimpleType"/>
<xs:element name="member" type="xs:anySimpleType" substitutionGroup="head"/>
<xs:element name="headS" type="xs:string"/>
<xs:element name="memberS" type="xs:string" substitutionGroup="headS"/>
<xs:element name="g" type="xs:anySimpleType"/>
<xs:element name="gs" type="xs:string"/>
</xs:schema>'''


def _k(scope, el, ty, v1, v2):
    a = f' xsi:type="{ty}"' if ty else ''
    return (f'<root xmlns:xsi="{XSI}" xmlns:xs="{XS}"><{scope}><{el}{a}>{v1}</{el}><{el}{a}>{v2}</{el}></{scope}></root>')


_ANY_CASES = [(None, '01', '1'), ('xs:integer', '01', '1'), ('xs:integer', '1', '2'), (None, '1.0', '1'),
              ('xs:decimal', '1.0', '1'), (None, 'true', '1'), ('xs:boolean', 'true', '1'),
              ('xs:date', '2020-01-01', '2020-01-02')]
_STR_CASES = [(None, ' a', 'a'), ('xs:token', ' a', 'a')]
D4_SCOPES = [('sub', 'member', 'memberS'), ('wild', 'g', 'gs'), ('dir', 'it', 'its')]
D4 = [_k(sc, el, *c) for sc, el, _ in D4_SCOPES for c in _ANY_CASES] + \
     [_k(sc, els, *c) for sc, _, els in D4_SCOPES for c in _STR_CASES]


# pools 4 / 5: value constraints (fixed / default) on elements and attributes whose instances are retyped (xsi:type to a
# derived simple type with another Python value type; XSD 1.1 type alternatives) and written in lexical forms that
# differ from the literal of the schema
S5 = f'''<xs:schema xmlns:xs="{XS}">
<xs:element name="root"><xs:complexType><xs:choice minOccurs="0" maxOccurs="unbounded">
  <xs:element name="v" type="xs:decimal" fixed="1"/>
  <xs:element name="s" type="xs:string" fixed="a b"/>
  <xs:element name="a" type="xs:anySimpleType" fixed="true"/>
  <xs:element name="d" type="xs:anySimpleType" fixed="2020-01-01Z"/>
  <xs:element name="dv" type="xs:decimal" default="1"/>
  <xs:element name="e" type="ET1"/>
  <xs:element name="c" type="CT" fixed="1"/>
</xs:choice></xs:complexType></xs:element>
<xs:complexType name="ET1"><xs:attribute name="at" type="xs:decimal" fixed="1"/><xs:attribute name="df" type="xs:decimal" default="1"/></xs:complexType>
<xs:complexType name="ET2"><xs:complexContent><xs:restriction base="ET1"><xs:attribute name="at" type="xs:integer" fixed="1"/>
  </xs:restriction></xs:complexContent></xs:complexType>
<xs:complexType name="CT"><xs:simpleContent><xs:extension base="xs:decimal"><xs:attribute name="u" type="xs:string"/></xs:extension></xs:simpleContent></xs:complexType>
<xs:complexType name="CI"><xs:simpleContent><xs:restriction base="CT"><xs:simpleType><xs:restriction base="xs:integer"/></xs:simpleType>
  </xs:restriction></xs:simpleContent></xs:complexType>
</xs:schema>'''


def _r5(body):
    return f'<root xmlns:xsi="{XSI}" xmlns:xs="{XS}">{body}</root>'


D5 = [_r5(b) for b in (
    '<v>1.0</v>', '<v xsi:type="xs:integer">01</v>', '<v>2</v>', '<v xsi:type="xs:integer">2</v>', '<v>1</v>', '<v/>',
    '<s>a b</s>', '<s xsi:type="xs:token"> a  b </s>', '<s> a b</s>', '<s xsi:type="xs:token">a c</s>',
    '<a>true</a>', '<a xsi:type="xs:boolean">1</a>', '<a>1</a>', '<a xsi:type="xs:boolean">0</a>',
    '<d xsi:type="xs:date">2020-01-01+00:00</d>', '<d>2020-01-01+00:00</d>', '<d>2020-01-01Z</d>',
    '<dv/>', '<dv xsi:type="xs:integer"/>', '<dv>1.0</dv>',
    '<e at="1.0"/>', '<e xsi:type="ET2" at="01"/>', '<e at="2"/>', '<e xsi:type="ET2" at="1.0"/>', '<e df="1.00"/>',
    '<c>1.0</c>', '<c xsi:type="CI">01</c>', '<c xsi:type="CI">1.0</c>', '<c u="x">2</c>',
    '<v xsi:type="xs:integer">01</v><v>1.0</v>', '<v>1.0</v><v xsi:type="xs:integer">01</v>',
)]

S6 = f'''<xs:schema xmlns:xs="{XS}">
<xs:element name="root"><xs:complexType><xs:sequence>
  <xs:element name="w" minOccurs="0" maxOccurs="unbounded" type="WT" fixed="1">
     <xs:alternative test="@k='i'" type="WI"/></xs:element>
</xs:sequence></xs:complexType></xs:element>
<xs:complexType name="WT"><xs:simpleContent><xs:extension base="xs:decimal"><xs:attribute name="k" type="xs:string"/></xs:extension></xs:simpleContent></xs:complexType>
<xs:complexType name="WI"><xs:simpleContent><xs:restriction base="WT"><xs:simpleType><xs:restriction base="xs:integer"/></xs:simpleType>
  </xs:restriction></xs:simpleContent></xs:complexType>
</xs:schema>'''
D6 = ['<root><w>1.0</w></root>', '<root><w k="i">01</w></root>', '<root><w k="i">1.0</w></root>', '<root><w>2</w></root>',
      '<root><w k="i">01</w><w>1.0</w></root>', '<root><w>1.0</w><w k="i">01</w></root>', '<root><w>1</w></root>']

POOLS = [('xsi+identity+wildcard+substitution+fixed+ID (1.0)', '1.0', S1, D1),
         ('assert+fixed+wildcard+keyref+xsi (1.1)', '1.1', S2, D2),
         ('wildcards lax/strict/skip x namespaces loaded on demand / at build / never (1.0)', '1.0', S3, D3),
         ('key fields: declared type vs xsi:type value spaces x substitution / wildcard / direct (1.0)', '1.0', S4, D4),
         ('fixed / default values x xsi:type retyping x non-canonical lexical forms (1.0)', '1.0', S5, D5),
         ('fixed value x XSD 1.1 type alternatives (1.1)', '1.1', S6, D6)]
OPS = ['is_valid', 'iter_errors', 'validate', 'decode', 'decode_strict', 'to_objects', 'encode', 'stop', 'lazy',
       'kbint', 'exv', 'abandon']
ABORT_OPS = ('stop', 'kbint', 'exv', 'abandon', 'tabort')

# finding C10-F3: documents whose wildcard content is in a namespace that has a (fallback) location
_H = f'<open><h:p xmlns:h="{XHTML}">t</h:p></open>'
F3_DOCS = [_root(_H + '<secA>' + _item('Ext', [1, 1]) + '</secA>'),
           _root(_H),
           f'<h:p xmlns:h="{XHTML}">t</h:p>']


def make_schema(version: str, text: str):
    import xmlschema
    return (xmlschema.XMLSchema11 if version == '1.1' else xmlschema.XMLSchema10)(text)


# ------------------------------------------------------------------------------------------------
# canonical results
# ------------------------------------------------------------------------------------------------
ADDR = re.compile(r' at 0x[0-9a-fA-F]+')


class Foreign(BaseException):
    """raised by the probes of the `exv` / `tabort` operations: not an Exception, not a library error"""


def canon_err(e) -> list:
    return [type(e).__name__, getattr(e, 'path', None) or '', ADDR.sub('', str(getattr(e, 'reason', None) or e))[:300]]


def canon_data(x: Any) -> Any:
    return json.loads(json.dumps(x, default=lambda o: ADDR.sub('', repr(o)), sort_keys=False))


def canon_obj(o: Any) -> Any:
    if o is None:
        return None
    try:
        return [o.tag, ADDR.sub('', repr(o.value)), sorted((k, ADDR.sub('', repr(v))) for k, v in o.attrib.items()),
                [canon_obj(c) for c in o]]
    except AttributeError:
        return ADDR.sub('', repr(o))


class Probe:
    """events of one call: ('s', elem, xsd_element, ctx_before) at every element start,
    ('e', elem, xsd_element, ctx, gate, xsd_type, expected attribute-wildcard lookups) at every element end and
    ('w', namespace, is_attribute_wildcard, processContents, result of load_namespace, rebuilt) at every call of
    `maps.loader.load_namespace` (observed by a wrapper set on the loader OBJECT of the schema under observation)"""

    def __init__(self, op: str, stop_at: int):
        self.op, self.stop_at = op, stop_at
        self.events: list = []
        self.started = 0
        self.ended = 0
        self.tabort_log: list = []
        self.root_ns: Optional[str] = None
        self.root_seen: Optional[bool] = None
        self.schema = None
        self.nsmap: dict = {'xsi': XSI}

    # ---- namespace lookups
    def attach(self, schema, xml: Optional[str]) -> None:
        self.schema = schema
        loader = schema.maps.loader
        holder = loader.__dict__.get('_c10_probe')
        if holder is None:
            holder = loader.__dict__['_c10_probe'] = {'probe': None}
            orig = type(loader).load_namespace

            def load_namespace(namespace, build=True):
                pr = holder['probe']
                if pr is None:
                    return orig(loader, namespace, build)
                before = namespace in loader.maps.namespaces
                res = orig(loader, namespace, build)
                after = namespace in loader.maps.namespaces
                pr.log_lookup(namespace, bool(res), (not before) and after)
                return res
            loader.__dict__['load_namespace'] = load_namespace
        holder['probe'] = self
        self.nsmap = {'xsi': XSI}
        if xml is not None:
            self.nsmap.update(dict(re.findall(r'xmlns:(\w+)="([^"]*)"', xml)))
            try:
                tag = ET.fromstring(xml).tag
                self.root_ns = tag[1:].split('}')[0] if tag[:1] == '{' else ''
            except ET.ParseError:
                self.root_ns = None
            if self.root_ns is not None:
                self.root_seen = self.root_ns in schema.maps.namespaces

    def detach(self) -> None:
        if self.schema is not None:
            holder = self.schema.maps.loader.__dict__.get('_c10_probe')
            if holder is not None:
                holder['probe'] = None

    def log_lookup(self, namespace: str, res: bool, rebuilt: bool) -> None:
        from xmlschema.validators.wildcards import XsdAnyAttribute, XsdWildcard
        f = sys._getframe(2)
        caller = None
        for _ in range(4):
            if f is None:
                break
            c = f.f_locals.get('self')
            if isinstance(c, XsdWildcard):
                caller = c
                break
            f = f.f_back
        if caller is None:
            self.events.append(('w', namespace, False, 'strict', res, rebuilt))
        else:
            self.events.append(('w', namespace, isinstance(caller, XsdAnyAttribute), caller.process_contents, res, rebuilt))

    @staticmethod
    def snapshot(context) -> list:
        return [(ident, bool(counter.enabled)) for ident, counter in context.identities.items()]

    def hook(self, elem, xsd_element):
        from xmlschema import XMLSchemaStopValidation
        self.started += 1
        if self.op == 'stop' and self.started >= self.stop_at:
            raise XMLSchemaStopValidation()
        if self.op == 'kbint' and self.started >= self.stop_at:
            raise KeyboardInterrupt()
        context = sys._getframe(1).f_locals.get('context')
        tag = elem.tag
        ens = tag[1:].split('}')[0] if tag[:1] == '{' else ''
        self.events.append(('s', elem, xsd_element, self.snapshot(context) if context is not None else None,
                            getattr(context, 'level', None), ens,
                            ens in self.schema.maps.namespaces if self.schema is not None else None))
        return False

    @staticmethod
    def expected_attr_lookups(elem, xsd_element, xsd_type) -> Optional[list]:
        """port of XsdAttributeGroup.raw_decode (attributes.py:697-719) + XsdAnyAttribute.raw_decode
        (wildcards.py:709-722): the (namespace, processContents) of the attributes of `elem` that reach
        `load_namespace` through the attribute wildcard, in order"""
        try:
            group = xsd_element.get_attributes(xsd_type)
            maps = xsd_element.maps
        except Exception:
            return None
        out = []
        for name in elem.attrib:
            wild = None
            if name in group and name is not None:
                if group[name].use == 'prohibited' and None in group and group[None].is_matching(name):
                    wild = group[None]
            elif name[:1] == '{' and name[1:].split('}')[0] == XSI:
                if name not in maps.attributes and None in group:
                    wild = group[None]
            elif None in group:
                wild = group[None]
            if wild is not None and wild.process_contents != 'skip':
                out.append((name[1:].split('}')[0] if name[:1] == '{' else '', wild.process_contents))
        return out

    def extra(self, elem, xsd_element):
        loc = sys._getframe(1).f_locals
        context = loc.get('context')
        snap = self.snapshot(context) if context is not None else None
        gate = [i for i, en in snap if en] if snap is not None else []     # 1e49c64: every open scope collects
        xsd_type = loc.get('xsd_type')
        # which field selectors extract the key values (elements.py:901-904, 949-953): the stored ones of the
        # declaration when the element has its declared type and the declaration is a key of identity.elements
        decl = xsd_element if getattr(xsd_element, 'ref', None) is None else xsd_element.ref
        typing = []
        for i in gate:
            ty = xsd_type
            if decl.type is xsd_type and decl in i.elements:
                sels = i.elements[decl]
                if sels:
                    ty = sels[0].xsd_element.type
            typing.append((i, ty))
        self.events.append(('e', elem, xsd_element, snap, gate, xsd_type,
                            self.expected_attr_lookups(elem, xsd_element, xsd_type), typing, decl.type))
        self.ended += 1
        if self.op == 'exv' and self.ended >= self.stop_at:
            raise Foreign()
        return None


def perform(schema, op: str, xml: str, stop_at: int, probe: Optional[Probe] = None, encode_src: Any = None) -> Any:
    """run one operation; returns a canonical, comparable result"""
    import xmlschema

    p = probe if probe is not None else Probe(op, stop_at)
    kw = {'validation_hook': p.hook, 'extra_validator': p.extra}
    p.attach(schema, xml if op != 'encode' else None)
    try:
        if op == 'is_valid':
            out: Any = ['verdict', bool(schema.is_valid(xml, **kw))]
        elif op in ('iter_errors', 'stop', 'kbint', 'exv'):
            out = ['errors', sorted(canon_err(e) for e in schema.iter_errors(xml, **kw))]
        elif op == 'tabort':
            out = tabort(schema, xml, stop_at, p, kw)
        elif op == 'lazy':
            res = xmlschema.XMLResource(xml, lazy=True)
            out = ['errors', sorted(canon_err(e) for e in schema.iter_errors(res, **kw))]
        elif op == 'abandon':
            res = xmlschema.XMLResource(xml, lazy=True)
            gen = schema.iter_errors(res, **kw)
            got = []
            for e in gen:
                got.append(canon_err(e))
                if len(got) >= stop_at:
                    break
            gen.close()
            out = ['errors-abandoned', got]
        elif op == 'validate':
            schema.validate(xml, **kw)
            out = ['ok']
        elif op == 'decode':
            data, errs = schema.decode(xml, validation='lax', **kw)
            out = ['data', canon_data(data), sorted(canon_err(e) for e in errs)]
        elif op == 'decode_strict':
            out = ['data', canon_data(schema.decode(xml, **kw))]
        elif op == 'to_objects':
            obj, errs = schema.to_objects(xml, validation='lax', **kw)
            out = ['objects', canon_obj(obj), sorted(canon_err(e) for e in errs)]
        elif op == 'encode':
            elem, errs = schema.encode(encode_src, validation='lax')
            out = ['xml', ET.tostring(elem, encoding='unicode') if elem is not None else None,
                   sorted(canon_err(e) for e in errs)]
        else:
            raise ValueError(op)
    except xmlschema.XMLSchemaException as e:
        out = ['raised', canon_err(e)]
    except (KeyboardInterrupt, Foreign) as e:
        out = ['aborted', type(e).__name__]
    except (KeyError, AttributeError, TypeError, ValueError) as e:
        # not a library error (e.g. KeyError in lazy identity merging): for C10 only sameness matters
        out = ['raised', ['foreign:' + type(e).__name__, '', ADDR.sub('', str(e))[:200]]]
    finally:
        p.detach()
    return out


# ---- KeyboardInterrupt between two statements of the xsi:type block --------------------------------
_XSI_LINES: dict = {}


def xsi_block_lines() -> dict:
    """line numbers of the statements of the block, found in the source of the tree under check"""
    if not _XSI_LINES:
        import inspect
        from xmlschema.validators.elements import XsdElement
        src, first = inspect.getsourcelines(XsdElement.raw_decode)
        for k, line in enumerate(src):
            s = line.strip()
            if s.startswith('counter.identity.update_elements('):
                _XSI_LINES['update'] = first + k
            elif s.startswith('self.xsi_types.add((xsd_type, counter.identity))'):
                _XSI_LINES['pair'] = first + k
            elif s.startswith('if xsd_type not in self.xsi_types'):
                _XSI_LINES['type'] = first + k
        _XSI_LINES['code'] = XsdElement.raw_decode.__code__
    return _XSI_LINES


def tabort(schema, xml: str, nth: int, p: Probe, kw: dict) -> Any:
    """iter_errors with a trace function that raises KeyboardInterrupt just BEFORE the nth execution of one of
    the three statements `update_elements(…)`, `xsi_types.add((type, identity))`, `if type not in xsi_types`"""
    lines = xsi_block_lines()
    want = {lines.get('update'), lines.get('pair'), lines.get('type')} - {None}
    code = lines['code']
    seen = [0]
    log: list = []

    def local(frame, event, arg):
        if event == 'line' and frame.f_lineno in want:
            seen[0] += 1
            kind = [k for k in ('update', 'pair', 'type') if lines.get(k) == frame.f_lineno][0]
            log.append(kind)
            if seen[0] >= nth:
                sys.settrace(None)
                raise KeyboardInterrupt()
        return local

    def tracer(frame, event, arg):
        return local if frame.f_code is code else None

    sys.settrace(tracer)
    try:
        out = ['errors', sorted(canon_err(e) for e in schema.iter_errors(xml, **kw))]
    finally:
        sys.settrace(None)
        p.tabort_log = log
    return out


# ------------------------------------------------------------------------------------------------
# residue: observation on the real object, and the steps of a call for the model
# ------------------------------------------------------------------------------------------------
class Pool:
    def __init__(self, name: str, version: str, xsd: str, docs: list[str]):
        self.name, self.version, self.xsd, self.docs = name, version, xsd, docs
        self.type_names: list = []
        self.decl_ty: dict = {}
        self.ref = make_schema(version, xsd)           # never used for validation: introspection only
        self.ncomp = len(list(self.ref.iter_components()))
        self.base = self.observe(self.ref, self.index(self.ref), raw=True)
        self.clean = make_schema(version, xsd)         # read-only evaluation of `widen`
        self.ccomps = list(self.clean.iter_components())
        self.cidx = self.index(self.clean)
        self.fresh_cache: dict = {}
        self.widen: dict = {}
        self.complex: set = set()
        self.dummies: dict = {}
        self.scan_ctx: Optional[Ctx] = None
        self.pi = [p[0] for p in POOLS].index(name) if name in [p[0] for p in POOLS] else 0
        self.baseline_attrs: list = [set(getattr(c, '__dict__', {}) or {}) for c in self.ref.iter_components()]
        self.memo_registry: dict = {}
        self.memo_ref = make_schema(version, xsd)       # untouched components, to recompute memo attributes on
        self.memo_ref_comps = list(self.memo_ref.iter_components())
        self.memo_ref_idx = self.index(self.memo_ref)
        self.ns_names: list = sorted(self.clean.maps.namespaces)
        self.ns_base = set(self.clean.maps.namespaces)
        self.fresh_info: dict = {}
        self.last_attr: tuple = ([], [])

    @staticmethod
    def index(schema) -> dict:
        return {id(c): i for i, c in enumerate(schema.iter_components())}

    @staticmethod
    def key(idx: dict, e) -> Optional[int]:
        e = e.ref if getattr(e, 'ref', None) is not None else e
        return idx.get(id(e))

    def decl(self, idx: dict, xe) -> int:
        k = self.key(idx, xe)
        if k is not None:
            return k
        name = getattr(xe, 'name', None) or '?'
        if name not in self.dummies:
            self.dummies[name] = DUMMY + len(self.dummies)
        return self.dummies[name]

    def observe(self, schema, idx: dict, raw: bool = False) -> dict:
        """the identity-related residue of a schema object"""
        comps = list(schema.iter_components())
        types, pairs, elems, sel, cache = set(), set(), set(), set(), set()
        for i, c in enumerate(comps):
            if hasattr(c, 'xsi_types') and getattr(c, 'ref', None) is None:
                for t in c.xsi_types:
                    if isinstance(t, tuple):
                        if id(t[0]) in idx and id(t[1]) in idx:
                            pairs.add((i, idx[id(t[0])], idx[id(t[1])]))
                    elif id(t) in idx:
                        types.add((i, idx[id(t)]))
                for ident in c.selected_by:
                    if id(ident) in idx:
                        sel.add((idx[id(ident)], i))
            if hasattr(c, 'selector') and hasattr(c, 'elements') and hasattr(c, 'fields'):
                for e, sels in c.elements.items():
                    k = self.key(idx, e)
                    if k is not None:
                        elems.add((i, k))
                        if sels:
                            cache.add((i, k, self.ty(idx, sels[0].xsd_element.type)))
        if raw:
            return {'elems': elems, 'sel': sel}
        return {'types': sorted(types), 'pairs': sorted(pairs), 'elems': sorted(elems - self.base['elems']),
                'sel': sorted(sel - self.base['sel']),
                'cache': sorted(x for x in cache if (x[0], x[1]) not in self.base['elems'])}

    def widen_of(self, c: int, d: int, ti: int, name: str) -> list:
        """declarations `update_elements(XPathElement(name, type))` selects for constraint c (read-only port of
        identities.py:217-226 on the clean schema object, with the library's own selector token)"""
        if (c, d, ti) not in self.widen:
            from elementpath import XPathContext
            from xmlschema.validators import XsdElement
            from xmlschema.xpath import XPathElement
            ident = self.ccomps[c]
            xp = XPathElement(name, self.ccomps[ti])
            xctx = XPathContext(self.clean.xpath_node, item=xp.xpath_node)
            got = []
            if ident.selector is not None:
                for r in ident.selector.token.select_results(xctx):
                    if isinstance(r, XsdElement) and r.name is not None:
                        k = self.key(self.cidx, r)
                        if k is not None:
                            got.append(k)
                            rr = r.ref if getattr(r, 'ref', None) is not None else r
                            self.decl_ty[k] = self.ty(self.cidx, rr.type)
            self.widen[(c, d, ti)] = sorted(set(got))
        return self.widen[(c, d, ti)]

    def ty(self, idx: dict, t) -> int:
        """a number for a type: its component index, or (built-in and on-the-fly types) a number for its name"""
        k = idx.get(id(t))
        if k is not None:
            return k
        name = getattr(t, 'name', None) or ('?' + type(t).__name__)
        if name not in self.type_names:
            self.type_names.append(name)
        return 2 * DUMMY + self.type_names.index(name)

    def ns(self, namespace: str) -> int:
        if namespace not in self.ns_names:
            self.ns_names.append(namespace)
        return self.ns_names.index(namespace)

    def steps_of(self, schema, idx: dict, probe: Probe, lazy: bool) -> tuple[list, list, Optional[bool]]:
        """model steps of a call from its own events; returns (steps, real observations in order: root lookup,
        namespace lookups of wildcards, counters/collecting constraints at element ends; did the attribute
        wildcards look up exactly the namespaces the port of the attribute loop expects — None if the call was
        aborted)"""
        from xmlschema.validators.identities import XsdKeyref, XsdIdentity
        steps: list = []
        real: list = []
        if any(ev[0] == 'w' and ev[5] for ev in probe.events):
            # the components were re-created during the call: its later events may show objects of both generations
            idx = {**self.index(schema), **idx}
        if probe.root_ns is not None:
            steps.append(['r', self.ns(probe.root_ns)])
            real.append({'seen': bool(probe.root_seen)})
        started: list = []
        expected: dict = {}
        real_attr: list = []

        def snap(s):
            return [[idx.get(id(i), -1), en] for i, en in s]

        for ev in probe.events:
            if ev[0] == 'w':
                _, namespace, is_attr, pc, res, rebuilt = ev
                steps.append(['w', bool(is_attr), pc, self.ns(namespace)])
                real.append({'ns': [bool(res), bool(rebuilt)]})
                if is_attr:
                    real_attr.append((namespace, pc))
            elif ev[0] == 's':
                _, elem, xe, before, level, ens, ens_seen = ev
                if lazy and level == 1 and ens_seen is not None:
                    # a depth-level element of a lazy run: looked up in the maps as they are (schemas.py:1364)
                    steps.append(['r', self.ns(ens)])
                    real.append({'seen': bool(ens_seen)})
                started.append(id(elem))
                d = self.decl(idx, xe)
                ids = [idx[id(i)] for i in xe.identities if id(i) in idx]
                if lazy and before is not None:
                    steps.append(['s', snap(before)])
                steps.append(['e', ids])
                tname = elem.attrib.get('{%s}type' % XSI)
                if tname is not None and xe.schema.meta_schema is not None:
                    cxe = self.ccomps[idx[id(xe)]] if id(xe) in idx and idx[id(xe)] < len(self.ccomps) else xe
                    t = self.instance_type(cxe, tname, probe.nsmap)
                    if t is not None and id(t) in self.cidx:
                        ti = self.cidx[id(t)]
                        if t.has_complex_content():
                            self.complex.add(ti)
                            for c, en in (before or []) + [(i, True) for i in xe.identities]:
                                if id(c) in idx:
                                    self.widen_of(idx[id(c)], d, ti, xe.name)
                        steps.append(['x', d, ti, None])
            else:
                _, elem, xe, ctxs, gate, _t, exp, typing, dty = ev
                expected[id(elem)] = exp
                d = self.decl(idx, xe)
                self.decl_ty[d] = self.ty(idx, dty)
                if lazy and ctxs is not None:
                    steps.append(['s', snap(ctxs)])
                steps.append(['c', d])
                real.append({'ctx': snap(ctxs or []), 'gate': sorted(idx.get(id(i), -1) for i in gate)})
                if gate and _t is not None:
                    steps.append(['f', d, self.ty(idx, _t)])
                    real.append({'typing': sorted([idx.get(id(i), -1), self.ty(idx, ty)] for i, ty in typing)})
                if not lazy:
                    lv = []
                    for i in xe.identities:
                        if id(i) not in idx:
                            continue
                        refer = None
                        if isinstance(i, XsdKeyref) and isinstance(i.refer, XsdIdentity) and id(i.refer) in idx:
                            refer = idx[id(i.refer)]
                        lv.append([idx[id(i)], refer])
                    steps.append(['l', lv])
        attr_ok: Optional[bool] = None
        if started and all(k in expected and expected[k] is not None for k in started):
            want_attr = [x for k in started for x in expected[k]]
            attr_ok = want_attr == real_attr
            self.last_attr = (want_attr, real_attr)
        return steps, real, attr_ok

    def instance_type(self, xe, tname: str, nsmap: dict):
        """the type a usable xsi:type selects (None: unknown, not derived, or blocked) — evaluated on the clean
        schema object so that the caches of the object under observation are not touched"""
        try:
            t = self.clean.maps.get_instance_type(tname.strip(), xe.type, nsmap)
        except (KeyError, TypeError):
            return None
        try:
            if t.is_blocked(xe):
                return None
        except Exception:
            return None
        return t

    def fresh(self, op: str, di: int, stop_at: int, xml: Optional[str] = None, override: bool = False) -> Any:
        """result of the call on a schema object that validated nothing; `fresh_info[key]` = what its probes saw"""
        key = (op, di, stop_at if op in ABORT_OPS else 0, xml if override else None)
        if key not in self.fresh_cache:
            schema = make_schema(self.version, self.xsd)
            src = None
            if op == 'encode':
                src = self.encode_source(di) if not override else schema.decode(xml, validation='lax')[0]
            probe = Probe(op, stop_at)
            fidx = self.index(schema)
            self.fresh_cache[key] = perform(schema, op, xml if xml is not None else self.docs[di], stop_at, probe, src)
            _steps, real, attr_ok = self.steps_of(schema, fidx, probe, op in ('lazy', 'abandon'))
            self.fresh_info[key] = (real, attr_ok, self.last_attr, _steps)
            if self.scan_ctx is not None:
                memo_scan(self.scan_ctx, self, schema, self.index(schema),
                          {'pool': self.pi, 'history': [[op, di, stop_at]]}, 'fresh run')
        self.last_fresh_key = key
        return self.fresh_cache[key]

    def encode_source(self, di: int) -> Any:
        key = ('encsrc', di)
        if key not in self.fresh_cache:
            schema = make_schema(self.version, self.xsd)
            data, _ = schema.decode(self.docs[di], validation='lax')
            self.fresh_cache[key] = data
        return self.fresh_cache[key]

    def sch_json(self) -> dict:
        return {'complex': sorted(self.complex),
                'wtab': [[c, d, t, w] for (c, d, t), w in sorted(self.widen.items())],
                'base': sorted([c, d] for c, d in self.base['sel']),
                'declTy': sorted([d, t] for d, t in self.decl_ty.items()),
                'nsBase': [i for i, n in enumerate(self.ns_names) if n in self.ns_base],
                'loadable': [i for i, n in enumerate(self.ns_names)
                             if n not in self.ns_base and self.has_location(n)]}

    def has_location(self, namespace: str) -> bool:
        try:
            return bool(list(self.clean.maps.loader.get_locations(namespace)))
        except Exception:
            return False


# ------------------------------------------------------------------------------------------------
# python mirror of Model/History.lean (mode current): fallback without the driver, and write budgets
# ------------------------------------------------------------------------------------------------
class PyModel:
    def __init__(self, pool: Pool):
        self.pool = pool
        self.types: set = set()
        self.pairs: set = set()
        self.elems: set = set()
        self.sel: set = set()
        self.loaded: set = set()

    def xsi_writes(self, ctx: list, d: int, t: int) -> list:
        ws: list = []
        pairs = set(self.pairs)
        if t in self.pool.complex:
            for c, en in ctx:
                if not en or (d, t, c) in pairs:
                    continue
                for d2 in self.pool.widen.get((c, d, t), []):
                    ws.append(('elem', c, d2))
                    ws.append(('sel', c, d2))
                ws.append(('pair', d, t, c))
                pairs.add((d, t, c))
        ws.append(('type', d, t))
        return ws

    def apply(self, w: tuple) -> None:
        if w[0] == 'elem':
            self.elems.add((w[1], w[2]))
        elif w[0] == 'sel':
            self.sel.add((w[1], w[2]))
        elif w[0] == 'pair':
            self.pairs.add((w[1], w[2], w[3]))
        else:
            self.types.add((w[1], w[2]))

    def run(self, steps: list, write: bool = True) -> list:
        """observations [(ctx, gate)] of a call"""
        ctx: list = []
        obs = []
        self.ctx_at_x: list = []
        stale = False
        sj = self.pool.sch_json()
        for s in steps:
            if s[0] == 'e':
                for c in s[1]:
                    if any(p[0] == c for p in ctx):
                        ctx = [[c, True] if p[0] == c else p for p in ctx]
                    else:
                        ctx = ctx + [[c, True]]
            elif s[0] == 'x':
                self.ctx_at_x = [list(p) for p in ctx]
                self.writes_at_x = ws = self.xsi_writes(ctx, s[1], s[2])
                if s[3] is not None:
                    ws = ws[:s[3]]
                if not stale:
                    for w in ws:
                        self.apply(w)
            elif s[0] == 'c':
                obs.append({'ctx': [list(p) for p in ctx], 'gate': sorted({c for c, en in ctx if en})})
            elif s[0] == 'f':
                obs.append({'typing': sorted([c, s[2]] for c, en in ctx if en)})
            elif s[0] == 'r':
                obs.append({'seen': s[1] in sj['nsBase'] or s[1] in self.loaded})
                stale = False
            elif s[0] == 'w':
                if s[2] == 'skip':
                    continue
                if s[3] in sj['nsBase'] or s[3] in self.loaded:
                    obs.append({'ns': [True, False]})
                elif s[3] in sj['loadable']:
                    self.types, self.pairs, self.elems, self.sel = set(), set(), set(), set()
                    self.loaded.add(s[3])
                    stale = True
                    obs.append({'ns': [True, True]})
                else:
                    obs.append({'ns': [False, False]})
            elif s[0] == 'l':
                for c, refer in s[1]:
                    ctx = [[c, False] if p[0] == c else p for p in ctx]
                    if refer is not None and not any(p[0] == refer for p in ctx):
                        ctx = ctx + [[refer, False]]
            elif s[0] == 's':
                ctx = [list(p) for p in s[1]]
        return obs

    def copy(self) -> 'PyModel':
        m = PyModel(self.pool)
        m.types, m.pairs, m.elems, m.sel = set(self.types), set(self.pairs), set(self.elems), set(self.sel)
        m.loaded = set(self.loaded)
        return m


# ------------------------------------------------------------------------------------------------
# findings
# ------------------------------------------------------------------------------------------------
def known_match(case: dict, detail: dict) -> Optional[str]:
    """C10-F3: the result of a call differs from the fresh result AND
      * the Lean model of the code as it is predicts, for the steps of this call after this history, an
        observation that differs from the fresh one — a wildcard lookup that rebuilds the components in the fresh
        run and not in the used one (or the reverse), or a root lookup that finds the namespace loaded — AND
      * the namespace lookups of BOTH real runs (the call on the used object and the call on the fresh object)
        are the ones the model describes: every `load_namespace` call returned / rebuilt what the model says,
        the root was seen loaded as the model says, and the attribute wildcards looked up exactly the namespaces
        that the port of the attribute loop expects (so a lookup that is skipped, or that consults the loaded
        set without loading, is NOT explained by this finding)."""
    if detail.get('model_predicts_difference') and detail.get('ns_lookups_as_modelled'):
        return 'C10-F3'
    return None


def load_findings(ctx: Ctx) -> None:
    if FINDINGS_FILE.exists():
        have = {e['id'] for e in ctx.known}
        for e in json.loads(FINDINGS_FILE.read_text()).get('findings', []):
            if e['id'] not in have:
                ctx.known.append(e)


# ------------------------------------------------------------------------------------------------
# memo attributes: the table regenerated from the source, and the check that a memo is a function of its key
# ------------------------------------------------------------------------------------------------
_MEMO_TABLE: set = set()


def memo_table() -> set:
    """names of the attributes the library fills lazily: functions decorated with cached_property /
    schema_cached_property and hand-written lazy fields (`if self.x is None: self.x = …`), scanned from the source of
    the tree under check (harness/lib_c18.scan_caches)"""
    if not _MEMO_TABLE:
        from harness import lib_c18
        for _f, _cls, fn, kind in lib_c18.scan_caches():
            if kind in ('cached_property', 'schema_cached_property'):
                _MEMO_TABLE.add(fn)
            elif kind.startswith('lazyfield:'):
                _MEMO_TABLE.add(kind.split(':', 1)[1])
    return _MEMO_TABLE


def canon_value(v: Any, idx: dict, depth: int = 0) -> Any:
    """a value of a memo attribute in a form comparable ACROSS schema objects"""
    if isinstance(v, (str, int, bool, type(None))):
        return [type(v).__name__, v]
    if isinstance(v, (bytes, float, complex)):
        return [type(v).__name__, repr(v)]
    if depth > 4:
        return ['…']
    if isinstance(v, (list, tuple)):
        return [type(v).__name__] + [canon_value(x, idx, depth + 1) for x in v]
    if isinstance(v, (set, frozenset)):
        return [type(v).__name__] + sorted((canon_value(x, idx, depth + 1) for x in v), key=repr)
    if isinstance(v, dict):
        return [type(v).__name__] + [[canon_value(k, idx, depth + 1), canon_value(x, idx, depth + 1)] for k, x in v.items()]
    if id(v) in idx:
        return ['component', idx[id(v)]]
    mod = getattr(type(v), '__module__', '') or ''
    if mod in ('decimal', 'datetime', 'fractions') or mod.startswith('elementpath.datatypes'):
        return ['value', type(v).__name__, ADDR.sub('', repr(v))]
    name = getattr(v, 'name', None)
    return ['object', type(v).__name__, name if isinstance(name, str) else None]


def memo_scan(ctx: Ctx, pool: 'Pool', schema, idx: dict, case: Any, where: str) -> None:
    """every attribute that a call has ADDED to a component of the schema must be a memo attribute of the table,
    and its value must be the one every other schema object of the pool has (or computes) for the same component:
    a memo is a function of its key"""
    table = memo_table()
    for i, c in enumerate(schema.iter_components()):
        d = getattr(c, '__dict__', None)
        if not d or i >= len(pool.baseline_attrs):
            continue
        for a in d:
            if a in pool.baseline_attrs[i]:
                continue
            if a not in table:
                ctx.failure('unexplained residue: a call left the attribute %r on a %s of the schema, which is neither modelled '
                            'residue nor a memo attribute of the library (cached_property / lazy field table scanned from the '
                            'source)' % (a, type(c).__name__), case, {'where': where, 'component': i, 'attribute': a,
                                                                      'value': ADDR.sub('', repr(d[a]))[:200]})
                pool.baseline_attrs[i].add(a)
                continue
            cv = canon_value(d[a], idx)
            key = (i, a)
            if key not in pool.memo_registry:
                pool.memo_registry[key] = (cv, where, case)
                # recompute on a component that no call has touched
                rc = pool.memo_ref_comps[i] if i < len(pool.memo_ref_comps) else None
                if rc is not None and isinstance(getattr(type(rc), a, None), (property,)) is False and \
                        hasattr(type(rc), a) and not isinstance(getattr(type(rc), a), (int, str, type(None))):
                    try:
                        rv = canon_value(getattr(rc, a), pool.memo_ref_idx)
                    except Exception:
                        rv = None
                    if rv is not None:
                        ctx.traces += 1
                        ctx.count('memo attributes recomputed on an untouched component')
                        if rv != cv:
                            ctx.failure('memo attribute %r of component %d (%s): the value a call left differs from the value '
                                        'computed on a component that no call has touched — the memo is not a function of its '
                                        'key' % (a, i, type(c).__name__), case, {'where': where, 'left_by_call': cv, 'recomputed': rv})
            elif pool.memo_registry[key][0] != cv:
                first = pool.memo_registry[key]
                both = dict(case)
                if isinstance(first[2], dict) and isinstance(case, dict) and first[2].get('pool') == case.get('pool') \
                        and 'docs' not in first[2] and 'docs' not in case:
                    both = {'pool': case['pool'], 'history': list(first[2]['history']) + list(case['history'])}
                ctx.failure('memo attribute %r of component %d (%s) holds different values in two schema objects of the same '
                            'schema: whichever call fills it first decides — the memo is not a function of its key'
                            % (a, i, type(c).__name__), both,
                            {'where': where, 'value_here': cv, 'value_elsewhere': first[0], 'elsewhere': first[1],
                             'this_case': case, 'elsewhere_case': first[2]})
                pool.memo_registry[key] = (cv, where, case)
            ctx.count('memo attributes checked')


# ------------------------------------------------------------------------------------------------
# fingerprint classification (what else is residue?)
# ------------------------------------------------------------------------------------------------
B_ATTRS = ('.xsi_types', '.selected_by')
SCRATCH_CLEARED = ('errors', 'id_map', 'identities', 'inherited', 'level', 'elem', 'attribute', 'id_list', 'patterns')
XPATH_NODE_CLASSES = ('XPathNodeTree', 'SchemaElementNode', 'SchemaAttributeNode', 'SchemaNode')
IDENT_CLASSES = ('XsdUnique', 'XsdKey', 'XsdKeyref', 'Xsd11Unique', 'Xsd11Key', 'Xsd11Keyref')


def classify_diff(d: dict, prev_owners: Optional[set] = None) -> tuple[dict, list]:
    """returns (counts by accounted kind, unexplained [(key, before, after)])"""
    kinds: dict = {}
    bad = []
    for k, (a, b) in d.items():
        attr = k.split(':', 1)[1]
        cls, _, name = attr.partition('.')
        if a in (['<absent>'], ['<unset>']):
            owner = k.split(':', 1)[0]
            if prev_owners is not None and owner in prev_owners and a == ['<absent>'] and name not in memo_table() \
                    and name != '<items>':
                bad.append((k, a, b))          # a new attribute on an object that existed: not a memo of the table
                continue
            kind = 'lazy attribute / new object (write-once)'
        elif attr.endswith(B_ATTRS) or (cls in IDENT_CLASSES and name == 'elements'):
            kind = 'xsi_types / selected_by / identity.elements'
            if isinstance(a, list) and isinstance(b, list) and not all(x in b for x in a[1:]):
                bad.append((k, a, b))        # something was removed
                continue
        elif attr == 'SchemaCache._caches':
            sa = {repr(x[0]): x[1][1] for x in a[1:]}
            sb = {repr(x[0]): x[1][1] for x in b[1:]}
            if set(sa) != set(sb) or any(sb[f] < sa[f] for f in sa):
                bad.append((k, a, b))
                continue
            kind = 'lru cache growth'
        elif cls in XPATH_NODE_CLASSES and isinstance(a, list) and isinstance(b, list) and a[:1] == b[:1] and \
                a[0] in ('dict', 'list'):
            # `schema.xpath_node`: FieldValueSelector / update_elements register the XPath nodes of the element copies
            # they build (elements.py:425-435 -> elementpath build_schema_node_tree); entries are only added, an
            # existing key may be re-pointed to the node built last
            if a[0] == 'dict':
                ka, kb = [repr(x[0]) for x in a[1:]], [repr(x[0]) for x in b[1:]]
                grown = all(k in kb for k in ka)
                if grown and any(x not in b[1:] for x in a[1:]):
                    kinds['schema XPath node registry: existing key re-pointed'] = \
                        kinds.get('schema XPath node registry: existing key re-pointed', 0) + 1
            else:
                grown = all(x in b[1:] for x in a[1:])
            if not grown:
                bad.append((k, a, b))
                continue
            kind = 'schema XPath node registry growth'
        elif cls in ('ValidationContext',) and name in SCRATCH_CLEARED:
            kind = 'scratch context (clearable field)'
        elif name == '_is_fully_valid' and a is False and b is True:
            kind = 'lazy flag (write-once)'
        else:
            bad.append((k, a, b))
            continue
        kinds[kind] = kinds.get(kind, 0) + 1
    return kinds, bad


# ------------------------------------------------------------------------------------------------
# one history
# ------------------------------------------------------------------------------------------------
def run_history(ctx: Ctx, pi: int, pool: Pool, hist: list, drv: Optional[Driver], tag: str, deep: bool = False,
                docs: Optional[list] = None) -> None:
    try:
        _run_history(ctx, pi, pool, hist, drv, tag, deep, docs)
    except Exception as e:       # noqa: a clean tree never gets here: schema construction or the walk blew up
        import traceback
        ctx.failure('replaying the history raised an unexpected exception (schema construction or a call on a fresh '
                    'object failed after earlier use of the library)', {'pool': pi, 'history': hist},
                    {'exception': repr(e)[:300], 'where': traceback.format_exc()[-900:]})


def _run_history(ctx: Ctx, pi: int, pool: Pool, hist: list, drv: Optional[Driver], tag: str, deep: bool,
                 docs: Optional[list]) -> None:
    """hist: list of [op, doc index, stop_at]; `docs` overrides the pool's documents (finding families)"""
    case: dict = {'pool': pi, 'history': hist}
    override = docs is not None
    if override:
        case['docs'] = docs
    docs = docs if docs is not None else pool.docs
    shared = make_schema(pool.version, pool.xsd)
    idx = pool.index(shared)
    ns0 = set(shared.maps.namespaces)
    model_hist: list = []
    reqs: list = []
    meta: list = []
    uses_xsi = any('xsi:type' in docs[di] for _, di, _ in hist)
    bad_before_good = False
    seen_bad = False
    _p0 = Probe('iter_errors', 0)
    _p0.attach(shared, None)            # the loader wrapper of the probes is in place before the first fingerprint
    _p0.detach()
    namer = lib_c10.Namer() if deep else None
    fp = lib_c10.fingerprint(shared, namer) if deep else None
    lazy_keys: dict = {}
    py = PyModel(pool)
    nloaded = 0
    for step_no, (op, di, stop_at) in enumerate(hist):
        probe = Probe(op, stop_at)
        src = pool.encode_source(di) if op == 'encode' and not override else None
        if op == 'encode' and override:
            src = make_schema(pool.version, pool.xsd).decode(docs[di], validation='lax')[0]
        got = perform(shared, op, docs[di], stop_at, probe, src)
        want = pool.fresh(op, di, stop_at, docs[di], override)
        fresh_real, fresh_attr_ok, fresh_attr, fresh_steps = pool.fresh_info[pool.last_fresh_key]
        raised = got[0] in ('raised', 'aborted')
        invalid = raised or (got[0] == 'verdict' and not got[1]) or (got[0] in ('errors', 'errors-abandoned') and got[1]) or \
            (got[0] in ('data', 'objects', 'xml') and len(got) > 2 and got[2])
        if seen_bad and not invalid:
            bad_before_good = True
        seen_bad = seen_bad or invalid or op in ABORT_OPS
        ctx.count('op:' + op)
        ctx.count('result:' + got[0] + (':invalid' if invalid and not raised else ''))
        lazy = op in ('lazy', 'abandon')
        steps, real, attr_ok = pool.steps_of(shared, idx, probe, lazy)       # `idx`: the components this call ran on
        used_attr = pool.last_attr
        loaded = sorted(pool.ns(n) for n in set(shared.maps.namespaces) - ns0)
        if len(loaded) != nloaded:
            idx = pool.index(shared)            # the components were re-created by a namespace load
            nloaded = len(loaded)
            deep = False                        # the names of the fingerprint walk are gone with the old objects
            ctx.count('calls-that-loaded-a-namespace')
        if op == 'tabort' and steps and probe.tabort_log and got[0] == 'aborted':
            # the call was aborted just before the last logged statement of the xsi block of the last started element
            budget = tabort_budget(py, steps, probe.tabort_log)
            if budget is not None:
                for s in reversed(steps):
                    if s[0] == 'x':
                        s[3] = budget
                        break
                ctx.count('abort-inside-xsi-block:budget=%d' % budget)
        obs = pool.observe(shared, idx)
        obs['loaded'] = loaded
        pool.scan_ctx = ctx
        memo_scan(ctx, pool, shared, idx, case, 'call %d (%s) of the history' % (step_no, op))
        differs = got != want
        if differs:
            ctx.count('differs-from-fresh')
        for w in steps:
            if w[0] == 'w':
                ctx.count('lookup:%s-wildcard %s' % ('attribute' if w[1] else 'element', w[2]))
        # the attribute wildcards looked up what the port of the attribute loop expects
        if attr_ok is not None:
            ctx.traces += 1
            if not attr_ok:
                ctx.mismatch('namespace lookups of the attribute wildcards in call %d (%s): the attributes that reach '
                             'load_namespace are not the ones the port of XsdAttributeGroup/XsdAnyAttribute.raw_decode '
                             'expects' % (step_no, op), case, used_attr[1], used_attr[0])
        if fresh_attr_ok is False:
            ctx.mismatch('namespace lookups of the attribute wildcards in the FRESH run of call %d (%s)' % (step_no, op),
                         case, fresh_attr[1], fresh_attr[0])
        # fingerprint: everything else that changed
        if deep:
            fp2 = lib_c10.fingerprint(shared, namer)
            dd = lib_c10.diff(fp, fp2)
            kinds, bad = classify_diff(dd, {k.split(':', 1)[0] for k in fp})
            for k, n in kinds.items():
                ctx.count('residue:' + k, n)
            ctx.count('fingerprints')
            for k, a, b in bad[:3]:
                ctx.failure('unexplained residue: attribute %s of the schema object graph changed during call %d (%s); the '
                            'modelled residue is xsi_types / selected_by / identity.elements, lru cache growth, the memo '
                            'attributes of the table scanned from the source (written once), the clearable fields of the '
                            'scratch context and the schema XPath node registry' % (k.split(':', 1)[1], step_no, op), case,
                            {'before': str(a)[:300], 'after': str(b)[:300]})
            for k, (a, b) in dd.items():
                if a in (['<absent>'], ['<unset>']) and b != ['<unset>'] and k not in lazy_keys:
                    lazy_keys[k] = len(lazy_keys)
                    steps.append(['m', lazy_keys[k]])
            present = sorted(v for k, v in lazy_keys.items() if k in fp2 and fp2[k] != ['<unset>'])
            fp = fp2
        else:
            present = None
        fresh_py = PyModel(pool).run(steps)
        py_obs = py.run(steps)
        if drv is not None:
            reqs.append({'sch': None, 'hist': [list(h) for h in model_hist], 'doc': steps})
            meta.append((step_no, op, di, differs, got, want, obs, real, present, fresh_real,
                         attr_ok is not False and fresh_attr_ok is not False, fresh_steps if differs else None))
        else:
            cut = len(real)
            ok = py_obs[:cut] == real
            if not ok:
                ctx.mismatch('observations of call %d (%s) [python mirror]' % (step_no, op), case, real, py_obs[:cut])
            if differs:
                judge(ctx, case, step_no, got, want, py_obs != fresh_py,
                      ok and PyModel(pool).run(fresh_steps)[:len(fresh_real)] == fresh_real and attr_ok is not False
                      and fresh_attr_ok is not False)
        model_hist.append(steps)
    ctx.case(case, (uses_xsi and seen_bad) or bad_before_good or nloaded > 0, tag=tag)
    ctx.count('len:%d' % len(hist))
    if drv is not None:
        sj = pool.sch_json()
        for r in reqs:
            r['sch'] = sj
        reqs.append({'sch': sj, 'hist': [list(h) for h in model_hist], 'doc': []})
        # the fresh runs of the calls that differ, on their own steps (their walk may differ from the used one)
        extra = {m[0]: len(reqs) + k for k, m in enumerate([m for m in meta if m[-1] is not None])}
        reqs.extend({'sch': sj, 'hist': [], 'doc': m[-1]} for m in meta if m[-1] is not None)
        answers = drv.query(reqs)
        final = answers[len(meta)]
        for (step_no, op, di, differs, got, want, obs, real, present, fresh_real, attr_fine, fsteps), ans in zip(meta, answers):
            ctx.traces += 1
            if 'err' in ans or 'error' in ans:
                ctx.mismatch('driver error ' + str(ans.get('err') or ans.get('error')), case, None, ans)
                continue
            # writes: residue after this call = trace[step_no + 1] of the final answer
            tr = final['trace'][step_no + 1]
            bs = pool.base['sel']
            mres = {'types': [tuple(x) for x in tr['types'] if x[0] < DUMMY],
                    'pairs': [tuple(x) for x in tr['pairs'] if x[0] < DUMMY],
                    'elems': sorted(set(tuple(x) for x in tr['elems']) - pool.base['elems']),
                    'sel': sorted(set(tuple(x) for x in tr['sel']) - bs),
                    'cache': sorted(tuple(x) for x in tr['cache'] if (x[0], x[1]) not in pool.base['elems']),
                    'loaded': tr['loaded']}
            if mres != obs:
                ctx.mismatch('residue after call %d (%s)' % (step_no, op), case, obs, mres)
            if present is not None:
                ctx.traces += 1
                if tr['memo'] != present:
                    ctx.mismatch('write-once attributes after call %d (%s)' % (step_no, op), case, present, tr['memo'])
            # reads: what the call saw (root lookup, wildcard lookups, counters and collecting constraints)
            mobs = [o for o in ans['obs'] if 'memo' not in o and 'scratch' not in o]
            mfresh = [o for o in ans['fresh'] if 'memo' not in o and 'scratch' not in o]
            ctx.traces += 1
            reads_ok = mobs[:len(real)] == real and not (op not in ABORT_OPS and got[0] != 'raised' and len(mobs) != len(real))
            if not reads_ok:
                ctx.mismatch('observations (namespace lookups, counters, collecting constraints) of call %d (%s)'
                             % (step_no, op), case, real[:40], mobs[:40])
            if fsteps is not None:
                mfresh = [o for o in answers[extra[step_no]]['obs'] if 'memo' not in o and 'scratch' not in o]
                fresh_ok = mfresh[:len(fresh_real)] == fresh_real
                if not fresh_ok:
                    ctx.count('fresh-run-lookups-not-as-modelled')
            else:
                fresh_ok = True
            ctx.count('observations compared', len(real))
            ctx.count('namespace-lookup observations compared', sum(1 for o in real if 'ns' in o or 'seen' in o))
            pm = ans['obs'] != ans['fresh']
            if pm:
                ctx.count('model-predicts-difference')
            if not ans['ns_quiet']:
                ctx.count('call-not-namespace-quiet')
            if differs:
                judge(ctx, case, step_no, got, want, pm, reads_ok and fresh_ok and attr_fine)
            elif pm:
                ctx.count('model-difference-not-observable')
            elif not ans['ns_quiet']:
                pass


def tabort_budget(py: PyModel, steps: list, log: list) -> Optional[int]:
    """number of writes of the LAST xsi block done when the trace function raised: `log` = the statements of the
    blocks reached so far in the whole call, the last one NOT executed"""
    last = max((k for k, s in enumerate(steps) if s[0] == 'x'), default=None)
    if last is None:
        return None
    m = py.copy()
    m.run([list(s) for s in steps[:last + 1]])
    ws = m.writes_at_x
    tail = log[:]
    while 'type' in tail[:-1]:            # statements of earlier (complete) blocks
        tail = tail[tail.index('type') + 1:]
    k = 0
    for stmt in tail[:-1]:                # executed statements of this block
        if stmt == 'update':
            while k < len(ws) and ws[k][0] in ('elem', 'sel'):
                k += 1
        elif stmt == 'pair':
            if k < len(ws) and ws[k][0] == 'pair':
                k += 1
    return k


def judge(ctx: Ctx, case: dict, step_no: int, got: Any, want: Any, pm: Optional[bool], lookups_ok: bool) -> None:
    detail = {'call': step_no, 'shared_schema_result': got, 'fresh_schema_result': want,
              'model_predicts_difference': pm, 'ns_lookups_as_modelled': lookups_ok}
    fid = known_match(case, detail)
    if fid:
        ctx.known_hit(fid, case, detail)
        ctx.count('known:' + fid)
    else:
        ctx.failure('call %d of the history gives a different result on the used schema object than on a fresh one'
                    % step_no, case, detail)


def random_history(rng, pool: Pool, maxlen: int) -> list:
    n = rng.randint(2, maxlen)
    hist = []
    for _ in range(n):
        op = rng.choice(OPS)
        di = rng.randrange(len(pool.docs))
        hist.append([op, di, rng.randint(1, 4)])
    return hist


WITNESS_F1 = (0, [['iter_errors', 0, 1], ['iter_errors', 2, 1]])     # C10-F1 (fixed): A then B must now agree
WITNESS_F2 = (0, [['iter_errors', 1, 1], ['iter_errors', 24, 1], ['is_valid', 25, 1]])
WITNESS_F3 = [[['iter_errors', 0, 1], ['iter_errors', 0, 1]], [['is_valid', 1, 1], ['iter_errors', 2, 1]]]
WITNESS_F3_POOL2 = [[['iter_errors', 14, 1], ['iter_errors', 14, 1]], [['is_valid', 8, 1], ['iter_errors', 16, 1]]]


def run(ctx: Ctx, driver_ok: bool) -> None:
    load_findings(ctx)
    drv = Driver('drv_c10') if driver_ok else None
    pools = [Pool(*p) for p in POOLS]
    cdir = VERIF / 'corpus' / 'C10'
    if cdir.exists():
        for p in sorted(cdir.glob('*.json')):
            c = json.loads(p.read_text())
            run_history(ctx, c['pool'], pools[c['pool']], c['history'], drv, 'corpus', docs=c.get('docs'))
    run_history(ctx, WITNESS_F1[0], pools[WITNESS_F1[0]], WITNESS_F1[1], drv, 'witness', deep=True)
    run_history(ctx, WITNESS_F2[0], pools[WITNESS_F2[0]], WITNESS_F2[1], drv, 'witness', deep=True)
    for h in WITNESS_F3:
        run_history(ctx, 0, pools[0], h, drv, 'witness-F3', docs=F3_DOCS)
    for h in WITNESS_F3_POOL2:
        run_history(ctx, 2, pools[2], h, drv, 'witness-F3')
    # namespaces loaded on demand: every ordered pair of the documents of pool 2 (the operation of the first call
    # rotates), then the second document twice
    ops2 = ('iter_errors', 'validate', 'decode', 'is_valid', 'to_objects', 'lazy')
    nd = len(pools[2].docs)
    for d1 in range(nd):
        for d2 in range(nd):
            if ctx.quick() and (d1 * 3 + d2 + ctx.seed) % 2:
                continue                   # half of the ordered pairs per run in the quick tier (seeds 0,1: all)
            op1 = ops2[(d1 + d2 + ctx.seed) % (4 if ctx.quick() else 6)]
            h2 = [[op1, d1, 2], ['iter_errors', d2, 1]]
            if not ctx.quick() or (d1 + d2 + ctx.seed) % 3 == 0:
                h2.append(['decode', d2, 1])
            run_history(ctx, 2, pools[2], h2, drv, 'ns-pairs')
    # field typing: within each scope of pool 3, every ordered pair of documents (typed first / untyped first)
    p3 = pools[3]
    groups: dict = {}
    for di, doc in enumerate(p3.docs):
        groups.setdefault(re.search(r'<(sub|wild|dir)>', doc).group(1), []).append(di)
    ops3 = ('iter_errors', 'decode', 'validate', 'is_valid')
    for sc, dis in sorted(groups.items()):
        for d1 in dis:
            for d2 in dis:
                if ctx.quick() and (d1 * 3 + d2 + ctx.seed) % 2:
                    continue
                run_history(ctx, 3, p3, [[ops3[(d1 + d2 + ctx.seed) % 4], d1, 2], ['iter_errors', d2, 1]], drv, 'typing-pairs',
                            deep=(d1 + d2) % 9 == 0)
    # value constraints: every ordered pair of documents of pools 4 and 5 (retyped first / declared type first)
    for pi in (4, 5):
        nd = len(pools[pi].docs)
        for d1 in range(nd):
            for d2 in range(nd):
                if ctx.quick() and pi == 4 and (d1 * 3 + d2 + ctx.seed) % 3:
                    continue
                run_history(ctx, pi, pools[pi], [[ops3[(d1 + d2 + ctx.seed) % 4], d1, 2], ['iter_errors', d2, 1]], drv,
                            'value-pairs', deep=(d1 + d2) % 7 == 0)
    # calls aborted between two statements of the xsi:type block (KeyboardInterrupt from a trace function)
    for pi, di, follow in ((0, 0, 2), (0, 6, 0), (0, 17, 6), (0, 16, 2), (1, 6, 4)):
        for nth in range(1, ctx.pick(5, 9)):
            run_history(ctx, pi, pools[pi], [['tabort', di, nth], ['iter_errors', follow, 1], ['iter_errors', di, 1],
                                             ['decode', follow, 1]], drv, 'abort-inside-xsi', deep=(nth <= 2))
    # exhaustive pairs: every (first call) x (second call)
    first_ops = ('iter_errors', 'validate', 'stop', 'exv') if ctx.quick() else \
        ('iter_errors', 'validate', 'stop', 'exv', 'kbint', 'lazy', 'abandon', 'decode_strict')
    for pi, pool in enumerate(pools[:2]):
        for d1 in range(len(pool.docs)):
            for d2 in range(len(pool.docs)):
                for k, op1 in enumerate(first_ops):
                    if ctx.quick() and (d1 * 7 + d2 * 3 + k) % 5 != ctx.seed % 5:
                        continue           # a fifth of the (op, pair) grid per run in the quick tier (seeds 0..4: all)
                    run_history(ctx, pi, pool, [[op1, d1, 2], ['iter_errors', d2, 1], ['decode', d2, 1]], drv, 'pairs',
                                deep=(d1 + d2 * 5 + k) % 23 == 0)
            if ctx.time_left() < 200:
                break
    n = ctx.pick(100, 500)
    maxlen = ctx.pick(12, 40)
    for i in range(n):
        pi = ctx.rng.randrange(len(pools))
        run_history(ctx, pi, pools[pi], random_history(ctx.rng, pools[pi], maxlen), drv, 'random',
                    deep=(i % ctx.pick(6, 12) == 0))
        if ctx.time_left() < 120:
            ctx.notes.append(f'random histories cut at {i} by the time budget')
            break
    # the replay file shows the first failure: prefer a differing RESULT over a differing residue
    ctx.failures.sort(key=lambda f: 0 if 'different result' in f['what'] else 1)
    ctx.extra['algorithm_under_check'] = 'the code as it is (widening once per (type, constraint) pair, collection gated by selected_by)'
    ctx.extra['explanation'] = ('witness histories of the listed findings; calls aborted inside the xsi:type block; ordered pairs of '
                                'pool documents (first call %s, then iter_errors and decode of the second%s) + %d seeded histories '
                                'of length <= %d over %d operations; deep fingerprints on a sample'
                                % (' / '.join(first_ops), ', a fifth of the grid chosen by the seed' if ctx.quick() else '', n, maxlen, len(OPS)))


def search(ctx: Ctx) -> None:
    pools = [Pool(*p) for p in POOLS]
    d = Driver('drv_c10')
    drv = d if d.path.exists() else None
    for i in range(ctx.pick(300, 2000)):
        pi = ctx.rng.randrange(len(pools))
        run_history(ctx, pi, pools[pi], random_history(ctx.rng, pools[pi], 20), drv, 'search')
        if ctx.failures or ctx.time_left() < 60:
            break


def replay(ctx: Ctx, obj: dict) -> int:
    print(json.dumps({k: v for k, v in obj.items() if k != 'input'}, indent=1, default=str)[:3000])
    case = obj.get('input')
    if not case or 'history' not in case:
        return 0
    load_findings(ctx)
    pools = [Pool(*p) for p in POOLS]
    pool = pools[case['pool']]
    docs = case.get('docs') or pool.docs
    print('pool:', pool.name)
    for k, (op, di, st) in enumerate(case['history']):
        print(f'  call {k}: {op}({"abort at %d, " % st if op in ABORT_OPS else ""}document {di}) {docs[di][:200]}')
    drv = Driver('drv_c10')
    run_history(ctx, case['pool'], pool, case['history'], drv if drv.path.exists() else None, 'replay', deep=True,
                docs=case.get('docs'))
    for f in ctx.failures:
        print('FAILS ON THE REAL CODE:', f['what'])
        if isinstance(f.get('detail'), dict) and 'shared_schema_result' in f['detail']:
            print('   used schema :', json.dumps(f['detail']['shared_schema_result'])[:600])
            print('   fresh schema:', json.dumps(f['detail']['fresh_schema_result'])[:600])
        else:
            print('   ', json.dumps(f.get('detail'), default=str)[:800])
    for m in ctx.mismatches[:5]:
        print('MODEL != IMPLEMENTATION:', m['correspondence'])
        print('   impl :', json.dumps(m['impl'], default=str)[:500])
        print('   model:', json.dumps(m['model'], default=str)[:500])
    for k in ctx.known_hits:
        print('matches listed finding', k)
    return 1 if ctx.failures else 0
